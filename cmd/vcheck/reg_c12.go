package main

import _ "verif/checks/c12"
