// Command vcheck is the single driver/worker binary of /verif. It is rebuilt
// from /repo's working tree (tags: verif; -race for concurrency properties)
// by vcheck.sh on every check.
package main

import "verif/internal/vp"

func main() { vp.Main(raceEnabled) }
