package main

import _ "verif/checks/c20"
