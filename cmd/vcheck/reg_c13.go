package main

import _ "verif/checks/c13"
