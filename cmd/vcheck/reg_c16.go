package main

import _ "verif/checks/c16"
