package main

import _ "verif/checks/c11"
