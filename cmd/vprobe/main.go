// Command vprobe is a development aid: runs one generated scenario and dumps its event log.
package main

import (
	"encoding/json"
	"fmt"
	"os"
	"strconv"

	"verif/internal/pipe"
)

func main() {
	seed, _ := strconv.ParseInt(os.Args[1], 10, 64)
	idx, _ := strconv.Atoi(os.Args[2])
	eng := ""
	if len(os.Args) > 3 {
		eng = os.Args[3]
	}
	g := pipe.NewGen(seed, idx)
	sc := g.Scenario(pipe.GenOpts{Engine: eng, MaxSources: 2, MaxDests: 2, MaxProcs: 1, MaxRecords: 12, AllowFilter: true, AllowDstNack: true, DLQWindows: []int{0, 5}})
	b, _ := json.Marshal(sc)
	fmt.Println(string(b))
	out := pipe.Run(sc, nil)
	for _, e := range out.Evs {
		b, _ := json.Marshal(e)
		fmt.Println(string(b))
	}
	fmt.Println("settled", out.Settled, "status", out.FinalStatus, "stored", out.FinalStored, "inconclusive", out.Inconclusive)
}
