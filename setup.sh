#!/bin/bash
# Run once after a fresh restore, offline: warms both builds of the harness
# (plain and -race) against /repo so that checks only pay incremental builds.
set -e
cd "$(dirname "$0")"
. ./env.sh
mkdir -p .work/bin evidence
go build -tags verif -o .work/bin/vcheck-plain ./cmd/vcheck
go build -tags verif -race -o .work/bin/vcheck-race ./cmd/vcheck
echo setup ok
