#!/bin/bash
# usage: ./vcheck.sh <property id> quick|thorough
#        ./vcheck.sh replay <path>
# Rebuilds the driver/worker binary from /repo's current working tree with the
# hooks enabled (-tags verif) and runs the check. Exit 0 = held on everything
# explored; 1 = VIOLATION line printed; 3 = inconclusive (observed too little).
set -u
cd "$(dirname "$0")"
. ./env.sh
ID="${1:?property id}"; TIER="${2:-quick}"
mkdir -p .work/bin
# VERIF_REPO=<dir> builds the harness against another checkout (scratch worktree
# holding a mutant) instead of /repo; registered checks never set it.
MODFLAG=""
if [ "$VERIF_REPO" != /repo ]; then
  H=$(echo "$VERIF_REPO" | md5sum | cut -c1-8)
  sed "s#=> /repo#=> $VERIF_REPO#" go.mod > .work/alt-$H.mod; cp go.sum .work/alt-$H.sum
  MODFLAG="-modfile=.work/alt-$H.mod"
fi
RACE_IDS=" C01 C02 C03 C04 C05 C06 C07 C08 C09 C10 C11 C12 C13 C16 "
if [ "$ID" = replay ]; then
  # replay <path>: re-run the recorded case
  PROP=$(jq -r .property "$TIER"); T=$(jq -r .tier "$TIER"); S=$(jq -r .seed "$TIER"); I=$(jq -r '.violation.case.index // empty' "$TIER")
  [ -z "$I" ] && { echo "replay file has no re-executable case index; recorded witness:"; jq .violation "$TIER"; exit 0; }
  FLAV=plain; case "$RACE_IDS" in *" $PROP "*) FLAV=race;; esac
  RF=""; [ $FLAV = race ] && RF="-race"
  go build $MODFLAG -tags verif $RF -o .work/bin/vcheck-$FLAV ./cmd/vcheck || exit 2
  exec .work/bin/vcheck-$FLAV one "$PROP" "$T" "$S" "$I"
fi
FLAV=plain; case "$RACE_IDS" in *" $ID "*) FLAV=race;; esac
[ "${VERIF_NORACE:-}" = 1 ] && FLAV=plain
RF=""; [ $FLAV = race ] && RF="-race"
# serialize builds (several checks may be started at once)
exec 9>.work/build.lock
flock 9
go build $MODFLAG -tags verif $RF -o .work/bin/vcheck-$FLAV.$$ ./cmd/vcheck || { echo "BUILD FAILED"; exit 2; }
flock -u 9
BIN=.work/bin/vcheck-$FLAV.$$
trap 'rm -f "$BIN"' EXIT
"$BIN" drive "$ID" "$TIER"
