// Package c07: a failed record goes to the DLQ exactly once or stops the pipeline, never lost.
package c07

import (
	"fmt"
	"os"
	"reflect"

	"verif/internal/pipe"
	"verif/internal/rig"
	"verif/internal/vp"
)

func gen(seed int64, tier string, idx int) *pipe.Scenario {
	g := pipe.NewGen(seed, idx)
	o := pipe.GenOpts{
		MaxSources: 1, MaxDests: 3, MaxProcs: 2, MinRecords: 15, MaxRecords: 70,
		AllowFilter: true, AllowProcErr: true, AllowDstNack: true, AllowWorkers: true, AllowCond: true,
		DLQWindows: []int{0, 1, 2, 3, 5, 8},
	}
	if idx%4 == 3 {
		o.MaxSources = 3 // multi-source: safety clauses only on the default engine
	}
	sc := g.Scenario(o)
	// make rejections likely enough to exercise the window
	if g.R.Intn(2) == 0 {
		d := &sc.Topo.Dests[g.R.Intn(len(sc.Topo.Dests))]
		d.Dst.NackPermille = []int{30, 80, 150, 300}[g.R.Intn(4)]
	}
	if g.R.Intn(3) == 0 {
		// explicit bursts: consecutive rejections around a chosen record
		d := &sc.Topo.Dests[0]
		d.Dst.NackIdx = map[int]bool{}
		at := 2 + g.R.Intn(10)
		for k := 0; k < 1+g.R.Intn(4); k++ {
			d.Dst.NackIdx[at+k*(1+g.R.Intn(2))] = true
		}
	}
	// failing DLQ writes in some scenarios
	if g.R.Intn(6) == 0 {
		sc.Topo.DLQ.NackPermille = []int{100, 400, 1000}[g.R.Intn(3)]
	}
	if idx%8 == 5 {
		g.PartialDLQFailure(sc)
	}
	// keep recovery cheap: few retries
	sc.RecMaxRetries = 1
	return sc
}

func judge(out *pipe.Outcome, ix *pipe.Index) pipe.Verdict {
	var v pipe.Verdict
	sc := out.Sc
	exact := len(sc.Topo.Sources) == 1 || sc.Engine == "v2"
	vs, j := pipe.OracleC07(ix, exact)
	v.Violations = vs
	v.AddJudged("", j)
	// the stored position is the durable form of the ack: it must not pass a record
	// whose dead-lettering failed either
	vs02, j02 := pipe.OracleC02(ix)
	for _, x := range vs02 {
		if x.Class == "commit-past-unhandled" {
			x.Property = "C07"
			x.Identity = "C07/stored-position-past-record-not-dead-lettered/" + sc.Engine
			v.Violations = append(v.Violations, x)
		}
	}
	v.Stats["stored_position_obligations"] += j02.ByHow["commit-covers-handled"]
	// differential: both engines must take identical decisions for identical outcome sequences
	if len(sc.Topo.Sources) == 1 && len(vs) == 0 && out.Settled && sc.Topo.DLQ.NackPermille == 0 && len(sc.Topo.DLQ.NackIdx) == 0 {
		other := *sc
		if sc.Engine == "v1" {
			other.Engine = "v2"
		} else {
			other.Engine = "v1"
		}
		o2 := pipe.Run(&other, nil)
		pipe.DumpEvents(os.Getenv("VF_EVENTS2"), &other, o2.Evs)
		ix2 := pipe.NewIndex(&other, o2.Evs)
		vs2, j2 := pipe.OracleC07(ix2, true)
		v.Violations = append(v.Violations, vs2...)
		v.AddJudged("other_engine_", j2)
		sessions := func(evs []rig.Ev) int {
			n := 0
			for i := range evs {
				if evs[i].Kind == rig.KSrcOpen {
					n++
				}
			}
			return n
		}
		comparable := o2.Settled && o2.Inconclusive == "" && len(vs2) == 0 &&
			j.ByHow["dlq_records_engine_induced"] == 0 && j2.ByHow["dlq_records_engine_induced"] == 0 &&
			sessions(out.Evs) == 1 && sessions(o2.Evs) == 1
		if comparable {
			// Both engines saw exactly the scripted outcome sequence in one
			// uninterrupted run (a restart resets the window, an engine-induced
			// nack changes the sequence): their tolerate-vs-stop decisions must agree.
			_, d1 := pipe.Decisions(out.Evs)
			_, d2 := pipe.Decisions(o2.Evs)
			v.Stats["engine_differentials_judged"]++
			if !reflect.DeepEqual(d1, d2) {
				v.Violations = append(v.Violations, vp.Violation{
					Property: "C07", Class: "engines-decide-differently",
					Identity: fmt.Sprintf("C07/engines-decide-differently/w%d-t%d", min(sc.Topo.DLQWindow, 9), min(sc.Topo.DLQThresh, 9)),
					Detail:   fmt.Sprintf("same scripts, one uninterrupted run each, window W=%d T=%d: %s dead-lettered %v; %s dead-lettered %v", sc.Topo.DLQWindow, sc.Topo.DLQThresh, sc.Engine, d1, other.Engine, d2),
					Case:     sc,
				})
			}
		} else {
			v.Stats["engine_differentials_skipped"]++
		}
	}
	v.Nontrivial = j.ByHow["dlq_records_judged"] > 0 || j.ByHow["sessions_with_intolerable_rejection"] > 0
	v.SigExtra = fmt.Sprintf("dlq%v|stop%v|fail%v", j.ByHow["dlq_records_judged"] > 0, j.ByHow["sessions_with_intolerable_rejection"] > 0, j.ByHow["failed_dlq_writes_judged"] > 0)
	v.Sets = map[string][]string{"window_configs": {fmt.Sprintf("w%d-t%d", sc.Topo.DLQWindow, sc.Topo.DLQThresh)}}
	return v
}

func init() {
	vp.Register(&pipe.PropDef{
		PID: "C07", PLevel: "exploration",
		RuleText: "scenario = both engines, 1 source (3 of 4 cases; exact window oracle) or up to 3 sources (safety clauses), 1-3 destinations with scripted rejection rates and explicit rejection bursts, processors that error/filter, DLQ window W in {0,1,2,3,5,8} and threshold T < W, failing DLQ writes in 1 of 6 scenarios. Judged: every DLQ record (at most once per run, source order, carries the original record, a scripted error of that record and a component that rejects it), every failed DLQ write (never followed by an ack), per source session the tolerate-vs-stop decision against a reference window written from the property's wording, and for single-source scenarios the same scripts are run on the OTHER engine and the acked / dead-lettered sets must be identical. Non-trivial: a DLQ record or an intolerable rejection was judged; distinct = distinct (engine, topology, window config, outcome kinds).",
		Assume:   []string{"reference window = 20 lines written from the C07 wording (internal/pipe/oracle_c07.go RefWindow)", "splits are excluded from the window scenarios (the wording counts outcomes of source records)", "for the default engine with several sources the interleaving of outcomes at the shared window is not observable at the boundary: safety clauses only"},
		Quick:    240, Thorough: 2400,
		PointBias: []string{"funnel.worker.ack", "funnel.worker.nack", "funnel.multiack.ack", "funnel.multiack.nack", "connector.source.ack", "stream.sourceacker.ack", "stream.sourceacker.nack", "stream.fanout.ack"},
		Anchors:   []string{"pkg/lifecycle/stream/dlq.go", "pkg/lifecycle/dlq.go", "pkg/lifecycle-poc/funnel/dlq.go", "pkg/lifecycle/stream/source_acker.go"},
		Gen:       gen, Judge: judge,
	})
}
