// Package c10: fatal failures degrade, transient ones recover (bounded), stopped stays stopped.
package c10

import (
	"fmt"
	"strings"

	"verif/internal/pipe"
	"verif/internal/rig"
	"verif/internal/vp"
)

// causes and the class the property assigns to them
var causes = []struct {
	name  string
	class string // fatal | transient | either | stopped
}{
	{"dlq-threshold", "fatal"},
	{"dlq-write-failure", "fatal"},
	{"proc-error-unabsorbed", "fatal"}, // processor error with a DLQ that tolerates none
	{"force-stop", "fatal"},
	{"retries-exhausted", "fatal"},
	{"dst-stream-error", "transient"},
	{"dst-open-error", "transient"},
	{"dst-nack-unabsorbed", "either"}, // destination nack with threshold 0: wording does not decide
	{"user-stop", "stopped"},
	{"stop-all", "stopped"},
	{"user-stop-during-backoff", "stopped"},
	{"proc-non-converging", "fatal"}, // arch-v2 only
	// the erroring processor is attached to ONE destination of a fan-out: the
	// sibling branch may be the one that forwards the rejection
	{"branch-proc-error-unabsorbed", "fatal"},
	// the drain of an accepted stop itself surfaces a transient error (a
	// destination's Teardown fails): the pipeline was stopped deliberately and
	// must not be restarted by recovery
	// transient failures that are further apart than the retry window: the
	// attempt budget is per window, so they must be recovered from indefinitely
	{"spaced-transient-failures", "transient-spaced"},
	// a fatal cause (failed dead-lettering) that strikes while the server's
	// graceful shutdown is draining the pipeline: still degraded, with the cause
	{"fatal-during-shutdown", "fatal"},
	{"user-stop-drain-error", "stopped"},
	{"stop-all-drain-error", "stopped"},
}

func gen(seed int64, tier string, idx int) *pipe.Scenario {
	g := pipe.NewGen(seed, idx)
	o := pipe.GenOpts{MaxSources: 2, MaxDests: 2, MaxProcs: 1, MinRecords: 30, MaxRecords: 80, AllowFilter: true, AllowWorkers: true, DLQWindows: []int{0}}
	sc := g.Scenario(o)
	c := causes[idx%len(causes)]
	if c.name == "proc-non-converging" && sc.Engine != "v2" {
		c = causes[0]
	}
	sc.Name = c.name
	if sc.Engine == "v1" && (c.name == "dlq-threshold" || c.name == "dlq-write-failure" || c.name == "dst-nack-unabsorbed") {
		// On the default engine a destination nack under fan-out also makes the sibling
		// branches fail ("message was nacked by another node", recorded under C07), which
		// is a different cause; keep these causes pure with a single destination.
		sc.Topo.Dests = sc.Topo.Dests[:1]
	}
	sc.RecMinDelayUs = []int{2000, 5000, 15000}[g.R.Intn(3)]
	sc.RecMaxDelayUs = sc.RecMinDelayUs * 4
	sc.RecMaxRetries = int64(g.R.Intn(4)) // 0..3
	if g.R.Intn(6) == 0 {
		sc.RecMaxRetries = -1 // infinite
	}
	sc.RecWindowUs = 120_000_000 // far longer than any run: the attempt counter never decays inside a run
	at := 30 + g.R.Intn(120)
	d0 := &sc.Topo.Dests[0]
	switch c.name {
	case "dlq-threshold":
		sc.Topo.DLQWindow = 2 + g.R.Intn(5)
		sc.Topo.DLQThresh = 1 + g.R.Intn(sc.Topo.DLQWindow-1)
		d0.Dst.NackIdx = map[int]bool{}
		from := 3 + g.R.Intn(10)
		for k := 0; k <= sc.Topo.DLQThresh+1; k++ {
			d0.Dst.NackIdx[from+k] = true
		}
	case "dlq-write-failure":
		d0.Dst.NackIdx = map[int]bool{3 + g.R.Intn(10): true}
		sc.Topo.DLQ.NackPermille = 1000
	case "proc-error-unabsorbed":
		sc.Topo.DLQWindow = 1 + g.R.Intn(4)
		sc.Topo.DLQThresh = 0
		p := rig.ProcSpec{ID: "pe"}
		p.Script.Kind = map[string]string{rig.Lin{Src: "s0", Idx: 3 + g.R.Intn(10)}.String(): rig.PKError}
		sc.Topo.PipeProcs = append(sc.Topo.PipeProcs, p)
	case "dst-nack-unabsorbed":
		sc.Topo.DLQWindow = 1 + g.R.Intn(4)
		sc.Topo.DLQThresh = 0
		d0.Dst.NackIdx = map[int]bool{3 + g.R.Intn(10): true}
	case "force-stop":
		sc.Steps = []pipe.Step{{AtEvent: at, Op: "forcestop"}}
	case "retries-exhausted":
		if sc.RecMaxRetries < 0 {
			sc.RecMaxRetries = 2
		}
		// the destination stream fails in EVERY session
		d0.Dst.Shape = map[int]string{2 + g.R.Intn(5): "streamerr"}
		d0.Dst.ShapeSess = 0
	case "dst-stream-error":
		d0.Dst.Shape = map[int]string{2 + g.R.Intn(15): "streamerr"}
		d0.Dst.ShapeSess = 1
		if sc.RecMaxRetries == 0 {
			sc.RecMaxRetries = 1
		}
	case "dst-open-error":
		d0.Dst.CallErr = map[string]string{"Open#1": "vf transient open error"}
		if sc.RecMaxRetries == 0 {
			sc.RecMaxRetries = 1
		}
	case "user-stop":
		sc.Steps = []pipe.Step{{AtEvent: at, Op: "stopwait"}}
	case "stop-all":
		sc.Steps = []pipe.Step{{AtEvent: at, Op: "stopall"}, {AtEvent: 0, Op: "wait"}}
	case "spaced-transient-failures":
		// every session of the destination fails at its 60th record; the source is
		// paced so that a session runs for >= 300 ms before that, while back-off plus
		// window stay below 60 ms
		sc.Topo.Sources = sc.Topo.Sources[:1]
		sc.Records = []int{60*6 + 20}
		sc.Topo.Sources[0].Src.Batches = []int{1}
		sc.Topo.Sources[0].Src.PaceUs = 5000
		sc.Topo.Sources[0].Procs = nil
		sc.Topo.PipeProcs = nil
		sc.Topo.Dests = sc.Topo.Dests[:1]
		d0 = &sc.Topo.Dests[0]
		d0.Procs = nil
		d0.Dst = rig.DstScript{Seed: g.R.Uint64(), Shape: map[int]string{60: "streamerr"}, ShapeSess: 0}
		sc.RecMinDelayUs = 2000
		sc.RecMaxDelayUs = 8000
		sc.RecMaxRetries = int64(1 + g.R.Intn(2))
		sc.RecWindowUs = 20000
		sc.PersistDelayUs = 200
	case "fatal-during-shutdown":
		sc.Topo.Dests = sc.Topo.Dests[:1]
		d0 = &sc.Topo.Dests[0]
		d0.Procs = nil
		d0.Dst.NackPermille = 0
		d0.Dst.NackIdx = map[int]bool{}
		for k := 8; k < 200; k += 2 + g.R.Intn(3) {
			d0.Dst.NackIdx[k] = true
		}
		// in-flight records drain slowly, so that some are still unconfirmed when
		// the shutdown begins
		d0.Dst.LatencyUs = []int{3000, 6000}
		sc.Topo.DLQWindow, sc.Topo.DLQThresh = 0, 0
		sc.Topo.DLQ.NackPermille = 1000
		sc.Steps = []pipe.Step{{AtEvent: 25 + g.R.Intn(40), Op: "stopall"}, {AtEvent: 0, Op: "wait"}}
	case "user-stop-drain-error":
		d0.Dst.CallErr = map[string]string{"Teardown#1": "vf transient teardown error"}
		sc.Steps = []pipe.Step{{AtEvent: at, Op: "stopwait"}}
	case "stop-all-drain-error":
		d0.Dst.CallErr = map[string]string{"Teardown#1": "vf transient teardown error"}
		sc.Steps = []pipe.Step{{AtEvent: at, Op: "stopall"}, {AtEvent: 0, Op: "wait"}}
	case "user-stop-during-backoff":
		d0.Dst.Shape = map[int]string{2 + g.R.Intn(8): "streamerr"}
		d0.Dst.ShapeSess = 1
		sc.RecMinDelayUs = 60000
		sc.RecMaxDelayUs = 120000
		if sc.RecMaxRetries == 0 {
			sc.RecMaxRetries = 2
		}
		sc.Steps = []pipe.Step{{AtEvent: 0, Op: "await-recovering"}, {AtEvent: 0, Op: "stop"}}
	case "branch-proc-error-unabsorbed":
		sc.Topo.DLQWindow = 1 + g.R.Intn(4)
		sc.Topo.DLQThresh = 0
		sc.Topo.Sources = sc.Topo.Sources[:1]
		sc.Records = sc.Records[:1]
		for len(sc.Topo.Dests) < 2 {
			c := rig.ConnSpec{ID: fmt.Sprintf("d%d", len(sc.Topo.Dests))}
			c.Dst.Seed = g.R.Uint64()
			sc.Topo.Dests = append(sc.Topo.Dests, c)
		}
		a := g.R.Intn(2)
		p := rig.ProcSpec{ID: "pe"}
		p.Script.Kind = map[string]string{rig.Lin{Src: "s0", Idx: 3 + g.R.Intn(10)}.String(): rig.PKError}
		sc.Topo.Dests[a].Procs = append(sc.Topo.Dests[a].Procs, p)
		// either branch may be the slower one, i.e. the one that votes last
		sc.Topo.Dests[g.R.Intn(2)].Dst.LatencyUs = []int{[]int{800, 2500, 6000}[g.R.Intn(3)]}
	case "proc-non-converging":
		p := rig.ProcSpec{ID: "pn"}
		p.Script.Hostile = map[int]string{}
		for k := 2; k < 40; k++ {
			p.Script.Hostile[k] = "nilentry"
		}
		sc.Topo.PipeProcs = append(sc.Topo.PipeProcs, p)
	}
	// give the recovery path time: the runner's settle wait covers it
	return sc
}

func hooks(sc *pipe.Scenario) *pipe.Hooks {
	return &pipe.Hooks{Op: func(r *rig.Rig, sc *pipe.Scenario, op string) bool {
		if op == "await-recovering" {
			r.Log.WaitFor(func(evs []rig.Ev) bool {
				for i := len(evs) - 1; i >= 0; i-- {
					if evs[i].Kind == rig.KCommit && evs[i].Snap != nil {
						return evs[i].Snap.Status[sc.Topo.Pipeline] == "Recovering"
					}
				}
				return false
			}, 10e9)
			return true
		}
		return false
	}}
}

type statusEv struct {
	ev     int
	t      int64
	status string
	errTxt string
}

func judge(out *pipe.Outcome, ix *pipe.Index) pipe.Verdict {
	var v pipe.Verdict
	v.Stats = map[string]int64{}
	sc := out.Sc
	cause := causeOf(sc)
	class := ""
	for _, c := range causes {
		if c.name == cause {
			class = c.class
		}
	}
	evs := out.Evs
	pl := sc.Topo.Pipeline
	add := func(cl, detail string, around ...int) {
		v.Violations = append(v.Violations, vp.Violation{Property: "C10", Class: cl,
			Identity: fmt.Sprintf("C10/%s/%s/%s", cl, sc.Engine, cause), Detail: detail, Witness: rig.Excerpt(evs, around, 8)})
	}
	// status history (from the store) and (re)start events
	var hist []statusEv
	for i := range evs {
		e := &evs[i]
		if e.Kind == rig.KCommit && e.Snap != nil {
			st := e.Snap.Status[pl]
			if len(hist) == 0 || hist[len(hist)-1].status != st {
				hist = append(hist, statusEv{i, e.T, st, e.Snap.StatusErr[pl]})
			}
		}
	}
	var opens []int // source plugin opens of the first source = runs
	for i := range evs {
		if evs[i].Kind == rig.KSrcOpen && evs[i].Comp == sc.Topo.Sources[0].ID && evs[i].Err == "" {
			opens = append(opens, i)
		}
	}
	userStarts := []int{}
	for i := range evs {
		if evs[i].Kind == rig.KCtl && (evs[i].Op == "Start") {
			userStarts = append(userStarts, i)
		}
	}
	userStartBetween := func(a, b int) bool {
		for _, u := range userStarts {
			if u > a && u < b {
				return true
			}
		}
		return false
	}
	var seq []string
	for _, h := range hist {
		seq = append(seq, h.status)
	}
	v.Sets = map[string][]string{"status_sequences": {sc.Engine + ":" + strings.Join(seq, ">")}}
	final := out.FinalStatus
	restarts := int64(0)
	for k := 1; k < len(opens); k++ {
		if !userStartBetween(opens[k-1], opens[k]) {
			restarts++
		}
	}
	v.Stats["automatic_restarts_observed"] = restarts
	v.Stats["status_transitions_observed"] = int64(len(hist))

	// the cause must actually have manifested
	manifested := false
	for _, h := range hist {
		if h.status == "Degraded" || h.status == "Recovering" {
			manifested = true
		}
	}
	if class == "stopped" {
		manifested = true
	}

	// (A) every automatic restart resumes from the durable position, not earlier than MinDelay after Recovering
	minDelay := int64(sc.RecMinDelayUs) * 1000
	for k := 1; k < len(opens); k++ {
		if userStartBetween(opens[k-1], opens[k]) {
			continue
		}
		// last Recovering status write before this open
		var rec *statusEv
		for i := range hist {
			if hist[i].ev < opens[k] && hist[i].status == "Recovering" {
				rec = &hist[i]
			}
		}
		if rec == nil {
			add("restart-without-recovering-status", fmt.Sprintf("run %d started automatically without a Recovering status write before it", k+1), opens[k])
			continue
		}
		v.Stats["backoff_lower_bounds_judged"]++
		if evs[opens[k]].T-rec.t < minDelay {
			add("restart-sooner-than-min-backoff", fmt.Sprintf("automatic restart %.2f ms after the Recovering status write, configured MinDelay %.2f ms", float64(evs[opens[k]].T-rec.t)/1e6, float64(minDelay)/1e6), rec.ev, opens[k])
		}
		// durable position at the restart
		for _, s := range sc.Topo.Sources {
			stored := -1
			for i := opens[k]; i >= 0; i-- {
				if evs[i].Kind == rig.KCommit && evs[i].Snap != nil {
					if p, ok := evs[i].Snap.Pos[s.ID]; ok {
						stored = p
					}
					break
				}
			}
			for i := opens[k]; i < len(evs) && i < opens[k]+400; i++ {
				e := &evs[i]
				if e.Kind == rig.KSrcOpen && e.Comp == s.ID && e.Err == "" && len(e.Idx) == 1 {
					v.Stats["restart_positions_judged"]++
					// the stored position may have advanced between the snapshot and the open; never go past what was stored at open time
					storedAtOpen := stored
					for q := i; q >= 0; q-- {
						if evs[q].Kind == rig.KCommit && evs[q].Snap != nil {
							if p, ok := evs[q].Snap.Pos[s.ID]; ok {
								storedAtOpen = p
							}
							break
						}
					}
					if e.Idx[0] != storedAtOpen {
						add("restart-not-from-durable-position", fmt.Sprintf("automatic restart opened %s at %d, the stored position at that moment was %d", s.ID, e.Idx[0], storedAtOpen), i)
					}
					break
				}
			}
		}
	}
	// (B) bounded number of automatic restarts
	if sc.RecMaxRetries >= 0 && restarts > sc.RecMaxRetries {
		// An attempt is forgotten duration+window after it was made. In every
		// scenario but one the window (120 s) is longer than the run, so all
		// restarts count; with a short window only the restarts whose Recovering
		// status writes lie within ONE window of each other do.
		window := int64(sc.RecWindowUs) * 1000
		var recs []int64
		for _, h := range hist {
			if h.status == "Recovering" {
				recs = append(recs, h.t)
			}
		}
		worst := int64(0)
		for a := range recs {
			n := int64(0)
			for b := a; b < len(recs) && recs[b]-recs[a] <= window; b++ {
				n++
			}
			if n > worst {
				worst = n
			}
		}
		if len(recs) == 0 {
			worst = restarts
		}
		if worst > sc.RecMaxRetries {
			add("more-restarts-than-max-retries", fmt.Sprintf("%d automatic restarts (%d of them within one retry window of %dus) with MaxRetries=%d", restarts, worst, sc.RecWindowUs, sc.RecMaxRetries))
		}
	}

	switch class {
	case "fatal":
		if cause == "fatal-during-shutdown" {
			// the cause manifests when the DLQ rejects a dead-letter write, whatever
			// status the engine then chooses
			manifested = false
			for i := range evs {
				if evs[i].Kind == rig.KDstAck && evs[i].Role == "dlq" {
					for _, a := range evs[i].Acks {
						if a.Err != "" {
							manifested = true
						}
					}
				}
			}
		}
		if !manifested {
			v.Inconclusive = "the fatal cause did not manifest in this run"
			break
		}
		if cause == "retries-exhausted" && final != "Degraded" && final != "Recovering" {
			// the destination failure is scripted per write ordinal: when the remaining
			// records no longer reach it the last run simply completes
			v.Inconclusive = "the repeating failure stopped repeating before the retry budget was used up"
			break
		}
		v.Stats["fatal_causes_judged"]++
		if final != "Degraded" {
			add("fatal-cause-not-degraded", fmt.Sprintf("after fatal cause %q the pipeline ended %s (status history %v)", cause, final, seq))
		} else {
			last := hist[len(hist)-1]
			if last.errTxt == "" {
				add("degraded-without-cause", "pipeline degraded but no error text was stored")
			}
		}
		if cause != "retries-exhausted" {
			// never restarted automatically after a fatal cause: the run count stays 1
			firstBad := -1
			for i := range hist {
				if hist[i].status == "Recovering" {
					firstBad = hist[i].ev
					break
				}
			}
			if firstBad >= 0 {
				cl := "fatal-cause-treated-as-transient"
				if sc.Engine == "v2" && len(sc.Topo.Sources) > 1 {
					// arch-v2 with several sources: the sibling worker's (non-fatal) error can
					// reach the tomb before the root cause; kept apart from the single-source case
					cl = "fatal-cause-treated-as-transient-multi-source"
				}
				add(cl, fmt.Sprintf("fatal cause %q put the pipeline into Recovering (status history %v)", cause, seq), firstBad)
			} else if restarts > 0 {
				add("restart-after-fatal", fmt.Sprintf("%d automatic restarts after fatal cause %q", restarts, cause))
			}
		} else {
			if sc.RecMaxRetries >= 0 && restarts != sc.RecMaxRetries && final == "Degraded" {
				// must have used exactly the configured attempts before giving up
				add("retry-budget-not-respected", fmt.Sprintf("%d automatic restarts before giving up, MaxRetries=%d", restarts, sc.RecMaxRetries))
			}
			if final == "Degraded" && !strings.Contains(hist[len(hist)-1].errTxt, "recover") {
				add("exhaustion-cause-not-recorded", fmt.Sprintf("retries exhausted but the stored error does not say so: %q", hist[len(hist)-1].errTxt))
			}
		}
	case "transient":
		if !manifested {
			v.Inconclusive = "the transient cause did not manifest in this run"
			break
		}
		v.Stats["transient_causes_judged"]++
		if restarts == 0 {
			add("transient-cause-not-recovered", fmt.Sprintf("transient cause %q: no automatic restart (status history %v, final %s)", cause, seq, final))
		}
	case "transient-spaced":
		// failures (Recovering status writes) and the spacing the history shows
		var fails []int64
		for _, h := range hist {
			if h.status == "Recovering" {
				fails = append(fails, h.t)
			}
		}
		if len(fails) < int(sc.RecMaxRetries)+2 && final != "Degraded" {
			v.Inconclusive = fmt.Sprintf("only %d failures manifested", len(fails))
			break
		}
		budget := int64(sc.RecWindowUs+sc.RecMaxDelayUs) * 1000
		spaced := true
		for k := 1; k < len(fails); k++ {
			if fails[k]-fails[k-1] < 5*budget {
				spaced = false
			}
		}
		v.Stats["spaced_failure_runs_judged"]++
		v.Stats["spaced_failures_observed"] += int64(len(fails))
		if final == "Degraded" {
			if spaced {
				add("spaced-transient-failures-exhausted-retries", fmt.Sprintf("%d transient failures, each more than 5x (window %dus + max back-off %dus) after the previous one, MaxRetries=%d: the pipeline degraded (%v)", len(fails), sc.RecWindowUs, sc.RecMaxDelayUs, sc.RecMaxRetries, seq))
			} else {
				v.Inconclusive = "failures were not spaced beyond the window on this machine"
			}
		}
	case "either":
		if manifested {
			v.Stats["undetermined_causes_observed"]++
		}
	case "stopped":
		v.Stats["stop_requests_judged"]++
		// find the accepted stop
		stopRet := -1
		for i := range evs {
			e := &evs[i]
			if e.Kind == rig.KCtlRet && (e.Op == "Stop" || e.Op == "StopAll") && e.Err == "" {
				stopRet = i
				break
			}
		}
		if stopRet < 0 {
			v.Stats["stop_requests_rejected"]++
			v.Nontrivial = false
			break
		}
		for _, o := range opens {
			if o > stopRet && !userStartBetween(stopRet, o) {
				// the run the stop was addressed to may still be opening; only a run that
				// starts after the previous one was torn down is a restart
				tornBefore := false
				for i := stopRet; i < o; i++ {
					if evs[i].Kind == rig.KSrcTeardown && evs[i].Comp == sc.Topo.Sources[0].ID {
						tornBefore = true
					}
				}
				prevOpen := false
				for _, p := range opens {
					if p < stopRet {
						prevOpen = true
					}
				}
				if tornBefore || !prevOpen && cause == "user-stop-during-backoff" || cause == "user-stop-during-backoff" {
					// did the restart begin while the stop call was still in progress? (first plugin
					// or processor event of the new run between the Stop call and its return)
					stopCtl := stopRet
					for q := stopRet; q >= 0; q-- {
						if evs[q].Kind == rig.KCtl && evs[q].Call == evs[stopRet].Call {
							stopCtl = q
							break
						}
					}
					inProgress := false
					for q := stopCtl; q < stopRet; q++ {
						switch evs[q].Kind {
						case rig.KProcOpen, rig.KPluginCall, rig.KSrcOpen, rig.KDstOpen:
							inProgress = true
						}
					}
					cl := "restarted-after-accepted-stop"
					if inProgress {
						cl = "stop-accepted-while-restart-already-in-progress"
					}
					add(cl, fmt.Sprintf("the stop request returned nil at event %d, yet a new run was started at event %d without a user start", stopRet, o), stopRet, o)
					break
				}
			}
		}
		want := "UserStopped"
		if cause == "stop-all" || cause == "stop-all-drain-error" {
			want = "SystemStopped"
		}
		if out.Settled && final != want && !(final == "Degraded") {
			add("wrong-stopped-status", fmt.Sprintf("after %s the pipeline ended %s, expected %s (status history %v)", cause, final, want, seq))
		}
	}
	if v.Inconclusive == "" && class != "stopped" {
		v.Nontrivial = manifested
	} else if class == "stopped" {
		v.Nontrivial = v.Stats["stop_requests_rejected"] == 0
	}
	v.SigExtra = fmt.Sprintf("%s|r%d|%s", cause, sc.RecMaxRetries, final)
	return v
}

func causeOf(sc *pipe.Scenario) string {
	n := sc.Name
	if i := strings.LastIndex(n, "|cause="); i >= 0 {
		return n[i+7:]
	}
	return n
}

func init() {
	p := &pipe.PropDef{
		PID: "C10", PLevel: "exploration",
		RuleText: "each scenario injects ONE failure cause into a running pipeline (both engines): fatal {DLQ threshold exceeded, DLQ write failure, processor error with a DLQ that tolerates none, force stop, retries exhausted, non-converging processor (arch-v2)}, transient {destination stream error, destination Open error}, undetermined by the wording {destination nack with threshold 0: either accepted}, or a stop {user stop, StopAll, user stop accepted during the recovery back-off}; retry limit 0-3 or infinite, back-off 2-60 ms. Judged from the stored status history, the plugin Open events and the monotonic event stamps: fatal => ends Degraded with an error text and no Recovering/automatic restart; transient => at least one automatic restart; every automatic restart is preceded by a Recovering status write, starts no sooner than MinDelay after it (lower bound only) and re-opens every source at the position stored at that moment; no more automatic restarts than MaxRetries; exhaustion ends Degraded naming the cause; after an ACCEPTED stop (call returned nil) no new run starts without a user Start and the final status is User/SystemStopped. Non-trivial: the cause manifested (a Degraded/Recovering status was stored, or a stop was accepted); distinct = distinct (engine, topology, cause, retry limit, final status).",
		Assume:   []string{"runs are shorter than MaxRetriesWindow, so the attempt counter never decays inside a run", "lateness of a restart is load, only 'sooner than MinDelay' is a verdict (one monotonic clock)", "a Stop that the engine rejects with an error is not an accepted stop"},
		Quick:    300, Thorough: 3000,
		PointBias: []string{"lifecycle.start.checked", "lifecycle.start.before-run", "lifecycle.stop.checked", "lifecycle.recover.backoff-elapsed", "lifecycle.run.ended", "pipeline.updatestatus.before-store"},
		Anchors:   []string{"pkg/lifecycle/service.go", "pkg/lifecycle-poc/service.go", "pkg/foundation/cerrors/fatal.go", "pkg/lifecycle/stream/dlq.go", "pkg/lifecycle-poc/funnel/dlq.go"},
		Gen:       gen, Judge: judge, Hooks: hooks,
	}
	vp.Register(p)
}
