// Package c12: force stop at any instant ends the run cleanly and acks nothing undelivered.
package c12

import (
	"context"
	"fmt"
	"strings"
	"sync"
	"time"

	"verif/internal/pipe"
	"verif/internal/rig"
	"verif/internal/vp"
)

func gen(seed int64, tier string, idx int) *pipe.Scenario {
	g := pipe.NewGen(seed, idx)
	o := pipe.GenOpts{
		MaxSources: 2, MaxDests: 3, MaxProcs: 1, MinRecords: 40, MaxRecords: 150,
		AllowFilter: true, AllowWorkers: true, AllowMulti: true, AllowDstNack: true, AllowProcErr: true, DLQWindows: []int{0},
	}
	sc := g.Scenario(o)
	instant := []string{"startup", "mid", "dst-blocked", "dlq-blocked", "during-graceful", "idle"}[idx%6]
	if idx%14 == 9 {
		instant = "during-backoff"
	}
	if idx%14 == 2 {
		instant = "at-recovery-decision"
	}
	sc.Name = instant
	var steps []pipe.Step
	switch instant {
	case "startup":
		steps = append(steps, pipe.Step{AtEvent: g.R.Intn(14), Op: "forcestop", AfterPrevUs: g.R.Intn(400)})
		if idx%12 == 0 {
			// the DLQ plugin is slow to come up while records are already being read
			// and rejected: their nacks wait for the DLQ when the force stop arrives
			sc.Topo.DLQ.OpenLatencyUs = 30000 + g.R.Intn(50000)
			sc.Topo.Dests[0].Dst.NackPermille = 500
			sc.Topo.Dests[0].Dst.LatencyUs = nil
			steps[0] = pipe.Step{AtEvent: 12 + g.R.Intn(30), Op: "forcestop", AfterPrevUs: g.R.Intn(3000)}
			sc.Name = "startup-dlq-slow"
		}
	case "mid":
		steps = append(steps, pipe.Step{AtEvent: 25 + g.R.Intn(250), Op: "forcestop"})
	case "dst-blocked":
		d := sc.Topo.Dests[g.R.Intn(len(sc.Topo.Dests))].ID
		steps = append(steps, pipe.Step{AtEvent: 20 + g.R.Intn(60), Op: "block:" + d},
			pipe.Step{AtEvent: 0, Op: "quiet"},
			pipe.Step{AtEvent: 0, Op: "forcestop"},
			pipe.Step{AtEvent: 0, Op: "wait"},
			pipe.Step{AtEvent: 0, Op: "unblock:" + d})
	case "dlq-blocked":
		// make rejections certain so the DLQ is in use, then block it
		sc.Topo.Dests[0].Dst.NackPermille = 300
		steps = append(steps, pipe.Step{AtEvent: 0, Op: "blockdlq"},
			pipe.Step{AtEvent: 0, Op: "quiet"},
			pipe.Step{AtEvent: 0, Op: "forcestop"},
			pipe.Step{AtEvent: 0, Op: "wait"},
			pipe.Step{AtEvent: 0, Op: "unblockdlq"})
	case "during-graceful":
		// slow destination so the graceful stop is still draining
		sc.Topo.Dests[0].Dst.LatencyUs = []int{3000, 8000}
		first := "stop"
		if idx%12 == 10 {
			// the graceful stop is the server's shutdown (StopAll), the force stop
			// its escalation
			first = "stopall"
			sc.Name = "during-graceful-shutdown"
		}
		after := g.R.Intn(3000)
		if first == "stopall" {
			// the shutdown cannot finish because a destination does not answer; the
			// escalation follows while it is still draining
			d := sc.Topo.Dests[g.R.Intn(len(sc.Topo.Dests))].ID
			steps = append(steps, pipe.Step{AtEvent: 20 + g.R.Intn(60), Op: "block:" + d},
				pipe.Step{AtEvent: 0, Op: "quiet"},
				pipe.Step{AtEvent: 0, Op: "bg:stopall"},
				pipe.Step{AtEvent: 0, Op: "forcestop", AfterPrevUs: 1000 + g.R.Intn(20000)},
				pipe.Step{AtEvent: 0, Op: "wait"},
				pipe.Step{AtEvent: 0, Op: "unblock:" + d})
			break
		}
		steps = append(steps, pipe.Step{AtEvent: 25 + g.R.Intn(150), Op: first},
			pipe.Step{AtEvent: 0, Op: "forcestop", AfterPrevUs: after})
	case "idle":
		steps = append(steps, pipe.Step{AtEvent: -1, Op: "forcestop"})
	case "during-backoff":
		// the run fails transiently; the force stop arrives while recovery is
		// waiting out its back-off
		d := &sc.Topo.Dests[0]
		d.Dst.Shape = map[int]string{2 + g.R.Intn(8): "streamerr"}
		d.Dst.ShapeSess = 1
		sc.RecMinDelayUs = 60000
		sc.RecMaxDelayUs = 120000
		sc.RecMaxRetries = 3
		steps = append(steps, pipe.Step{AtEvent: 0, Op: "await-recovering"},
			pipe.Step{AtEvent: 0, Op: "forcestop", AfterPrevUs: g.R.Intn(30000)})
	case "at-recovery-decision":
		// the run fails transiently; the force stop is issued by a harness action
		// (see hooks) at the scheduling point between the recovery's look at the
		// force-stop mark and the restart it then begins - the one instant at which
		// the force stop is accepted against the dead run while the restart has
		// already decided to go ahead
		d := &sc.Topo.Dests[0]
		d.Dst.Shape = map[int]string{2 + g.R.Intn(8): "streamerr"}
		d.Dst.ShapeSess = 1
		sc.RecMinDelayUs = 2000 + g.R.Intn(20000)
		sc.RecMaxDelayUs = 2 * sc.RecMinDelayUs
		sc.RecMaxRetries = 3
		steps = append(steps, pipe.Step{AtEvent: 0, Op: "await-forcestop-from-action"})
	}
	if instant != "dst-blocked" && instant != "dlq-blocked" && sc.Name != "during-graceful-shutdown" {
		steps = append(steps, pipe.Step{AtEvent: 0, Op: "wait"})
	}
	// the pipeline can afterwards be started again and resumes without a gap
	// (the wait above may have been answered by a run that was already dead when the
	// force stop arrived; give the engine until the stored status is terminal - bounded
	// by a harness watchdog - before the user starts the pipeline again)
	steps = append(steps, pipe.Step{AtEvent: 0, Op: "await-terminal"}, pipe.Step{AtEvent: 0, Op: "quiet"}, pipe.Step{AtEvent: 0, Op: "start"})
	sc.Steps = steps
	return sc
}

func hooks(sc *pipe.Scenario) *pipe.Hooks {
	h := opHooks()
	if strings.Contains(sc.Name, "at-recovery-decision") {
		h.AfterBuild = func(r *rig.Rig, sc *pipe.Scenario) {
			if r.Points == nil {
				return
			}
			var once sync.Once
			r.Points.On("lifecycle.recover.checked", func() {
				once.Do(func() {
					// the harness as a concurrent client: a force stop, issued now. Stop
					// does not wait for the restart (it takes no lock the recovery holds);
					// pacing: the recovery is held here until the call has returned
					r.Log.Append(rig.Ev{Kind: rig.KNote, Note: "force stop issued at the recovery decision"})
					done := make(chan struct{})
					go func() { _ = r.Stop(context.Background(), sc.Topo.Pipeline, true); close(done) }()
					select {
					case <-done:
					case <-time.After(2 * time.Second):
					}
				})
			})
		}
	}
	return h
}

func opHooks() *pipe.Hooks {
	return &pipe.Hooks{Op: func(r *rig.Rig, sc *pipe.Scenario, op string) bool {
		switch op {
		case "await-forcestop-from-action":
			// the run ends without recovery ever reaching its decision (a fatal cause
			// won, retries exhausted): bounded wait, the judge then finds no force stop
			r.Log.WaitFor(func(evs []rig.Ev) bool {
				for i := len(evs) - 1; i >= 0; i-- {
					if evs[i].Kind == rig.KCtlRet && evs[i].Op == "ForceStop" {
						return true
					}
				}
				return false
			}, 10e9)
			return true
		case "blockdlq":
			// DLQ connectors are created at start; block them all (also future ones via default)
			r.Log.WaitFor(func(evs []rig.Ev) bool {
				for i := range evs {
					if evs[i].Kind == rig.KDstOpen && evs[i].Role == "dlq" {
						return true
					}
				}
				return false
			}, 5e9)
			for _, d := range r.Plugins.DLQs() {
				d.Block()
			}
			r.Log.Append(rig.Ev{Kind: rig.KNote, Note: "blocked", Comp: "dlq"})
			return true
		case "await-terminal":
			r.Log.WaitFor(func(evs []rig.Ev) bool {
				for i := len(evs) - 1; i >= 0; i-- {
					if evs[i].Kind == rig.KCommit && evs[i].Snap != nil {
						switch evs[i].Snap.Status[sc.Topo.Pipeline] {
						case "Degraded", "UserStopped", "SystemStopped":
							return true
						}
						return false
					}
				}
				return false
			}, 10e9)
			return true
		case "await-recovering":
			r.Log.WaitFor(func(evs []rig.Ev) bool {
				for i := len(evs) - 1; i >= 0; i-- {
					if evs[i].Kind == rig.KCommit && evs[i].Snap != nil {
						return evs[i].Snap.Status[sc.Topo.Pipeline] == "Recovering"
					}
				}
				return false
			}, 10e9)
			return true
		case "unblockdlq":
			for _, d := range r.Plugins.DLQs() {
				d.Unblock()
			}
			return true
		}
		return false
	}}
}

// flushAbandoned: between the force stop and the reopen the engine logged that the
// teardown of this source gave up waiting for the final position flush.
func flushAbandoned(evs []rig.Ev, src string, from, to int) bool {
	if from < 0 {
		from = 0
	}
	for i := from; i < to && i < len(evs); i++ {
		if evs[i].Kind == rig.KWarn && strings.Contains(evs[i].Note, "\"connector_id\":\""+src+"\"") &&
			(strings.Contains(evs[i].Note, "timed out waiting for the final flush") || strings.Contains(evs[i].Note, "gave up draining pending deferred acks")) {
			return true
		}
	}
	return false
}

func judge(out *pipe.Outcome, ix *pipe.Index) pipe.Verdict {
	var v pipe.Verdict
	v.Stats = map[string]int64{}
	sc := out.Sc
	evs := out.Evs
	instant := sc.Name
	if i := strings.LastIndex(instant, "|cause="); i >= 0 {
		instant = instant[i+7:]
	}
	duringRecovery := false
	add := func(cl, detail string, around ...int) {
		id := fmt.Sprintf("C12/%s/%s/%s", cl, sc.Engine, instant)
		if duringRecovery && (cl == "not-marked-failed-by-force-stop" || cl == "automatic-restart-after-force-stop" || cl == "not-restartable" || cl == "recovering-after-force-stop") {
			// the force stop was accepted while the pipeline reported Recovering: the registry
			// still holds the dead pre-recovery run, so the stop may act on it while the
			// restarted run is already being built (one specific, recorded race)
			id = fmt.Sprintf("C12/force-stop-during-recovery-restart-race/%s", sc.Engine)
		}
		v.Violations = append(v.Violations, vp.Violation{Property: "C12", Class: cl, Identity: id, Detail: detail, Witness: rig.Excerpt(evs, around, 8)})
	}
	// locate the force stop and the following user start
	fs, fsRet, start := -1, -1, -1
	for i := range evs {
		e := &evs[i]
		if e.Kind == rig.KCtl && e.Op == "ForceStop" && fs < 0 {
			fs = i
			duringRecovery = e.Note == "Recovering"
		}
		if e.Kind == rig.KCtlRet && e.Op == "ForceStop" && fsRet < 0 {
			fsRet = i
			if e.Err != "" {
				// force stop refused (e.g. pipeline not running anymore): nothing to judge
				v.Stats["force_stops_refused"]++
				fs = -2
			}
		}
		if e.Kind == rig.KCtl && e.Op == "Start" && fs >= 0 && i > fs && start < 0 {
			start = i
		}
	}
	// (4) nothing acknowledged that was not handled — over the whole history
	vs1, j1 := pipe.OracleC01(ix)
	for _, x := range vs1 {
		x.Property = "C12"
		x.Identity = strings.Replace(x.Identity, "C01/", "C12/", 1)
		v.Violations = append(v.Violations, x)
	}
	v.Stats["source_acks_judged"] = j1.Obligations
	if fs < 0 {
		v.SigExtra = instant + "|not-forced"
		return v
	}
	v.Stats["force_stops_judged"]++
	if instant == "at-recovery-decision" {
		v.Stats["force_stops_issued_between_the_recovery_check_and_the_restart"]++
	}
	// (1) the run terminates: the WaitPipeline issued after the force stop returned
	waited := false
	for i := fs; i < len(evs); i++ {
		if evs[i].Kind == rig.KCtlRet && evs[i].Op == "WaitPipeline" {
			waited = true
			break
		}
	}
	if !waited {
		v.Inconclusive = "no WaitPipeline return observed after the force stop"
	}
	end := len(evs)
	if start >= 0 {
		end = start
	}
	// (2) marked failed-by-force-stop, (3) no automatic restart before the user start
	status, errTxt := "", ""
	sawRunning := false
	recoveringAt := -1
	for i := fs; i < end; i++ {
		e := &evs[i]
		if e.Kind == rig.KCommit && e.Snap != nil {
			st := e.Snap.Status[sc.Topo.Pipeline]
			if status != "" && status != "Running" && st == "Running" {
				if !sawRunning && status == "Recovering" {
					// the run the force stop was aimed at was already failing: its cleanup
					// had classified the failure as transient before the force stop was
					// marked (the Recovering write lands after the call was issued, the
					// status read at the call still said Running). From here on this is the
					// same situation as a force stop issued while the pipeline reports
					// Recovering.
					duringRecovery = true
				}
				sawRunning = true
			}
			status, errTxt = st, e.Snap.StatusErr[sc.Topo.Pipeline]
		}
		if e.Kind == rig.KCommit && e.Snap != nil && e.Snap.Status[sc.Topo.Pipeline] == "Recovering" {
			recoveringAt = i
		}
	}
	// A run that was already failing when the force stop arrived may still write
	// Recovering (its cleanup had classified the failure before the force stop was
	// marked); what the property forbids is that this recovery goes anywhere: the
	// pipeline must end failed-by-force-stop, not stay Recovering or come back.
	if recoveringAt >= 0 && waited0(evs, fs) && status != "Degraded" {
		add("recovering-after-force-stop", fmt.Sprintf("the pipeline entered Recovering after a force stop and is %q afterwards", status), recoveringAt)
	}
	if waited {
		v.Stats["terminations_observed"]++
		if status != "Degraded" {
			// a force stop that lands after the run already ended on its own keeps that status
			pre := ""
			for i := fs; i >= 0; i-- {
				if evs[i].Kind == rig.KCommit && evs[i].Snap != nil {
					pre = evs[i].Snap.Status[sc.Topo.Pipeline]
					break
				}
			}
			// ... which also covers a run whose sources were all torn down before the
			// force stop was issued: it had drained, only teardown and the status write were left
			open := map[string]bool{}
			for i := 0; i < fs && i < len(evs); i++ {
				// (a source is torn down only after everything it read was acked or
				// nacked end to end, in both engines: with every source session torn
				// down the drain is complete and only teardown calls remain)
				switch evs[i].Kind {
				case rig.KSrcOpen:
					if evs[i].Err == "" {
						open[fmt.Sprintf("%s#%d", evs[i].Comp, evs[i].Sess)] = true
					}
				case rig.KSrcTeardown:
					delete(open, fmt.Sprintf("%s#%d", evs[i].Comp, evs[i].Sess))
				}
			}
			if len(open) == 0 {
				v.Stats["force_stops_after_the_run_was_over"]++
			} else if pre == "Running" || pre == "Recovering" {
				add("not-marked-failed-by-force-stop", fmt.Sprintf("status after the force stop is %q (before: %q), expected Degraded", status, pre), fs)
			}
		} else if !strings.Contains(errTxt, "force stop") {
			// another fatal cause may legitimately have won the race; only flag an empty cause
			if errTxt == "" {
				add("degraded-without-cause", "pipeline degraded after force stop but no error text stored", fs)
			} else {
				v.Stats["degraded_with_other_cause_observed"]++
			}
		}
		if sawRunning && !(duringRecovery && status == "Degraded" && strings.Contains(errTxt, "force stop")) {
			// (a recovery restart that was already building the next run when the force
			// stop arrived publishes that run - the status says Running for a moment -
			// and force stops it at once: it ends failed-by-force-stop, which is what
			// the property asks for)
			add("automatic-restart-after-force-stop", "the pipeline went back to Running after a force stop without a user start", fs)
		} else if sawRunning {
			v.Stats["restarts_in_progress_force_stopped_on_publication"]++
		}
	}
	// (5)/(6) restartable, resumes from the durable position without a gap
	if start >= 0 {
		startErr := ""
		for i := start; i < len(evs); i++ {
			if evs[i].Kind == rig.KCtlRet && evs[i].Op == "Start" {
				startErr = evs[i].Err
				break
			}
		}
		v.Stats["restarts_judged"]++
		if startErr != "" && waited {
			add("not-restartable", fmt.Sprintf("Start after the force stop failed: %s", startErr), start)
		}
		for _, s := range sc.Topo.Sources {
			for i := start; i < len(evs); i++ {
				e := &evs[i]
				if e.Kind == rig.KSrcOpen && e.Comp == s.ID && e.Err == "" && len(e.Idx) == 1 {
					stored := -1
					for q := i; q >= 0; q-- {
						if evs[q].Kind == rig.KCommit && evs[q].Snap != nil {
							if p, ok := evs[q].Snap.Pos[s.ID]; ok {
								stored = p
							}
							break
						}
					}
					v.Stats["resume_positions_judged"]++
					if e.Idx[0] > stored && flushAbandoned(evs, s.ID, fs, i) {
						// The force-stopped run had acknowledged (every destination confirmed)
						// records whose position was handed to the write-behind persister but not
						// flushed yet; with its context cancelled the source's teardown does not
						// wait for that flush (the engine logs that it gave up), the write is still
						// pending in the persister and the connector's position in memory is ahead
						// of the store. The restart opens the source there. What the property
						// protects - no record skipped, none that was not handled - is judged by
						// the next clause for exactly this position; the source plugin itself was
						// never told more than the store holds (its acks stay deferred, C02).
						v.Stats["resumed_at_acknowledged_position_whose_flush_the_force_stop_abandoned"]++
					} else if e.Idx[0] != stored {
						add("resume-not-from-durable-position", fmt.Sprintf("%s reopened at %d, stored position is %d", s.ID, e.Idx[0], stored), i)
					}
					for k := 0; k <= e.Idx[0]; k++ {
						if ok, _, missing := ix.HandledBefore(s.ID, k, i); !ok {
							add("resume-past-unhandled-record", fmt.Sprintf("%s reopened at %d but record %d: %s", s.ID, e.Idx[0], k, missing), i)
							break
						}
					}
					break
				}
			}
		}
	}
	v.Nontrivial = waited
	inflight := 0
	for i := 0; i < fs; i++ {
		switch evs[i].Kind {
		case rig.KSrcEmit:
			inflight += len(evs[i].Idx)
		case rig.KSrcAck:
			inflight -= len(evs[i].Idx)
		}
	}
	cl := "none"
	if inflight > 0 && inflight < 5 {
		cl = "few"
	} else if inflight >= 5 {
		cl = "many"
	}
	v.SigExtra = fmt.Sprintf("%s|inflight-%s|%s", instant, cl, status)
	v.Sets = map[string][]string{"force_stop_instants": {sc.Engine + ":" + instant + ":" + cl}}
	return v
}

func init() {
	vp.Register(&pipe.PropDef{
		PID: "C12", PLevel: "exploration",
		RuleText: "scenario = both engines, up to 2x3 with processors (filters, splits, parallel workers), rejections and DLQ; a force stop is issued at one of six classes of instant: node start-up (0-13 events after Start), mid-flow at a PRNG-chosen event index, while a destination withholds its acks, while the DLQ withholds its acks, 0-3 ms after a graceful stop began (slow destination), idle; plus two recovery instants after a transient failure: during the back-off, and (harness action at the scheduling point lifecycle.recover.checked) between the recovery's look at the force-stop mark and the restart it begins. Then WaitPipeline, then a user Start. Judged: the run terminates (WaitPipeline returns; a case exceeding its watchdog twice = wedge; a reproduced process death = violation), the stored status becomes Degraded with a cause (force stop, unless another fatal cause won the race) and never Recovering/Running again before the user start, every source ack in the whole history is justified (C01 predicate), Start succeeds, every source is reopened at the position stored at that moment and no record at or before it lacks a terminal outcome. Non-trivial: a termination was observed; distinct = distinct (engine, topology, instant class, in-flight class, resulting status).",
		Assume:   []string{"blocked fake plugins release on context cancellation exactly like the built-in sandbox detaches, so an 'unresponsive plugin' does not manufacture a hang the transport could not have"},
		Quick:    300, Thorough: 3000, HangIsViol: true, DeathIsViol: true,
		PointBias: []string{"lifecycle.start.checked", "lifecycle.start.before-run", "lifecycle.stop.checked", "lifecycle.recover.backoff-elapsed", "lifecycle.run.ended", "pipeline.updatestatus.before-store", "funnel.worker.ack", "funnel.worker.nack"},
		Anchors:   []string{"pkg/lifecycle/stream/force_stop.go", "pkg/lifecycle/stream/source.go", "pkg/lifecycle/stream/destination.go", "pkg/lifecycle/stream/destination_acker.go", "pkg/lifecycle/stream/dlq.go", "pkg/lifecycle-poc/funnel/worker.go"},
		Gen:       gen, Judge: judge, Hooks: hooks,
	})
}

// waited0 reports whether a WaitPipeline call returned after log index fs.
func waited0(evs []rig.Ev, fs int) bool {
	for i := fs; i < len(evs); i++ {
		if evs[i].Kind == rig.KCtlRet && evs[i].Op == "WaitPipeline" {
			return true
		}
	}
	return false
}
