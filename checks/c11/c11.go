// Package c11: start, stop and wait always act on the one live run and report its true result.
package c11

import (
	"context"
	"fmt"
	"strings"
	"sync"
	"sync/atomic"
	"time"

	"github.com/anishathalye/porcupine"

	"verif/internal/pipe"
	"verif/internal/rig"
	"verif/internal/vp"
)

func gen(seed int64, tier string, idx int) *pipe.Scenario {
	g := pipe.NewGen(seed, idx)
	o := pipe.GenOpts{MaxSources: 2, MaxDests: 2, MaxProcs: 1, MinRecords: 400, MaxRecords: 900, AllowFilter: true, AllowWorkers: true, DLQWindows: []int{0}}
	sc := g.Scenario(o)
	for i := range sc.Topo.Sources {
		sc.Topo.Sources[i].Src.PaceUs = []int{100, 400, 1000}[g.R.Intn(3)]
	}
	family := []string{"healthy-control", "failure-interleaved", "gated-status"}[idx%3]
	sc.Name = family
	sc.RecMinDelayUs, sc.RecMaxDelayUs, sc.RecMaxRetries = 4000, 16000, 3
	ops := []string{"stopandwait", "stopwait", "start", "start", "stop", "waitbg", "stopandwait", "stopwait"}
	n := 5 + g.R.Intn(8)
	at := 10 + g.R.Intn(40)
	switch family {
	case "healthy-control":
		if g.R.Intn(2) == 0 {
			sc.Faults = append(sc.Faults, pipe.Fault{Kind: "set", KeyPrefix: "pipeline:instance:", Every: 1, Action: "delay-after", DelayUs: 300 + g.R.Intn(5000)})
		}
		if idx%12 == 6 {
			// a Start that fails while the pipeline is being built (the plugin of the
			// LAST processor cannot be created) must leave nothing reserved: the next
			// Start, with the plugin available again, has to work
			pa := rig.ProcSpec{ID: "pa"}
			sc.Topo.PipeProcs = append(sc.Topo.PipeProcs, pa)
			pb := rig.ProcSpec{ID: "pb"}
			last := len(sc.Topo.Dests) - 1
			sc.Topo.Dests[last].Procs = append(sc.Topo.Dests[last].Procs, pb)
			sc.Name = "start-build-failure"
			sc.Steps = append(sc.Steps, pipe.Step{AtEvent: at, Op: "stopwait"}, pipe.Step{AtEvent: 0, Op: "settlewait"},
				pipe.Step{AtEvent: 0, Op: "procnewerr:pb"}, pipe.Step{AtEvent: 0, Op: "start"},
				pipe.Step{AtEvent: 0, Op: "procnewok:pb"}, pipe.Step{AtEvent: 0, Op: "start"}, pipe.Step{AtEvent: 0, Op: "pause"})
			n = 2
		}
		if idx%24 == 12 {
			// a Start that fails while the plugins are being opened (the LAST source
			// cannot be opened once) must close what it had opened before: nothing stays
			// open, and the next Start, with the source available again, has to work
			if len(sc.Topo.Sources) < 2 {
				s := sc.Topo.Sources[0]
				s.ID = "s1"
				s.Procs = nil
				sc.Topo.Sources = append(sc.Topo.Sources, s)
				sc.Records = append(sc.Records, sc.Records[0])
			}
			last := len(sc.Topo.Sources) - 1
			sc.Topo.Sources[last].Src.CallErr = map[string]string{"Open#2": "vf: the source cannot be opened right now"}
			sc.RecMaxRetries = 0
			sc.Faults = nil
			sc.Name = "start-open-failure"
			sc.Steps = append(sc.Steps, pipe.Step{AtEvent: at, Op: "stopwait"}, pipe.Step{AtEvent: 0, Op: "settlewait"},
				pipe.Step{AtEvent: 0, Op: "start"}, pipe.Step{AtEvent: 0, Op: "wait"}, pipe.Step{AtEvent: 0, Op: "settlewait"},
				pipe.Step{AtEvent: 0, Op: "start"}, pipe.Step{AtEvent: 0, Op: "pause"})
			n = 2
		}
		if idx%6 == 3 {
			// every run ends with a plugin Teardown that reports an error (a processor's
			// and a destination's): whatever the engine makes of the error, the
			// resources of the ended run must be released, i.e. the next Start works
			p := rig.ProcSpec{ID: "pt"}
			p.Script.TeardownErr = "vf teardown error"
			sc.Topo.PipeProcs = append(sc.Topo.PipeProcs, p)
			if g.R.Intn(2) == 0 {
				sc.Topo.Dests[0].Dst.CallErr = map[string]string{"Teardown#*": "vf teardown error"}
			}
			sc.RecMaxRetries = 0
			sc.Name = "teardown-error"
			sc.Steps = append(sc.Steps, pipe.Step{AtEvent: at, Op: "stopwait"}, pipe.Step{AtEvent: 0, Op: "settlewait"}, pipe.Step{AtEvent: 0, Op: "start"},
				pipe.Step{AtEvent: 0, Op: "pause"}, pipe.Step{AtEvent: 0, Op: "forcestop"}, pipe.Step{AtEvent: 0, Op: "wait"}, pipe.Step{AtEvent: 0, Op: "settlewait"}, pipe.Step{AtEvent: 0, Op: "start"}, pipe.Step{AtEvent: 0, Op: "pause"})
			n = 2
		}
	case "failure-interleaved":
		d := &sc.Topo.Dests[0]
		switch g.R.Intn(3) {
		case 0: // transient failures in the first sessions
			d.Dst.Shape = map[int]string{3 + g.R.Intn(30): "streamerr"}
			d.Dst.ShapeSess = 0
			sc.RecMaxRetries = -1
		case 1: // fatal: DLQ threshold
			sc.Topo.DLQWindow, sc.Topo.DLQThresh = 3, 1
			sc.Topo.Dests = sc.Topo.Dests[:1]
			sc.Topo.Dests[0].Dst.NackIdx = map[int]bool{}
			from := 5 + g.R.Intn(40)
			for k := 0; k < 3; k++ {
				sc.Topo.Dests[0].Dst.NackIdx[from+k] = true
			}
		case 2: // one transient failure
			d.Dst.Shape = map[int]string{3 + g.R.Intn(60): "streamerr"}
			d.Dst.ShapeSess = 1
		}
		ops = append(ops, "forcestop", "settlewait")
		if idx%24 == 13 {
			// a user Start that is inside the engine (past its own status check, its run
			// not yet announced) at the very moment the recovery's back-off has elapsed
			// and the recovery decides whether it still has to restart: issued by harness
			// actions at the two scheduling points (see hooks)
			d.Dst.Shape = map[int]string{3 + g.R.Intn(30): "streamerr"}
			d.Dst.ShapeSess = 1
			sc.Topo.DLQWindow, sc.Topo.DLQThresh = 0, 0
			d.Dst.NackIdx = nil
			sc.RecMinDelayUs, sc.RecMaxDelayUs, sc.RecMaxRetries = 8000, 8000, 3
			sc.Name = "start-at-backoff-expiry"
			sc.Steps = append(sc.Steps, pipe.Step{AtEvent: -1, Op: "pause"})
			n = 0
		}
	case "gated-status":
		// a slow store acknowledgement of every status write keeps the engine inside
		// UpdateStatus while the next control call proceeds
		sc.Faults = append(sc.Faults, pipe.Fault{Kind: "set", KeyPrefix: "pipeline:instance:", Every: 1, Action: "delay-after", DelayUs: 2000 + g.R.Intn(20000)})
		// stop -> as soon as a stopped status is visible in the store: start -> then stop the new run
		sc.Steps = append(sc.Steps, pipe.Step{AtEvent: at, Op: "stop"}, pipe.Step{AtEvent: 0, Op: "await-stopped-status"}, pipe.Step{AtEvent: 0, Op: "start"},
			pipe.Step{AtEvent: 0, Op: "pause"}, pipe.Step{AtEvent: 0, Op: "stopandwait"}, pipe.Step{AtEvent: 0, Op: "start"}, pipe.Step{AtEvent: 0, Op: "pause"})
		n = g.R.Intn(4)
	}
	for k := 0; k < n; k++ {
		at += 5 + g.R.Intn(60)
		sc.Steps = append(sc.Steps, pipe.Step{AtEvent: 0, Op: ops[g.R.Intn(len(ops))], AfterPrevUs: []int{0, 0, 500, 3000, 15000}[g.R.Intn(5)]})
	}
	return sc
}

func hooks(sc *pipe.Scenario) *pipe.Hooks {
	h := opHooks(sc)
	if strings.Contains(sc.Name, "start-at-backoff-expiry") {
		h.AfterBuild = func(r *rig.Rig, sc *pipe.Scenario) {
			if r.Points == nil {
				return
			}
			var once sync.Once
			var issued, signalled atomic.Bool
			inside := make(chan struct{})
			r.Points.On("lifecycle.recover.backoff-elapsed", func() {
				once.Do(func() {
					// the harness as a concurrent client: a user Start, issued now
					issued.Store(true)
					go func() { _ = r.Start(context.Background(), sc.Topo.Pipeline) }()
					// pacing: hold the recovery here until that Start is inside the engine
					select {
					case <-inside:
					case <-time.After(300 * time.Millisecond):
					}
				})
			})
			r.Points.On("lifecycle.start.checked", func() {
				// the first Start to get here after the user Start was issued is that
				// Start (the recovery is held at its own point)
				if issued.Load() && !signalled.Swap(true) {
					close(inside)
					time.Sleep(6 * time.Millisecond)
				}
			})
		}
	}
	return h
}

func opHooks(sc *pipe.Scenario) *pipe.Hooks {
	return &pipe.Hooks{Op: func(r *rig.Rig, sc *pipe.Scenario, op string) bool {
		switch op {
		case "await-stopped-status":
			r.Log.WaitFor(func(evs []rig.Ev) bool {
				for i := len(evs) - 1; i >= 0; i-- {
					if evs[i].Kind == rig.KCommit && evs[i].Snap != nil {
						st := evs[i].Snap.Status[sc.Topo.Pipeline]
						return st == "UserStopped" || st == "Degraded" || st == "SystemStopped"
					}
				}
				return false
			}, 10*time.Second)
			return true
		case "pause":
			time.Sleep(30 * time.Millisecond)
			return true
		}
		if id, ok := strings.CutPrefix(op, "procnewerr:"); ok {
			r.Procs.SetNewErr(id, "vf processor plugin unavailable")
			return true
		}
		if id, ok := strings.CutPrefix(op, "procnewok:"); ok {
			r.Procs.SetNewErr(id, "")
			return true
		}
		switch op {
		case "settlewait":
			r.Log.Quiet(20*time.Millisecond, 3*time.Second)
			return true
		}
		return false
	}}
}

type call struct {
	op       string
	ctl, ret int
	err      string
}

func judge(out *pipe.Outcome, ix *pipe.Index) pipe.Verdict {
	var v pipe.Verdict
	v.Stats = map[string]int64{}
	sc := out.Sc
	evs := out.Evs
	family := sc.Name
	if i := strings.LastIndex(family, "|cause="); i >= 0 {
		family = family[i+7:]
	}
	pl := sc.Topo.Pipeline
	add := func(cl, detail string, around ...int) {
		v.Violations = append(v.Violations, vp.Violation{Property: "C11", Class: cl,
			Identity: fmt.Sprintf("C11/%s/%s", cl, sc.Engine), Detail: detail, Witness: rig.Excerpt(evs, around, 10)})
	}
	// ---- plugin sessions: at most one run at a time
	type sess struct {
		open, tear int
		used       bool
		id         string
	}
	sessions := map[string][]*sess{} // connector -> sessions in order
	tornEarly := map[string]bool{}
	for i := range evs {
		e := &evs[i]
		switch e.Kind {
		case rig.KSrcOpen, rig.KDstOpen:
			if e.Err != "" {
				continue
			}
			if tornEarly[fmt.Sprintf("%s#%d", e.Comp, e.Sess)] {
				// the built-in sandbox detached this Open when its context was cancelled and
				// the host already tore the plugin down: the late Open belongs to no run
				continue
			}
			ss := sessions[e.Comp]
			sessions[e.Comp] = append(ss, &sess{open: i, tear: -1, id: fmt.Sprintf("%s#%d", e.Comp, e.Sess)})
		case rig.KSrcTeardown, rig.KDstTeardown:
			ss := sessions[e.Comp]
			if e.Note == "never-opened" {
				tornEarly[fmt.Sprintf("%s#%d", e.Comp, e.Sess)] = true
				continue
			}
			for _, x := range ss {
				if x.id == fmt.Sprintf("%s#%d", e.Comp, e.Sess) && x.tear < 0 {
					x.tear = i
				}
			}
		}
	}
	src0 := sc.Topo.Sources[0].ID
	// The built-in sandbox detaches unary plugin calls whose context was cancelled: an
	// Open (and its Teardown) of a start-up that the engine already abandoned can run
	// arbitrarily late. Only a session the engine actually USED (its Run stream carried
	// records) is a run of the pipeline.
	used := map[string]bool{}
	for i := range evs {
		if evs[i].Kind == rig.KSrcEmit || evs[i].Kind == rig.KDstWrite {
			used[fmt.Sprintf("%s#%d", evs[i].Comp, evs[i].Sess)] = true
		}
	}
	for _, ss := range sessions {
		for _, x := range ss {
			x.used = used[x.id]
		}
	}
	liveAt := func(i int) *sess { // the (used) source session live at log index i
		for _, s := range sessions[src0] {
			if s.used && s.open < i && (s.tear < 0 || s.tear > i) {
				return s
			}
		}
		return nil
	}
	// at most one run at a time: two USED sessions of one connector never overlap
	for comp, ss := range sessions {
		var prev *sess
		for _, s := range ss {
			if !s.used {
				continue
			}
			if prev != nil && (prev.tear < 0 || prev.tear > s.open) {
				if detachedTeardown(evs, comp, prev.id, prev.open, s.open) {
					// the previous run was force stopped (or failed) before this one was
					// opened: the engine calls the plugin's Teardown with a cancelled context,
					// the built-in adapter detaches from the call and the plugin logs its
					// Teardown whenever it gets there. Nothing was read, written or
					// acknowledged on the old session after the new one was opened: the runs
					// did not overlap.
					v.Stats["late_detached_teardowns_observed"]++
					prev = s
					continue
				}
				add("overlapping-runs", fmt.Sprintf("connector %s was opened again at event %d while its previous plugin session (opened at %d, in use) was still live: two runs of the pipeline overlap", comp, s.open, prev.open), prev.open, s.open)
			}
			prev = s
		}
	}
	statusAt := func(i int) string {
		for q := i; q >= 0; q-- {
			if evs[q].Kind == rig.KCommit && evs[q].Snap != nil {
				if st, ok := evs[q].Snap.Status[pl]; ok {
					return st
				}
			}
		}
		return ""
	}
	statusStable := func(a, b int, want string) bool {
		for q := a; q <= b && q < len(evs); q++ {
			if evs[q].Kind == rig.KCommit && evs[q].Snap != nil {
				if st, ok := evs[q].Snap.Status[pl]; ok && st != want {
					return false
				}
			}
		}
		return true
	}
	// ---- control calls
	var calls []call
	open := map[int]int{}
	for i := range evs {
		e := &evs[i]
		if e.Kind == rig.KCtl {
			open[e.Call] = len(calls)
			calls = append(calls, call{op: e.Op, ctl: i, ret: -1})
		}
		if e.Kind == rig.KCtlRet {
			if k, ok := open[e.Call]; ok {
				calls[k].ret = i
				calls[k].err = e.Err
			}
		}
	}
	for _, c := range calls {
		v.Stats["control_calls_judged"]++
		if c.ret < 0 {
			continue // still open at the end of the history: never logged as failed
		}
		switch c.op {
		case "Stop", "StopAndWait", "ForceStop":
			live := liveAt(c.ctl)
			running := statusAt(c.ctl) == "Running" && statusStable(c.ctl, c.ret, "Running") || c.err == "" && statusAt(c.ctl) == "Running"
			// (a) reported running with a live run throughout the call: the stop must act on that run
			// "reported as running" = the status the API reports (in-memory) at the call AND at the return
			if live != nil && evs[c.ctl].Note == "Running" && evs[c.ret].Note == "Running" && statusAt(c.ctl) == "Running" && statusStable(c.ctl, c.ret, "Running") && (live.tear < 0 || live.tear > c.ret) {
				v.Stats["stops_on_live_running_pipeline"]++
				// the run must demonstrably keep working after the refused call (a run that is
				// ending by itself at that moment may refuse the stop)
				keptWorking := false
				for q := c.ret; q < len(evs) && (live.tear < 0 || q < live.tear); q++ {
					if evs[q].Kind == rig.KDstWrite || evs[q].Kind == rig.KSrcAck {
						keptWorking = true
						break
					}
				}
				// a pipeline with several sources is still starting up while one of its
				// sources has not been opened yet; the engine refuses a stop then
				allOpen := true
				for _, sp := range sc.Topo.Sources {
					has := false
					for _, x := range sessions[sp.ID] {
						if x.open < c.ctl && (x.tear < 0 || x.tear > c.ctl) {
							has = true
						}
					}
					if !has {
						allOpen = false
					}
				}
				if !allOpen {
					v.Stats["stops_during_start_up_not_judged"]++
				}
				// ... and a run that is failing at that very moment (its sources may have
				// ended already while late acks of the other source are still delivered)
				failing := false
				upTo := live.tear
				if upTo < 0 || upTo >= len(evs) {
					upTo = len(evs) - 1
				}
				for q := c.ctl; q <= upTo; q++ {
					if evs[q].Kind == rig.KFailure || evs[q].Kind == rig.KNote && strings.Contains(evs[q].Note, "run fails") {
						failing = true
					}
				}
				if failing {
					v.Stats["stops_refused_by_a_failing_run_not_judged"]++
				}
				if c.err != "" && keptWorking && allOpen && !failing && !strings.Contains(c.err, "already triggered") && !strings.Contains(c.err, "stop already") {
					add("stop-refused-on-live-run", fmt.Sprintf("%s at event %d: the pipeline is reported Running and its run (source session opened at %d) is live, yet the call returned %q", c.op, c.ctl, live.open, c.err), live.open, c.ctl, c.ret)
				}
			}
			_ = running
			// (b) an accepted graceful stop/stop-and-wait must reach the live run: its source is stopped/torn down
			if c.err == "" && live != nil && c.op != "ForceStop" {
				reached := false
				for q := c.ctl; q < len(evs); q++ {
					e := &evs[q]
					if (e.Kind == rig.KSrcStop || e.Kind == rig.KSrcTeardown) && e.Comp == src0 && q >= live.open && (live.tear < 0 || q <= live.tear) {
						reached = true
						break
					}
				}
				if !reached && out.Settled {
					add("accepted-stop-did-not-reach-live-run", fmt.Sprintf("%s returned nil at event %d but the live run's source (opened at %d) never saw a stop or teardown", c.op, c.ret, live.open), live.open, c.ret)
				}
			}
			// (c) stop-and-wait nil => that run's plugins are torn down at return
			if c.op == "StopAndWait" && c.err == "" && live != nil {
				if live.tear < 0 || live.tear > c.ret {
					add("stopandwait-returned-before-run-ended", fmt.Sprintf("StopAndWait returned nil at event %d while the run's source session (opened at %d) was not torn down", c.ret, live.open), live.open, c.ret)
				}
			}
		case "WaitPipeline":
			live := liveAt(c.ctl)
			if live != nil && statusAt(c.ctl) == "Running" && evs[c.ctl].Note == "Running" {
				v.Stats["waits_on_live_run"]++
				// A run that ends by force stop or failure (cancelled context) may leave
				// its plugin Teardown detached, i.e. the call reaches the plugin late or
				// never; "the run had not ended" therefore needs evidence that the run
				// kept WORKING after WaitPipeline returned: an ack delivered to, or a
				// record of it written for, that same source session.
				worksAfter := false
				for q := c.ret; q < len(evs); q++ {
					e := &evs[q]
					if e.Kind == rig.KSrcOpen && e.Comp == src0 && q > live.open {
						break // a later session of the source: a new run
					}
					if e.Kind == rig.KSrcAck && e.Comp == src0 && fmt.Sprintf("%s#%d", e.Comp, e.Sess) == live.id {
						worksAfter = true
						break
					}
				}
				if (live.tear < 0 || live.tear > c.ret) && !worksAfter {
					v.Stats["waits_returned_with_detached_teardown"]++
				}
				if (live.tear < 0 || live.tear > c.ret) && worksAfter {
					add("wait-returned-before-run-ended", fmt.Sprintf("WaitPipeline called at event %d on a Running pipeline returned at event %d while the live run's source session (opened at %d) was not torn down", c.ctl, c.ret, live.open), live.open, c.ctl, c.ret)
				} else if live.tear >= 0 && live.tear <= c.ret {
					// the terminal result of THAT run: the first status stored after its teardown
					res := ""
					for q := live.tear; q < len(evs); q++ {
						if evs[q].Kind == rig.KCommit && evs[q].Snap != nil {
							if st, ok := evs[q].Snap.Status[pl]; ok && st != "Running" {
								res = st
								break
							}
						}
					}
					// the status write may also precede the source teardown slightly (other nodes end first)
					if res == "" {
						res = statusAt(c.ret)
					}
					// a failure that coincides with a stop request may legitimately be reported either way
					failedDuring := false
					upTo := live.tear
					if c.ret > upTo {
						upTo = c.ret // a destination may fail after the source was already torn down
					}
					for q := live.open; q <= upTo && q < len(evs); q++ {
						if evs[q].Kind == rig.KNote && (strings.Contains(evs[q].Note, "run fails")) || evs[q].Kind == rig.KFailure {
							failedDuring = true
						}
					}
					// ... and so may an error a plugin returned while the run was ending (a
					// failing Teardown): the run stopped as requested AND ended with an error
					for q := live.open; q <= c.ret && q < len(evs); q++ {
						switch evs[q].Kind {
						case rig.KProcTeardown, rig.KDstTeardown, rig.KSrcTeardown, rig.KPluginCall, rig.KSrcStop, rig.KDstStop:
							if evs[q].Err != "" {
								failedDuring = true
							}
						}
					}
					switch res {
					case "UserStopped", "SystemStopped":
						if c.err != "" && !failedDuring {
							add("wait-result-not-of-that-run", fmt.Sprintf("the run ended %s but WaitPipeline returned error %q", res, c.err), live.tear, c.ret)
						}
					case "Degraded":
						if c.err == "" {
							add("wait-result-not-of-that-run", "the run ended Degraded but WaitPipeline returned nil", live.tear, c.ret)
						}
					}
				}
			}
		case "Start":
			if c.err != "" && c.ret > c.ctl {
				// a Start that failed closes what it opened: every plugin session opened
				// successfully inside the call is torn down by the end of the history
				for comp, ss := range sessions {
					for _, x := range ss {
						if x.open > c.ctl && x.open < c.ret {
							v.Stats["sessions_opened_by_a_failed_start_judged"]++
							if x.tear < 0 && out.Inconclusive == "" {
								add("failed-start-left-plugin-open", fmt.Sprintf("Start at event %d failed (%s) but the plugin session of %s it had opened (event %d) was never torn down", c.ctl, short(c.err), comp, x.open), c.ctl, x.open)
							}
						}
					}
				}
			}
			if c.err != "" && (strings.Contains(c.err, "another instance of the connector is already running") || strings.Contains(c.err, "connector is running") || strings.Contains(c.err, "processor is running") || strings.Contains(c.err, "already running")) {
				// only a violation when no run is live and the pipeline is not reported running
				if liveAt(c.ctl) == nil && statusAt(c.ctl) != "Running" && statusAt(c.ctl) != "Recovering" {
					add("not-released-after-run-ended", fmt.Sprintf("Start at event %d failed with %q although the previous run had ended (status %s, no live session)", c.ctl, c.err, statusAt(c.ctl)), c.ctl)
				}
			}
		}
	}
	// ---- final agreement: stored status vs how the last run ended
	if out.Inconclusive == "" {
		last := liveAt(len(evs))
		final := statusAt(len(evs) - 1)
		v.Stats["final_status_agreements_judged"]++
		if last != nil && final != "Running" && final != "Recovering" {
			add("status-disagrees-with-live-run", fmt.Sprintf("at the end a run is live (source session opened at %d) but the stored status is %s", last.open, final), last.open)
		}
		anyOpen := false // a session that was opened and not torn down, whether or not it carried records yet
		for _, s := range sessions[src0] {
			if s.tear < 0 {
				anyOpen = true
			}
		}
		if last == nil && !anyOpen && final == "Running" {
			add("status-running-without-live-run", "at the end the stored status is Running but no run is live")
		}
	}
	// ---- linearizability of the healthy control history against a 2-state lifecycle register
	if family == "healthy-control" {
		var ops []porcupine.Operation
		for _, c := range calls {
			if c.ret < 0 {
				continue
			}
			switch c.op {
			case "Start", "StopAndWait", "Stop", "ForceStop":
				ops = append(ops, porcupine.Operation{ClientId: 0, Input: c.op, Call: evs[c.ctl].T, Output: errClass(c.err), Return: evs[c.ret].T})
			}
		}
		// states: 0 stopped, 1 running, 2 stopping (an accepted asynchronous Stop is in
		// progress: the run may end at any moment)
		model := porcupine.NondeterministicModel{
			Init: func() []interface{} { return []interface{}{0} },
			Step: func(st, in, outp interface{}) []interface{} {
				s := st.(int)
				o := outp.(string)
				switch in.(string) {
				case "Start":
					switch o {
					case "ok":
						if s == 0 || s == 2 {
							return []interface{}{1}
						}
					case "running":
						if s == 1 || s == 2 {
							return []interface{}{s}
						}
					default:
						return []interface{}{s}
					}
				case "StopAndWait":
					switch o {
					case "ok":
						if s == 1 || s == 2 {
							return []interface{}{0}
						}
					case "notrunning":
						if s == 0 || s == 2 {
							return []interface{}{0}
						}
					default:
						return []interface{}{s, 0}
					}
				case "Stop", "ForceStop":
					switch o {
					case "ok":
						if s == 1 || s == 2 {
							return []interface{}{2}
						}
					case "notrunning":
						if s == 0 || s == 2 {
							return []interface{}{0}
						}
					default:
						return []interface{}{s, 2}
					}
				}
				return nil
			},
			Equal: func(a, b interface{}) bool { return a.(int) == b.(int) },
		}
		if len(ops) >= 2 {
			res := porcupine.CheckOperationsTimeout(model.ToModel(), ops, 20*time.Second)
			v.Stats["porcupine_histories_checked"]++
			v.Stats["porcupine_operations"] += int64(len(ops))
			switch res {
			case porcupine.Illegal:
				var hs []string
				for _, o := range ops {
					hs = append(hs, fmt.Sprintf("%s->%s", o.Input, o.Output))
				}
				add("control-history-not-linearizable", fmt.Sprintf("Start/StopAndWait results are not explained by any sequential lifecycle (stopped/running): %v", hs))
			case porcupine.Unknown:
				v.Inconclusive = "porcupine timed out"
			}
		}
	}
	v.Nontrivial = v.Stats["control_calls_judged"] >= 3
	kinds := map[string]bool{}
	for _, c := range calls {
		kinds[c.op+":"+errClass(c.err)] = true
	}
	var ks []string
	for k := range kinds {
		ks = append(ks, k)
	}
	v.SigExtra = fmt.Sprintf("%s|%d|%s", family, len(kinds), out.FinalStatus)
	v.Sets = map[string][]string{"call_outcomes": ks}
	return v
}

func errClass(e string) string {
	switch {
	case e == "":
		return "ok"
	case strings.Contains(e, "pipeline not running"):
		return "notrunning"
	case strings.Contains(e, "pipeline is running"):
		return "running"
	default:
		return "other"
	}
}

func init() {
	vp.Register(&pipe.PropDef{
		PID: "C11", PLevel: "exploration",
		RuleText: "one sequential client per pipeline issues 5-14 control calls (Start, Stop, Stop+Wait, StopAndWait, force stop, background waits that overlap later calls) at PRNG-chosen points of a long-running flow (both engines, parallel workers included), in three families: healthy control histories (optionally with slow store acknowledgements of every status write), histories interleaved with run failures (repeating transient destination failures with unlimited recovery, a fatal DLQ threshold, one transient failure) and gated-status races (every status write acknowledged 2-22 ms late; Stop, then Start as soon as a stopped status is visible in the store, then StopAndWait on the new run). Judged from plugin session intervals, stored status snapshots and call/return events: plugin sessions of one connector never overlap; a stop on a pipeline that is Running with a live run throughout the call is not refused and reaches that run; StopAndWait/WaitPipeline never return before the run that was live at the call is torn down and report that run's result; Start after an ended run is not refused with 'already running'; at the end the stored status agrees with whether a run is live; healthy Start/StopAndWait results are linearizable against a two-state lifecycle register (porcupine); a case exceeding its watchdog twice is a wedge, a reproduced process death a violation. Non-trivial: >=3 calls judged; distinct = distinct (engine, topology, family, number of distinct call outcomes, final status).",
		Assume:   []string{"calls are issued one at a time per pipeline (waits may overlap), as the property's quantifier says", "a call still open at the end of the history is never logged as failed"},
		Quick:    300, Thorough: 3000, HangIsViol: true, DeathIsViol: true,
		PointBias: []string{"lifecycle.start.checked", "lifecycle.start.before-run", "lifecycle.stop.checked", "lifecycle.recover.backoff-elapsed", "lifecycle.run.ended", "pipeline.updatestatus.before-store"},
		Anchors:   []string{"pkg/lifecycle/service.go", "pkg/lifecycle-poc/service.go", "pkg/pipeline/service.go", "pkg/pipeline/instance.go", "pkg/connector/instance.go", "pkg/processor/service.go", "pkg/lifecycle/stream/base.go", "pkg/lifecycle/stream/parallel.go"},
		Gen:       gen, Judge: judge, Hooks: hooks,
	})
}

// detachedTeardown: between open and reopen of a connector the run was force
// stopped or failed, and the old plugin session (id = comp#sess) shows no record
// activity after the reopen.
func detachedTeardown(evs []rig.Ev, comp, id string, open, reopen int) bool {
	cancelled := false
	for i := open; i < reopen && i < len(evs); i++ {
		if (evs[i].Kind == rig.KCtl && evs[i].Op == "ForceStop") || evs[i].Kind == rig.KFailure {
			cancelled = true
			break
		}
	}
	if !cancelled {
		return false
	}
	for i := reopen; i < len(evs); i++ {
		e := &evs[i]
		if e.Comp != comp || fmt.Sprintf("%s#%d", e.Comp, e.Sess) != id {
			continue
		}
		switch e.Kind {
		case rig.KSrcEmit, rig.KSrcAck, rig.KDstWrite, rig.KDstAck:
			return false
		}
	}
	return true
}

func short(s string) string {
	if len(s) > 120 {
		return s[:120] + "..."
	}
	return s
}
