// Package c08: filter, split, error and short processor results keep record accounting exact.
package c08

import (
	"fmt"
	"strings"

	"verif/internal/pipe"
	"verif/internal/rig"
	"verif/internal/vp"
)

var kinds = []string{rig.PKPass, rig.PKModify, rig.PKFilter, rig.PKError, rig.PKMulti}

// enumerated builds the idx-th small shape: one source emitting one batch of
// n<=4 records through a chain of 1-2 processors whose per-record result kinds
// are enumerated exhaustively (5^n vectors for stage 1; stage 2 drawn).
func enumerated(g *pipe.Gen, k int, engine string) *pipe.Scenario {
	sc := &pipe.Scenario{Engine: engine}
	sc.Topo.Pipeline = "pl"
	// decode k into (n, vector)
	n := 1
	space := 5
	for k >= space && n < 4 {
		k -= space
		n++
		space *= 5
	}
	k %= space
	nk := len(kinds)
	if engine == "v1" {
		nk = 4 // no split on the default engine
	}
	src := rig.ConnSpec{ID: "s0"}
	src.Src.Batches = []int{n}
	p1 := rig.ProcSpec{ID: "p1"}
	p1.Script.Kind = map[string]string{}
	p1.Script.MultiN = 2 + g.R.Intn(2)
	x := k
	for i := 0; i < n; i++ {
		p1.Script.Kind[rig.Lin{Src: "s0", Idx: i}.String()] = kinds[(x%5)%nk]
		x /= 5
	}
	attach := g.R.Intn(3)
	p2 := rig.ProcSpec{ID: "p2"}
	p2.Script.Seed = g.R.Uint64()
	p2.Script.FilterPm, p2.Script.ErrorPm = 200, 150
	if engine == "v2" {
		p2.Script.MultiPm, p2.Script.MultiN, p2.Script.CutPm = 200, 2, 150
	}
	two := g.R.Intn(2) == 0
	nd := 1 + g.R.Intn(2)
	for i := 0; i < nd; i++ {
		d := rig.ConnSpec{ID: fmt.Sprintf("d%d", i)}
		d.Dst.Seed = g.R.Uint64()
		if engine == "v2" && g.R.Intn(3) == 0 {
			d.Dst.NackPermille = 150
		}
		sc.Topo.Dests = append(sc.Topo.Dests, d)
	}
	switch attach {
	case 0:
		src.Procs = append(src.Procs, p1)
		if two {
			sc.Topo.PipeProcs = append(sc.Topo.PipeProcs, p2)
		}
	case 1:
		sc.Topo.PipeProcs = append(sc.Topo.PipeProcs, p1)
		if two {
			sc.Topo.Dests[0].Procs = append(sc.Topo.Dests[0].Procs, p2)
		}
	case 2:
		sc.Topo.Dests[0].Procs = append(sc.Topo.Dests[0].Procs, p1)
		if two {
			src.Procs = append(src.Procs, p2)
		}
	}
	sc.Topo.Sources = []rig.ConnSpec{src}
	sc.Records = []int{n}
	sc.Topo.DLQ.Seed = 1
	sc.PersistDelayUs, sc.PersistBundle = 500, 5
	sc.RecMinDelayUs, sc.RecMaxDelayUs, sc.RecMaxRetries, sc.RecWindowUs = 3000, 12000, 1, 300000
	return sc
}

// gen: in one case of four (idx%8 == 1 on arch-v2, idx%8 == 7 on the default engine)
// every "error" result of every processor is an ErrorRecord with a NIL Error: still a
// rejection, so the reference outcome is the same.
func gen(seed int64, tier string, idx int) *pipe.Scenario {
	sc := gen0(seed, tier, idx)
	if idx%8 == 1 || idx%8 == 7 {
		set := func(ps []rig.ProcSpec) {
			for i := range ps {
				ps[i].Script.NilErrPm = 1000
			}
		}
		for i := range sc.Topo.Sources {
			set(sc.Topo.Sources[i].Procs)
		}
		set(sc.Topo.PipeProcs)
		for i := range sc.Topo.Dests {
			set(sc.Topo.Dests[i].Procs)
		}
		sc.Name += "+nil-errors"
	}
	return sc
}

func gen0(seed int64, tier string, idx int) *pipe.Scenario {
	g := pipe.NewGen(seed, idx)
	engine := "v2"
	if idx%4 == 3 {
		engine = "v1"
	}
	enumCount := 80
	if tier == "thorough" {
		enumCount = 780 * 2
	}
	if idx < enumCount {
		k := idx
		if tier != "thorough" {
			k = idx * 9 // strided walk through the 780 vectors
		}
		return enumerated(g, k%780, engine)
	}
	o := pipe.GenOpts{
		Engine: engine, MaxSources: 2, MaxDests: 3, MaxProcs: 3, MinRecords: 10, MaxRecords: 64,
		AllowMulti: true, AllowCut: true, AllowFilter: true, AllowProcErr: true, AllowCond: true,
		DLQWindows: []int{0},
	}
	if engine == "v2" {
		o.AllowDstNack = true // per-piece destination outcomes
	}
	sc := g.Scenario(o)
	for i := range sc.Topo.Sources {
		sc.Topo.Sources[i].Src.Batches = []int{[]int{1, 2, 4, 8, 16, 32, 64}[g.R.Intn(7)]}
	}
	sc.RecMaxRetries = 1
	return sc
}

func judge(out *pipe.Outcome, ix *pipe.Index) pipe.Verdict {
	var v pipe.Verdict
	vs, j := pipe.OracleC08(ix, out)
	v.Violations = vs
	v.AddJudged("", j)
	// result kinds actually exercised (from the processor call log)
	ks := map[string]bool{}
	for i := range out.Evs {
		if out.Evs[i].Kind == rig.KProcCall {
			if n := strings.Count(out.Evs[i].Note, "NILERR:"); n > 0 {
				v.Stats["error_results_with_nil_error"] += int64(n)
			}
			for _, k := range out.Evs[i].Out {
				ks[k] = true
			}
		}
	}
	var kl []string
	for _, k := range []string{"pass", "modify", "filter", "error", "multi", "CUT"} {
		if ks[k] {
			kl = append(kl, k)
		}
	}
	v.Nontrivial = j.Obligations > 0 && len(kl) >= 1
	v.SigExtra = fmt.Sprintf("%v|d%v-f%v-r%v", kl, j.ByHow["records_delivered"] > 0, j.ByHow["records_filtered"] > 0, j.ByHow["records_rejected"] > 0)
	v.Sets = map[string][]string{"result_kind_sets": {fmt.Sprint(kl)}}
	return v
}

func init() {
	vp.Register(&pipe.PropDef{
		PID: "C08", PLevel: "exploration",
		RuleText: "two families: (a) ENUMERATED small shapes: one batch of n<=4 records through a processor whose per-record result kind vector (pass, modify, filter, error, split) is enumerated (all 780 vectors in thorough on both engines, a strided 80 in quick), attached to the source, the pipeline or a destination, optionally followed by a second scripted processor (incl. cut-short) and per-piece destination rejections; (b) RANDOM larger shapes: batch sizes 1-64, up to 3 chained scripted processors per attachment point with conditions, up to 2x3 topologies. 3 of 4 cases run on arch-v2, 1 of 4 on the default engine (no split/cut-short there). Every acknowledged source record is one obligation: its observed outcome (pieces delivered per destination / nothing written / exactly the original dead-lettered) must equal the reference outcome; acked positions must be source positions; a healthy finished run must leave no record without outcome. Non-trivial: >=1 record judged with a processor result kind observed; distinct = distinct (engine, topology, set of result kinds exercised, outcome classes present).",
		Assume:   []string{"reference model of plugin result semantics (internal/pipe/model.go)", "DLQ window unlimited in these scenarios so that every rejected record is dead-lettered"},
		Quick:    280, Thorough: 2800,
		PointBias: []string{"funnel.worker.ack", "funnel.worker.nack", "funnel.multiack.ack", "funnel.multiack.nack"},
		Anchors:   []string{"pkg/lifecycle-poc/funnel/batch.go", "pkg/lifecycle-poc/funnel/processor.go", "pkg/lifecycle-poc/funnel/worker.go", "pkg/lifecycle-poc/funnel/run_ledger.go", "pkg/lifecycle-poc/funnel/destination.go", "pkg/lifecycle/stream/processor.go", "pkg/processor/runnable_processor.go"},
		Gen:       gen, Judge: judge,
	})
}
