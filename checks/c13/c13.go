// Package c13: live processor reconfiguration never drops, duplicates or reorders records
// (default engine only; arch-v2 has no in-place reconfigure path).
package c13

import (
	"context"
	"fmt"
	"strconv"
	"strings"
	"sync"
	"time"

	"github.com/conduitio/conduit/pkg/processor"

	"verif/internal/pipe"
	"verif/internal/rig"
	"verif/internal/vp"
)

const target = "pr" // the processor being reconfigured

func gen(seed int64, tier string, idx int) *pipe.Scenario {
	g := pipe.NewGen(seed, idx)
	o := pipe.GenOpts{
		Engine: "v1", MaxSources: 2, MaxDests: 2, MaxProcs: 1, MinRecords: 60, MaxRecords: 200,
		AllowFilter: true, AllowWorkers: false, AllowCond: true, DLQWindows: []int{0},
	}
	sc := g.Scenario(o)
	p := rig.ProcSpec{ID: target}
	p.Script.Seed = g.R.Uint64()
	p.Script.ModifyPm = 500
	if g.R.Intn(3) == 0 {
		p.Script.FilterPm = 100
	}
	if g.R.Intn(2) == 0 {
		p.Script.LatencyUs = []int{0, 100, 600}
	}
	where := g.R.Intn(3)
	switch where {
	case 0:
		sc.Topo.Sources[0].Procs = append(sc.Topo.Sources[0].Procs, p)
	case 1:
		sc.Topo.PipeProcs = append(sc.Topo.PipeProcs, p)
	default:
		sc.Topo.Dests[0].Procs = append(sc.Topo.Dests[0].Procs, p)
	}
	for i := range sc.Topo.Sources {
		sc.Topo.Sources[i].Src.PaceUs = []int{0, 100, 400}[g.R.Intn(3)]
	}
	// reconfigure requests at random instants: idle / mid-stream / during stop
	n := 1 + g.R.Intn(3)
	genNo := 1
	at := 0
	for k := 0; k < n; k++ {
		genNo++
		at += 20 + g.R.Intn(150)
		op := fmt.Sprintf("reconf:%d", genNo)
		switch g.R.Intn(6) {
		case 0:
			op = fmt.Sprintf("reconf-fail:%d", genNo) // the new processor cannot be opened
		case 1:
			op = fmt.Sprintf("reconf-double:%d", genNo) // two concurrent requests
			genNo++
		case 2:
			op = fmt.Sprintf("reconf-cancel:%d", genNo) // request cancelled while pending
		}
		sc.Steps = append(sc.Steps, pipe.Step{AtEvent: at, Op: op})
	}
	switch g.R.Intn(4) {
	case 0:
		// a reconfigure racing the graceful stop
		genNo++
		sc.Steps = append(sc.Steps, pipe.Step{AtEvent: at + 30 + g.R.Intn(100), Op: "stop"}, pipe.Step{AtEvent: 0, Op: fmt.Sprintf("reconf:%d", genNo), AfterPrevUs: g.R.Intn(2000)})
	case 1:
		genNo++
		sc.Steps = append(sc.Steps, pipe.Step{AtEvent: -1, Op: fmt.Sprintf("reconf:%d", genNo)}) // idle
	}
	sc.Steps = append(sc.Steps, pipe.Step{AtEvent: 0, Op: "guarded-update"})
	if idx%10 == 4 {
		// a request whose caller gives up while the node is opening its new processor,
		// with a second request staged behind it: the second one must still be answered
		sc.Steps[0].Op = "reconf-cancel-open:2"
	}
	return sc
}

func hooks(sc *pipe.Scenario) *pipe.Hooks {
	return &pipe.Hooks{Op: func(r *rig.Rig, sc *pipe.Scenario, op string) bool {
		parts := strings.Split(op, ":")
		ctx := context.Background()
		update := func(g int) error {
			_, err := r.ProcSvc.UpdateWhileRunning(ctx, target, rig.ProcPluginName, processor.Config{Settings: map[string]string{"vf.gen": strconv.Itoa(g)}, Workers: 1})
			return err
		}
		reconf := func(ctx context.Context, g int) error {
			return r.Ctl("Reconfigure", strconv.Itoa(g), func() error {
				if err := update(g); err != nil {
					return fmt.Errorf("update: %w", err)
				}
				return r.V1.ReconfigureProcessor(ctx, sc.Topo.Pipeline, target)
			})
		}
		switch parts[0] {
		case "reconf":
			g, _ := strconv.Atoi(parts[1])
			_ = reconf(ctx, g)
			return true
		case "reconf-fail":
			g, _ := strconv.Atoi(parts[1])
			st := r.Procs.Proc(target)
			if st.Script.OpenErr == nil {
				st.Script.OpenErr = map[int]string{}
			}
			st.Script.OpenErr[g] = "vf: new processor cannot be opened"
			_ = reconf(ctx, g)
			return true
		case "reconf-double":
			// processor.Service is single-writer: the configuration is updated once, then two
			// reconfigure requests for it race each other on the node
			g, _ := strconv.Atoi(parts[1])
			if err := update(g); err != nil {
				return true
			}
			var wg sync.WaitGroup
			for k := 0; k < 2; k++ {
				wg.Add(1)
				go func() {
					defer wg.Done()
					_ = r.Ctl("Reconfigure", strconv.Itoa(g), func() error {
						return r.V1.ReconfigureProcessor(ctx, sc.Topo.Pipeline, target)
					})
				}()
			}
			wg.Wait()
			return true
		case "reconf-cancel-open":
			g, _ := strconv.Atoi(parts[1])
			st := r.Procs.Proc(target)
			if st.Script.OpenLatencyUs == nil {
				st.Script.OpenLatencyUs = map[int]int{}
			}
			st.Script.OpenLatencyUs[g] = 25000
			if err := update(g); err != nil {
				return true
			}
			base := len(r.Log.Snapshot())
			var wg sync.WaitGroup
			wg.Add(1)
			go func() {
				defer wg.Done()
				cctx, cancel := context.WithTimeout(ctx, 6*time.Millisecond)
				defer cancel()
				_ = r.Ctl("Reconfigure", strconv.Itoa(g)+":gives-up", func() error {
					return r.V1.ReconfigureProcessor(cctx, sc.Topo.Pipeline, target)
				})
			}()
			// pacing: the node has claimed the first request and is opening the new processor
			r.Log.WaitFor(func(evs []rig.Ev) bool {
				for q := base; q < len(evs); q++ {
					if evs[q].Kind == rig.KNote && evs[q].Note == "open-start" && evs[q].Comp == target {
						return true
					}
				}
				return false
			}, 2*time.Second)
			_ = r.Ctl("Reconfigure", strconv.Itoa(g), func() error {
				return r.V1.ReconfigureProcessor(ctx, sc.Topo.Pipeline, target)
			})
			wg.Wait()
			return true
		case "reconf-cancel":
			g, _ := strconv.Atoi(parts[1])
			cctx, cancel := context.WithTimeout(ctx, 200*time.Microsecond)
			_ = reconf(cctx, g)
			cancel()
			return true
		case "guarded-update":
			// the ordinary (guarded) update must refuse a running processor, also after swaps
			_ = r.Ctl("GuardedUpdate", r.Status(sc.Topo.Pipeline), func() error {
				_, err := r.ProcSvc.Update(ctx, target, rig.ProcPluginName, processor.Config{Settings: map[string]string{"vf.gen": "99"}, Workers: 1})
				return err
			})
			return true
		}
		return false
	}}
}

func judge(out *pipe.Outcome, ix *pipe.Index) pipe.Verdict {
	var v pipe.Verdict
	v.Stats = map[string]int64{}
	sc := out.Sc
	evs := out.Evs
	add := func(cl, detail string, around ...int) {
		v.Violations = append(v.Violations, vp.Violation{Property: "C13", Class: cl,
			Identity: "C13/" + cl, Detail: detail, Witness: rig.Excerpt(evs, around, 8)})
	}
	// outcome of every reconfigure request
	okGens := map[int]bool{1: true}
	failedGens := map[int]bool{}
	pendingGens := map[int]bool{}
	reqAt := map[int]int{} // call id -> event
	retAt := map[int]int{} // call id -> event
	genOfCall := map[int]int{}
	okCalls := map[int]bool{}
	scriptedFail := map[int]bool{}
	for _, st := range sc.Steps {
		if strings.HasPrefix(st.Op, "reconf-fail:") {
			g, _ := strconv.Atoi(strings.Split(st.Op, ":")[1])
			scriptedFail[g] = true
		}
	}
	type request struct{ gen, ctl, ret int }
	reqs := map[int]*request{} // call id -> request
	for i := range evs {
		e := &evs[i]
		if e.Op != "Reconfigure" {
			continue
		}
		// the argument is the generation, optionally followed by ":<remark>"
		g, _ := strconv.Atoi(strings.SplitN(e.Arg, ":", 2)[0])
		if e.Kind == rig.KCtl {
			reqs[e.Call] = &request{gen: g, ctl: i, ret: -1}
			reqAt[e.Call] = i
			pendingGens[g] = true
		}
		if e.Kind == rig.KCtlRet {
			if rq := reqs[e.Call]; rq != nil {
				rq.ret = i
			}
			retAt[e.Call] = i
			genOfCall[e.Call] = g
			delete(pendingGens, g)
			v.Stats["reconfigure_requests_judged"]++
			if e.Err == "" {
				okGens[g] = true
				okCalls[e.Call] = true
				v.Stats["reconfigures_succeeded"]++
				if scriptedFail[g] {
					add("failed-open-reported-as-success", fmt.Sprintf("the new processor (generation %d) cannot be opened, yet Reconfigure returned nil", g), i)
				}
			} else {
				failedGens[g] = true
				v.Stats["reconfigures_refused_or_failed"]++
			}
		}
	}
	// every record processed by exactly one configuration, monotone switch
	calls := map[string]int{} // lineage -> #calls in the current run
	lastGen := 0
	lastGenEv := -1
	switchedAway := map[int]bool{}
	run := 0
	for i := range evs {
		e := &evs[i]
		if e.Kind == rig.KSrcOpen {
			// a new run of the pipeline (restart) re-processes unacked records
			if e.Comp == sc.Topo.Sources[0].ID {
				run++
				calls = map[string]int{}
				switchedAway = map[int]bool{}
				lastGen = 0
			}
		}
		if e.Kind != rig.KProcCall || e.Comp != target {
			continue
		}
		v.Stats["processor_calls_judged"]++
		if strings.Contains(e.Note, "not-open") {
			add("processed-before-open", fmt.Sprintf("generation %d processed a record before its Open", e.Gen), i)
		}
		if strings.Contains(e.Note, "after-teardown") {
			add("processed-after-teardown", fmt.Sprintf("generation %d processed a record after its Teardown", e.Gen), i)
		}
		if failedGens[e.Gen] && !okGens[e.Gen] {
			// a cancelled request may still be applied by the node (the caller gave up, the swap
			// was already taken): only a FAILED OPEN must keep the old configuration
			if scriptedFail[e.Gen] {
				add("record-processed-by-unopenable-configuration", fmt.Sprintf("generation %d could not be opened, yet it processed records", e.Gen), i)
			} else {
				v.Stats["calls_by_generation_whose_request_returned_error_observed"]++
			}
		}
		if e.Gen != lastGen {
			if switchedAway[e.Gen] {
				add("configuration-reappears-after-switch", fmt.Sprintf("generation %d processed a record again after the node had switched from it to generation %d (events %d, %d): records after a switch must all be handled by the new configuration", e.Gen, lastGen, lastGenEv, i), lastGenEv, i)
			}
			if lastGen != 0 {
				switchedAway[lastGen] = true
			}
			lastGen, lastGenEv = e.Gen, i
		}
		for _, l := range e.Recs {
			k := l.String()
			calls[k]++
			v.Stats["records_judged"]++
			if calls[k] > 1 {
				add("record-processed-twice", fmt.Sprintf("record %s was handed to the processor %d times within one run", k, calls[k]), i)
			}
		}
		if len(v.Violations) > 4 {
			break
		}
	}
	// a successful swap takes effect: after an EXCLUSIVE request (no other request overlapping
	// it) for generation g returned nil, the calls that follow - until the next request is
	// issued - are handled by g
	for cid, r := range retAt {
		g := genOfCall[cid]
		if !okCalls[cid] {
			continue
		}
		exclusive := true
		for h, q := range reqAt {
			if h == cid {
				continue
			}
			hr, done := retAt[h]
			if !done {
				hr = len(evs)
			}
			if q < r && hr > reqAt[cid] {
				exclusive = false
			}
		}
		if !exclusive {
			v.Stats["overlapping_requests_observed"]++
			continue
		}
		next := len(evs)
		for h, q := range reqAt {
			if h != cid && q > r && q < next {
				next = q
			}
		}
		for i := r; i < next; i++ {
			e := &evs[i]
			if e.Kind == rig.KSrcOpen {
				break // a restarted run builds its processors from the stored configuration
			}
			if e.Kind == rig.KProcCall && e.Comp == target {
				v.Stats["post_swap_calls_judged"]++
				if e.Gen != g {
					add("swap-reported-but-not-in-effect", fmt.Sprintf("Reconfigure to generation %d returned nil at event %d, yet generation %d processed a record at event %d", g, r, e.Gen, i), r, i)
					break
				}
			}
		}
	}
	// order, acks and positions unaffected
	vs4, _ := pipe.OracleC04(ix)
	vs5, _ := pipe.OracleC05(ix)
	vs1, j1 := pipe.OracleC01(ix)
	for _, x := range append(append(vs4, vs5...), vs1...) {
		x.Identity = "C13/" + strings.Replace(x.Identity, "/", "-", 1)
		x.Property = "C13"
		v.Violations = append(v.Violations, x)
	}
	v.Stats["source_acks_judged"] = j1.Obligations
	// the guarded update must refuse while the pipeline runs
	for i := range evs {
		e := &evs[i]
		if e.Kind == rig.KCtlRet && e.Op == "GuardedUpdate" && (e.Arg == "Running") {
			// only decidable while the processor itself is live (a pipeline that is finishing
			// its stop has already torn it down although the status write is still to come)
			live := 0
			ctl := i
			for q := i; q >= 0; q-- {
				if evs[q].Kind == rig.KCtl && evs[q].Call == e.Call {
					ctl = q
					break
				}
			}
			for q := 0; q < ctl; q++ {
				if evs[q].Comp == target && evs[q].Kind == rig.KProcOpen && evs[q].Err == "" {
					live++
				}
				if evs[q].Comp == target && evs[q].Kind == rig.KProcTeardown && evs[q].Sess > 1 {
					live--
				}
			}
			tornDuring := false
			for q := ctl; q <= i; q++ {
				if evs[q].Comp == target && evs[q].Kind == rig.KProcTeardown {
					tornDuring = true
				}
			}
			if live <= 0 || tornDuring {
				continue
			}
			v.Stats["guarded_updates_judged"]++
			if e.Err == "" {
				add("guarded-update-accepted-while-running", "processor.Service.Update succeeded on a processor of a running pipeline (running flag lost across the swap)", i)
			}
		}
	}
	gens := 0
	seen := map[int]bool{}
	for i := range evs {
		if evs[i].Kind == rig.KProcCall && evs[i].Comp == target && !seen[evs[i].Gen] {
			seen[evs[i].Gen] = true
			gens++
		}
	}
	v.Nontrivial = v.Stats["reconfigure_requests_judged"] > 0 && v.Stats["records_judged"] > 0
	kinds := []string{}
	for _, st := range sc.Steps {
		if strings.HasPrefix(st.Op, "reconf") {
			kinds = append(kinds, strings.Split(st.Op, ":")[0])
		}
	}
	v.SigExtra = fmt.Sprintf("%v|gens%d|ok%d", kinds, gens, v.Stats["reconfigures_succeeded"])
	v.Sets = map[string][]string{"generations_seen": {strconv.Itoa(gens)}}
	return v
}

func init() {
	vp.Register(&pipe.PropDef{
		PID: "C13", PLevel: "exploration",
		RuleText: "scenario = default engine, 1-2 sources x 1-2 destinations, the reconfigured processor attached to a source, the pipeline or a destination (with latencies/filters), 1-4 live reconfigure requests (UpdateWhileRunning + ReconfigureProcessor) fired when the event log reaches PRNG-chosen lengths: mid-stream, idle, racing a graceful stop; variants: the new processor cannot be opened, two concurrent requests, a request cancelled after 200 us. The fake processor stamps its configuration generation on every record and logs every call. Judged: each record is handed to the processor exactly once per run; generations along the call order never go back; a generation that could not be opened never processes a record and its request returns an error; after a request returned nil no older generation processes a record; no call before Open / after Teardown of its generation; ack order, destination order and ack justification (C04/C05/C01 oracles) hold on the same history; the guarded Update still refuses while the pipeline runs. Non-trivial: >=1 request and >=1 record judged; distinct = distinct (topology, request kinds, generations seen, successes).",
		Assume:   []string{"arch-v2 has no in-place reconfigure path (ReconfigureProcessor returns an error there), so the property is only exercised on the default engine", "a request whose caller gave up (context cancelled) may still be applied by the node; that is recorded as an observation"},
		Quick:    240, Thorough: 2400, HangIsViol: true,
		PointBias: []string{"lifecycle.start.checked", "lifecycle.start.before-run", "lifecycle.stop.checked"},
		Anchors:   []string{"pkg/lifecycle/stream/processor.go", "pkg/lifecycle/reconfigure.go", "pkg/processor/service.go", "pkg/processor/runnable_processor.go"},
		Gen:       gen, Judge: judge, Hooks: hooks,
	})
}
