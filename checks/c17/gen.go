package c17

import (
	"math/rand"
	"strings"
	"time"
	"unicode/utf8"
)

// ---------------------------------------------------------------------------
// positions (arbitrary bytes)

// strataBytes are the 32 byte values the quick tier combines into 1024 pairs:
// NUL, C0 controls, JSON/HTML metacharacters, DEL, UTF-8 continuation / lead /
// illegal bytes and the boundaries of each UTF-8 lead class.
var strataBytes = []byte{
	0x00, 0x01, 0x09, 0x0a, 0x0d, 0x1f, 0x20, 0x22, 0x26, 0x27, 0x2f, 0x3c, 0x3e, 0x41, 0x5c, 0x7f,
	0x80, 0xbf, 0xc0, 0xc1, 0xc2, 0xdf, 0xe0, 0xe2, 0xed, 0xef, 0xf0, 0xf4, 0xf5, 0xf8, 0xfe, 0xff,
}

type namedBytes struct {
	name string
	b    []byte
}

func rep(b byte, n int) []byte {
	out := make([]byte, n)
	for i := range out {
		out[i] = b
	}
	return out
}

func randBytes(rng *rand.Rand, n int) []byte {
	out := make([]byte, n)
	rng.Read(out)
	return out
}

const mib = 1 << 20

// specialPositions: hand-picked byte strings. withLong adds the 1 MiB ones.
func specialPositions(rng *rand.Rand, withLong bool) []namedBytes {
	out := []namedBytes{
		{"nil", nil},
		{"empty", []byte{}},
		{"nul", []byte{0}},
		{"nul16", rep(0, 16)},
		{"ff16", rep(0xff, 16)},
		{"overlong-nul", []byte{0xc0, 0x80}},
		{"overlong-slash", []byte{0xe0, 0x80, 0xaf}},
		{"utf8-surrogate-d800", []byte{0xed, 0xa0, 0x80}},
		{"utf8-surrogate-pair", []byte{0xed, 0xa0, 0xbd, 0xed, 0xb8, 0x80}},
		{"above-10ffff", []byte{0xf4, 0x90, 0x80, 0x80}},
		{"bad-continuation", []byte{0xe2, 0x28, 0xa1}},
		{"truncated-3byte", []byte{0xe2, 0x82}},
		{"truncated-4byte", []byte{0xf0, 0x9f, 0x98}},
		{"lone-continuation", []byte{0x80}},
		{"utf16-bom", []byte{0xfe, 0xff}},
		{"utf8-bom", []byte{0xef, 0xbb, 0xbf}},
		{"text-with-nul", []byte("abc\x00def")},
		{"trailing-nul", []byte("abc\x00")},
		{"leading-nul", []byte("\x00abc")},
		{"json-object", []byte(`{"Position":"eA=="}`)},
		{"json-null", []byte(`null`)},
		{"json-empty-string", []byte(`""`)},
		{"lone-quote", []byte(`"`)},
		{"lone-backslash", []byte(`\`)},
		{"escape-text", []byte(`\u0000\n\"`)},
		{"base64-looking", []byte("AAAA==")},
		{"base64-url-chars", []byte("-_-_")},
		{"bytes-fb-ff", []byte{0xfb, 0xff, 0xbf, 0xfb, 0xef, 0xbe}}, // base64 of these uses '+' and '/'
		{"utf8-text", []byte("héllo wörld ✓ 日本語 😀")},
		{"u2028", []byte("a\u2028b\u2029c")},
		{"html", []byte(`<script>&"'</script>`)},
		{"newlines", []byte("line1\nline2\r\nline3\ttab")},
		{"all-bytes-asc", allBytes(false)},
		{"all-bytes-desc", allBytes(true)},
		{"len3", []byte{0, 0xff, 0}},
		{"len4", []byte{0xff, 0, 0xff, 0}},
		{"len5", []byte{1, 2, 3, 4, 5}},
	}
	if withLong {
		out = append(out,
			namedBytes{"1MiB-random", randBytes(rng, mib)},
			namedBytes{"1MiB-ff", rep(0xff, mib)},
			namedBytes{"1MiB-plus-1-zeros", rep(0, mib+1)},
		)
	}
	return out
}

func allBytes(desc bool) []byte {
	out := make([]byte, 256)
	for i := range out {
		if desc {
			out[i] = byte(255 - i)
		} else {
			out[i] = byte(i)
		}
	}
	return out
}

// randomPosition: seeded random byte string of a length drawn from a skewed
// distribution (mostly short, sometimes kilobytes).
func randomPosition(rng *rand.Rand) []byte {
	var n int
	switch rng.Intn(10) {
	case 0:
		n = 0
	case 1, 2, 3:
		n = 1 + rng.Intn(8)
	case 4, 5, 6:
		n = 1 + rng.Intn(64)
	case 7, 8:
		n = 1 + rng.Intn(1024)
	default:
		n = 1 + rng.Intn(16384)
	}
	b := randBytes(rng, n)
	switch rng.Intn(6) {
	case 0: // sprinkle NULs
		for i := 0; i < 1+n/8 && n > 0; i++ {
			b[rng.Intn(n)] = 0
		}
	case 1: // sprinkle 0xff
		for i := 0; i < 1+n/8 && n > 0; i++ {
			b[rng.Intn(n)] = 0xff
		}
	case 2: // strata only
		for i := range b {
			b[i] = strataBytes[rng.Intn(len(strataBytes))]
		}
	}
	if n == 0 && rng.Intn(2) == 0 {
		return nil
	}
	return b
}

// ---------------------------------------------------------------------------
// strings (valid Unicode of every plane, plus the invalid ones as observations)

type namedString struct {
	name string
	s    string
}

func specialStrings(withLong bool) []namedString {
	out := []namedString{
		{"empty", ""},
		{"ascii", "plain ascii value"},
		{"space", " "},
		{"leading-trailing-space", "  padded  "},
		{"nul", "\x00"},
		{"text-nul-text", "abc\x00def"},
		{"c0-controls", "\x01\x02\x03\x04\x05\x06\x07\x08\x09\x0a\x0b\x0c\x0d\x0e\x0f\x10\x11\x12\x13\x14\x15\x16\x17\x18\x19\x1a\x1b\x1c\x1d\x1e\x1f"},
		{"del-c1", "\x7f\u0080\u0085\u009f"},
		{"newlines", "line1\nline2\r\nline3\ttab"},
		{"u2028", "a\u2028b"},
		{"u2029", "a\u2029b"},
		{"u2028-only", "\u2028"},
		{"html", `<script>alert("x")</script>&amp;'`},
		{"lt", "<"}, {"gt", ">"}, {"amp", "&"},
		{"quote", `"`}, {"apostrophe", "'"}, {"backslash", `\`}, {"backtick", "`"},
		{"trailing-backslash", `abc\`},
		{"double-backslash", `\\`},
		{"escape-looking", `\u0041\n\t\"\\u2028`},
		{"json-looking", `{"a":["b",1,null]}`},
		{"json-breakout", `","Injected":"x`},
		{"template", `{{ eq .Metadata["key"] "value" }}`},
		{"latin1", "ÀÉîõü ß ÿ"},
		{"combining", "e\u0301 a\u0308\u0304 \u0915\u094d\u0937"},
		{"combining-only", "\u0301"},
		{"zwj-emoji", "👩\u200d👩\u200d👧\u200d👦 🏳\ufe0f\u200d🌈"},
		{"rtl", "שלום עולם مرحبا بالعالم"},
		{"bidi-controls", "a\u202eb\u202cc\u200fd\u2066e\u2069"},
		{"cjk", "日本語 中文 한국어"},
		{"d7ff", "\ud7ff"},
		{"e000", "\ue000"},
		{"surrogate-adjacent", "x\ud7ff\ue000y"},
		{"fffd", "\ufffd"},
		{"fffd-in-text", "a\ufffdb"},
		{"fffe-ffff", "\ufffe\uffff"},
		{"fdd0", "\ufdd0\ufdef"},
		{"bom", "\ufeffbom"},
		{"plane1", "𝔘𝔫𝔦𝔠𝔬𝔡𝔢 😀 𐍈"},
		{"plane2", "𠀀𠮷\U0002fa1d"},
		{"plane3", "\U00030000\U0003134a"},
		{"plane4-13", "\U00040000\U0007ffff\U000d0000"},
		{"plane14", "\U000e0001\U000e0020\U000e01ef"},
		{"plane15-16", "\U000f0000\U000ffffd\U00100000\U0010fffd"},
		{"plane-nonchars", "\U0001fffe\U0001ffff\U0010fffe"},
		{"u10ffff", "\U0010ffff"},
		{"u10ffff-in-text", "a\U0010ffffb"},
		{"mixed-everything", "a\x00<\u2028\"\\é\u0301ש日😀\U0010ffff\ufffd\ud7ff\ue000"},
		{"percent-format", "%s %d %v %!x(MISSING)"},
		{"long-ish-4k", strings.Repeat("0123456789abcdef", 256)},
		{"4k-multibyte", strings.Repeat("é日😀", 456)},
	}
	if withLong {
		out = append(out,
			namedString{"1MiB-ascii", strings.Repeat("x", mib)},
			namedString{"1MiB-multibyte", strings.Repeat("é日😀", mib/9+1)},
			namedString{"1MiB-sparse-escapes", sparseEscapes()},
		)
	}
	return out
}

// sparseEscapes is 1 MiB of text with one character that JSON must escape every
// 64 KiB. (A 1 MiB string made ONLY of such characters is not used: the repo's
// streaming JSON decoder needs time quadratic in the number of escapes, which
// would turn the case into a wall-clock matter, not a verdict.)
func sparseEscapes() string {
	esc := []string{"\"", "\\", "\x00", "\n", "<", "\u2028", "&", "\u2029", "'", ">", "\x1f", "\x7f", "\t", "\r", "\b", "\f"}
	var b strings.Builder
	for i := 0; i < 16; i++ {
		b.WriteString(strings.Repeat("y", 64<<10-1))
		b.WriteString(esc[i])
	}
	return b.String()
}

// invalidStrings are Go strings that are not valid UTF-8 (hence not "Unicode
// text"); what happens to them is recorded, never flagged.
func invalidStrings() []namedString {
	return []namedString{
		{"lone-ff", "\xff"},
		{"lone-continuation", "a\x80b"},
		{"overlong-nul", "\xc0\x80"},
		{"utf8-surrogate", "\xed\xa0\x80"},
		{"truncated", "abc\xe2\x82"},
		{"above-10ffff", "\xf4\x90\x80\x80"},
		{"latin1-bytes", "caf\xe9"},
	}
}

var planeRanges = [][2]rune{
	{0x20, 0x7e}, {0xa0, 0x24f}, {0x300, 0x36f}, {0x370, 0x58f}, {0x590, 0x6ff}, {0x900, 0xdff},
	{0x2000, 0x206f}, {0x2190, 0x2bff}, {0x3040, 0x30ff}, {0x4e00, 0x9fff}, {0xac00, 0xd7ff},
	{0xe000, 0xf8ff}, {0xfb00, 0xfffd}, {0x10000, 0x1ffff}, {0x1f300, 0x1faff}, {0x20000, 0x2ffff},
	{0x30000, 0x3ffff}, {0x40000, 0xdffff}, {0xe0000, 0xeffff}, {0xf0000, 0x10ffff}, {0x00, 0x1f},
}

func randRune(rng *rand.Rand) rune {
	for {
		pr := planeRanges[rng.Intn(len(planeRanges))]
		r := pr[0] + rune(rng.Int63n(int64(pr[1]-pr[0]+1)))
		if r >= 0xd800 && r <= 0xdfff {
			continue
		}
		return r
	}
}

var spiceRunes = []rune{0, '"', '\\', '<', '>', '&', '\'', 0x2028, 0x2029, 0xd7ff, 0xe000, 0xfffd, 0xffff, 0x10ffff, 0x7f, '\n', '\r', '\t', 0x85, 0x200d, 0x301}

// randomUnicode: a seeded random VALID Unicode string of n code points.
func randomUnicode(rng *rand.Rand, n int) string {
	var b strings.Builder
	for i := 0; i < n; i++ {
		if rng.Intn(6) == 0 {
			b.WriteRune(spiceRunes[rng.Intn(len(spiceRunes))])
		} else {
			b.WriteRune(randRune(rng))
		}
	}
	return b.String()
}

// randomString draws from the specials, random Unicode, ASCII and empty.
func randomString(rng *rand.Rand, specials []namedString) string {
	switch rng.Intn(10) {
	case 0, 1, 2, 3:
		return specials[rng.Intn(len(specials))].s
	case 4, 5, 6:
		return randomUnicode(rng, 1+rng.Intn(24))
	case 7:
		return randomUnicode(rng, 1+rng.Intn(400))
	case 8:
		const al = "abcdefghijklmnopqrstuvwxyz0123456789-_.:/ "
		n := 1 + rng.Intn(20)
		b := make([]byte, n)
		for i := range b {
			b[i] = al[rng.Intn(len(al))]
		}
		return string(b)
	}
	return ""
}

// sweepStrings returns the 16 strings of 256 consecutive scalar values each
// that make up the 4096-code-point chunk `chunk` (0..271); surrogates are
// skipped (they are not scalar values).
func sweepStrings(chunk int) []string {
	var out []string
	base := rune(chunk * 4096)
	for s := 0; s < 16; s++ {
		var b strings.Builder
		for i := 0; i < 256; i++ {
			r := base + rune(s*256+i)
			if r >= 0xd800 && r <= 0xdfff || r > 0x10ffff {
				continue
			}
			b.WriteRune(r)
		}
		if b.Len() > 0 {
			out = append(out, b.String())
		}
	}
	return out
}

// fit truncates s to at most maxBytes bytes at a rune boundary.
func fit(s string, maxBytes int) string {
	if len(s) <= maxBytes {
		return s
	}
	i := maxBytes
	for i > 0 && !utf8.RuneStart(s[i]) {
		i--
	}
	return s[:i]
}

func nonEmpty(s string) string {
	if s == "" {
		return "x"
	}
	return s
}

// ---------------------------------------------------------------------------
// timestamps

type namedTime struct {
	name string
	t    time.Time
}

func specialTimes() []namedTime {
	z := func(name string, sec int) *time.Location { return time.FixedZone(name, sec) }
	return []namedTime{
		{"zero", time.Time{}},
		{"unix-epoch", time.Unix(0, 0).UTC()},
		{"epoch-minus-1ns", time.Unix(0, -1).UTC()},
		{"ns-1", time.Date(2024, 2, 29, 23, 59, 59, 1, time.UTC)},
		{"ns-999999999", time.Date(2024, 12, 31, 23, 59, 59, 999999999, time.UTC)},
		{"ns-123456789", time.Date(2026, 6, 15, 9, 30, 0, 123456789, time.UTC)},
		{"us-precision", time.Date(2022, 12, 21, 16, 53, 52, 159532000, z("CET", 3600))},
		{"ms-precision", time.Date(2022, 12, 21, 16, 53, 52, 159000000, time.UTC)},
		{"trailing-zero-ns", time.Date(2022, 12, 21, 16, 53, 52, 100000000, time.UTC)},
		{"zone+01:00", time.Date(2023, 3, 26, 2, 30, 0, 5, z("CET", 3600))},
		{"zone-08:00", time.Date(2023, 11, 5, 1, 30, 0, 7, z("PST", -8*3600))},
		{"zone+05:45", time.Date(2023, 1, 1, 0, 0, 0, 11, z("NPT", 5*3600+45*60))},
		{"zone-09:30", time.Date(2023, 1, 1, 0, 0, 0, 13, z("MART", -(9*3600+30*60)))},
		{"zone+14:00", time.Date(2023, 1, 1, 0, 0, 0, 17, z("LINT", 14*3600))},
		{"zone-12:00", time.Date(2023, 1, 1, 0, 0, 0, 19, z("AoE", -12*3600))},
		{"zone+00:00-named", time.Date(2023, 1, 1, 0, 0, 0, 23, z("GMT", 0))},
		{"year-9999-end", time.Date(9999, 12, 31, 23, 59, 59, 999999999, time.UTC)},
		{"year-9999-zone", time.Date(9999, 6, 1, 12, 0, 0, 1, z("X", 3600))},
		{"year-1", time.Date(1, 1, 1, 0, 0, 0, 1, time.UTC)},
		{"year-1000", time.Date(1000, 1, 1, 0, 0, 0, 0, time.UTC)},
		{"1969", time.Date(1969, 12, 31, 23, 59, 59, 999999999, time.UTC)},
		{"1900-zone", time.Date(1900, 1, 1, 0, 0, 0, 0, z("Y", -5*3600))},
		{"1582", time.Date(1582, 10, 10, 0, 0, 0, 0, time.UTC)},
		{"2038-overflow", time.Date(2038, 1, 19, 3, 14, 8, 0, time.UTC)},
		{"leap-day", time.Date(2000, 2, 29, 12, 0, 0, 0, time.UTC)},
		{"sub-minute-zone", time.Date(2023, 1, 1, 0, 0, 0, 0, z("LMT", 3600+34))},
	}
}

func randomTime(rng *rand.Rand) time.Time {
	year := 1 + rng.Intn(9999)
	if rng.Intn(2) == 0 {
		year = 1960 + rng.Intn(120)
	}
	var loc *time.Location = time.UTC
	if rng.Intn(2) == 0 {
		// whole-minute offsets in [-12:00, +14:00]
		off := (rng.Intn(26*60+1) - 12*60) * 60
		loc = time.FixedZone("R", off)
	}
	ns := rng.Intn(1_000_000_000)
	switch rng.Intn(4) {
	case 0:
		ns = 0
	case 1:
		ns = ns / 1_000_000 * 1_000_000
	}
	t := time.Date(year, time.Month(1+rng.Intn(12)), 1+rng.Intn(28), rng.Intn(24), rng.Intn(60), rng.Intn(60), ns, loc)
	if t.Year() < 1 || t.Year() > 9999 || t.UTC().Year() < 1 || t.UTC().Year() > 9999 {
		return time.Date(2000, 1, 1, 0, 0, 0, ns, time.UTC)
	}
	return t
}

// ---------------------------------------------------------------------------
// integers

var extremeInts = []int64{0, 1, 2, 100, 255, 256, 65535, 1<<31 - 1, 1 << 31, 1<<32 + 1, 1<<53 - 1, 1 << 53, 1<<53 + 1, 1<<62 + 12345, 1<<63 - 2, 1<<63 - 1}

func randomInt(rng *rand.Rand) int64 {
	if rng.Intn(2) == 0 {
		return extremeInts[rng.Intn(len(extremeInts))]
	}
	return rng.Int63() >> uint(rng.Intn(63))
}
