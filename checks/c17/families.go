package c17

import (
	"fmt"
	"math/rand"
	"sync"
	"time"

	"github.com/conduitio/conduit/pkg/connector"
	"github.com/conduitio/conduit/pkg/pipeline"
	"github.com/conduitio/conduit/pkg/processor"
)

// ---------------------------------------------------------------------------
// small API wrappers that count refusals instead of failing the case

func (r *rig) rejected(op string, err error) {
	r.a.inc("api_rejected", 1)
	r.a.set("api_rejections", op+": "+trunc(stripDigits(err.Error()), 70))
}

func (r *rig) mkPipe(id, name, desc string) bool {
	_, err := r.pipes.Create(r.ctx, id, pipeline.Config{Name: name, Description: desc}, pipeline.ProvisionTypeAPI)
	if err != nil {
		r.rejected("pipeline.Create", err)
		return false
	}
	r.a.set("write_paths", "pipeline.Service.Create")
	return true
}

func (r *rig) mkConn(id string, t connector.Type, plugin, pipelineID string, cfg connector.Config, pt connector.ProvisionType) bool {
	_, err := r.conns.Create(r.ctx, id, t, plugin, pipelineID, cfg, pt)
	if err != nil {
		r.rejected("connector.Create", err)
		return false
	}
	r.a.set("write_paths", "connector.Service.Create")
	return true
}

func (r *rig) mkProc(id, plugin string, parent processor.Parent, cfg processor.Config, pt processor.ProvisionType, cond string) bool {
	_, err := r.procs.Create(r.ctx, id, plugin, parent, cfg, pt, cond)
	if err != nil {
		r.rejected("processor.Create", err)
		return false
	}
	r.a.set("write_paths", "processor.Service.Create")
	return true
}

// stripDigits keeps the set of distinct rejection texts small.
func stripDigits(s string) string {
	b := make([]byte, 0, len(s))
	for i := 0; i < len(s); i++ {
		if s[i] >= '0' && s[i] <= '9' {
			if len(b) == 0 || b[len(b)-1] != 'N' {
				b = append(b, 'N')
			}
			continue
		}
		b = append(b, s[i])
	}
	return string(b)
}

var (
	cbMu   sync.Mutex
	cbErrs int64
)

// queuePersist is the connector.Persister path of a running connector
// (Source.Ack / Source.Open): lock the instance, change it, Persister.Persist.
// The caller flushes.
func (r *rig) queuePersist(id string, mutate func(*connector.Instance)) bool {
	inst, err := r.conns.Get(r.ctx, id)
	if err != nil {
		r.rejected("connector.Get", err)
		return false
	}
	inst.Lock()
	mutate(inst)
	err = r.pers.Persist(r.ctx, inst, func(e error) {
		if e != nil {
			cbMu.Lock()
			cbErrs++
			cbMu.Unlock()
		}
	})
	inst.Unlock()
	if err != nil {
		r.rejected("Persister.Persist", err)
		return false
	}
	r.a.set("write_paths", "connector.Persister.Persist")
	return true
}

// writeState stores a typed connector state through one of the three paths.
// For "storeset" the connector must NOT have been created through the service.
func (r *rig) writeState(path, id string, t connector.Type, st any) bool {
	switch path {
	case "setstate":
		if _, err := r.conns.SetState(r.ctx, id, st); err != nil {
			r.rejected("connector.SetState", err)
			return false
		}
		r.a.set("write_paths", "connector.Service.SetState")
		return true
	case "persister":
		return r.queuePersist(id, func(i *connector.Instance) { i.State = st })
	case "storeset":
		now := time.Date(2026, 1, 2, 3, 4, 5, 6, time.UTC)
		inst := &connector.Instance{ID: id, Type: t, Config: connector.Config{Name: id}, PipelineID: "pl", Plugin: "builtin:c17",
			State: st, CreatedAt: now, UpdatedAt: now}
		return r.storeSetConn(inst)
	}
	panic("unknown path " + path)
}

func (r *rig) storeSetConn(inst *connector.Instance) bool {
	if err := connector.NewStore(r.db, r.logger).Set(r.ctx, inst.ID, inst); err != nil {
		r.rejected("connector.Store.Set", err)
		return false
	}
	r.a.set("write_paths", "connector.Store.Set")
	r.storeConns[inst.ID] = snapConn(inst)
	return true
}

func (r *rig) storeSetPipe(inst *pipeline.Instance) bool {
	if err := pipeline.NewStore(r.db).Set(r.ctx, inst.ID, inst); err != nil {
		r.rejected("pipeline.Store.Set", err)
		return false
	}
	r.a.set("write_paths", "pipeline.Store.Set")
	r.storePipes[inst.ID] = snapPipe(inst)
	return true
}

func (r *rig) storeSetProc(inst *processor.Instance) bool {
	if err := processor.NewStore(r.db).Set(r.ctx, inst.ID, inst); err != nil {
		r.rejected("processor.Store.Set", err)
		return false
	}
	r.a.set("write_paths", "processor.Store.Set")
	r.storeProcs[inst.ID] = snapProc(inst)
	return true
}

// ensureConn creates the connector through the API unless the path writes the
// whole document itself.
func (r *rig) ensureConn(path, id string, t connector.Type) bool {
	if path == "storeset" {
		return true
	}
	return r.mkConn(id, t, "builtin:c17", "pl", connector.Config{Name: id}, connector.ProvisionTypeAPI)
}

// ---------------------------------------------------------------------------
// family: positions

// storePositions gives every position to one source connector and groups them
// into destination maps of up to 256 entries.
func (r *rig) storePositions(path string, ps [][]byte) {
	for i, p := range ps {
		id := fmt.Sprintf("src-%05d", i)
		if r.ensureConn(path, id, connector.TypeSource) {
			r.writeState(path, id, connector.TypeSource, srcState(p))
		}
		r.a.inc("positions_stored", 1)
	}
	for g := 0; g*256 < len(ps); g++ {
		m := map[string][]byte{}
		for i := g * 256; i < (g+1)*256 && i < len(ps); i++ {
			m[fmt.Sprintf("src-%05d", i)] = ps[i]
		}
		id := fmt.Sprintf("dst-%03d", g)
		if r.ensureConn(path, id, connector.TypeDestination) {
			r.writeState(path, id, connector.TypeDestination, dstState(m))
		}
		r.a.inc("positions_stored", int64(len(m)))
	}
}

func runPositions(a *acc, path string, ps [][]byte) {
	a.path = path
	r, err := newRig(a, false)
	if err != nil {
		a.inconclusive = err.Error()
		return
	}
	defer r.close()
	r.storePositions(path, ps)
	if len(ps) > 0 {
		a.sample = map[string]any{"family": a.family, "write_path": path, "positions": len(ps), "first": showBytes(ps[0]), "last": showBytes(ps[len(ps)-1])}
	}
	if !r.restart() {
		return
	}
	// a second restart: what a restarted server loaded must itself survive
	// (for "persister": after being re-persisted by the new services)
	if path == "persister" {
		for id, i := range r.conns.List(r.ctx) {
			if i.Type == connector.TypeSource {
				st := i.State
				r.queuePersist(id, func(i *connector.Instance) { i.State = st })
			}
		}
	}
	r.restart()
}

func singleBytes() [][]byte {
	out := make([][]byte, 256)
	for i := range out {
		out[i] = []byte{byte(i)}
	}
	return out
}

func pairChunk(chunk int) [][]byte {
	out := make([][]byte, 0, 1024)
	for v := chunk * 1024; v < (chunk+1)*1024; v++ {
		out = append(out, []byte{byte(v >> 8), byte(v)})
	}
	return out
}

func stratifiedPairs() [][]byte {
	out := make([][]byte, 0, 1024)
	for _, x := range strataBytes {
		for _, y := range strataBytes {
			out = append(out, []byte{x, y})
		}
	}
	return out
}

// ---------------------------------------------------------------------------
// family: strings in every string-typed field

// applyString stores v in every string-typed stored field of all three kinds of
// entity (names are cut to the length the API accepts and made non-empty).
func (r *rig) applyString(n int, v string) {
	ne := nonEmpty(v)
	settings := func() map[string]string { return map[string]string{v: v, "plain-key": v} }
	// pipeline
	pid := fmt.Sprintf("pl-%04d", n)
	if r.mkPipe(pid, fit(fmt.Sprintf("%d|%s", n, v), pipeline.NameLengthLimit), fit(v, pipeline.DescriptionLengthLimit)) {
		if _, err := r.pipes.Update(r.ctx, pid, pipeline.Config{Name: fit(fmt.Sprintf("%d~%s", n, v), pipeline.NameLengthLimit), Description: fit(v, pipeline.DescriptionLengthLimit)}); err != nil {
			r.rejected("pipeline.Update", err)
		}
		if _, err := r.pipes.UpdateDLQ(r.ctx, pid, pipeline.DLQ{Plugin: ne, Settings: settings(), WindowSize: 3, WindowNackThreshold: 2}); err != nil {
			r.rejected("pipeline.UpdateDLQ", err)
		}
		if _, err := r.pipes.AddConnector(r.ctx, pid, v); err != nil {
			r.rejected("pipeline.AddConnector", err)
		}
		if _, err := r.pipes.AddProcessor(r.ctx, pid, v); err != nil {
			r.rejected("pipeline.AddProcessor", err)
		}
		if err := r.pipes.UpdateStatus(r.ctx, pid, pipeline.StatusDegraded, v); err != nil {
			r.rejected("pipeline.UpdateStatus", err)
		}
		r.a.set("write_paths", "pipeline.Service.Update/UpdateDLQ/AddConnector/AddProcessor/UpdateStatus")
	}
	// source connector, incl. LastActiveConfig through the persister (Source.Open does that)
	sid := fmt.Sprintf("cs-%04d", n)
	if r.mkConn(sid, connector.TypeSource, ne, ne, connector.Config{Name: fit(ne, connector.NameLengthLimit), Settings: settings()}, connector.ProvisionTypeAPI) {
		if _, err := r.conns.AddProcessor(r.ctx, sid, v); err != nil {
			r.rejected("connector.AddProcessor", err)
		}
		r.queuePersist(sid, func(i *connector.Instance) {
			i.LastActiveConfig = connector.Config{Name: i.Config.Name, Settings: settings()}
			i.State = srcState([]byte(v))
		})
		r.flush()
	}
	// destination connector, updated config, position map keyed by v
	did := fmt.Sprintf("cd-%04d", n)
	if r.mkConn(did, connector.TypeDestination, "builtin:c17", "pl", connector.Config{Name: "initial"}, connector.ProvisionTypeConfig) {
		if _, err := r.conns.Update(r.ctx, did, ne, connector.Config{Name: fit(ne, connector.NameLengthLimit), Settings: settings()}); err != nil {
			r.rejected("connector.Update", err)
		}
		if _, err := r.conns.SetState(r.ctx, did, dstState(map[string][]byte{v: []byte(v)})); err != nil {
			r.rejected("connector.SetState", err)
		}
		r.a.set("write_paths", "connector.Service.Update/AddProcessor/SetState")
	}
	// processors: created, and created-then-updated
	if r.mkProc(fmt.Sprintf("pr-%04d", n), ne, processor.Parent{ID: v, Type: processor.ParentTypePipeline}, processor.Config{Settings: settings(), Workers: 2}, processor.ProvisionTypeAPI, v) {
		r.a.inc("strings_stored", 1)
	}
	uid := fmt.Sprintf("pu-%04d", n)
	if r.mkProc(uid, "builtin:c17", processor.Parent{ID: "cs", Type: processor.ParentTypeConnector}, processor.Config{}, processor.ProvisionTypeConfig, "") {
		if _, err := r.procs.Update(r.ctx, uid, ne, processor.Config{Settings: settings(), Workers: 1}); err != nil {
			r.rejected("processor.Update", err)
		}
		r.a.set("write_paths", "processor.Service.Update")
	}
}

func runStrings(a *acc, vals []namedString) {
	a.path = "api"
	r, err := newRig(a, false)
	if err != nil {
		a.inconclusive = err.Error()
		return
	}
	defer r.close()
	for i, v := range vals {
		r.applyString(i, v.s)
		a.set("string_inputs", classifyString(v.s))
	}
	if len(vals) > 0 {
		a.sample = map[string]any{"family": a.family, "strings": len(vals), "first": showStr(vals[0].s), "last": showStr(vals[len(vals)-1].s)}
	}
	if r.restart() {
		r.restart()
	}
}

// ---------------------------------------------------------------------------
// family: status (+ error text) and the "to be resumed" rule

var allStatuses = []pipeline.Status{pipeline.StatusRunning, pipeline.StatusSystemStopped, pipeline.StatusUserStopped, pipeline.StatusDegraded, pipeline.StatusRecovering}

func runStatus(a *acc, rng *rand.Rand) {
	r, err := newRig(a, false)
	if err != nil {
		a.inconclusive = err.Error()
		return
	}
	defer r.close()
	specials := specialStrings(false)
	resume := map[string]bool{}
	n := 0
	for _, path := range []string{"api", "storeset"} {
		for _, st := range allStatuses {
			for k := 0; k < 6; k++ {
				n++
				id := fmt.Sprintf("pl-%s-%d-%d", path, int(st), k)
				errText := ""
				if k > 0 {
					errText = randomString(rng, specials)
				}
				ok := false
				if path == "api" {
					if r.mkPipe(id, fmt.Sprintf("name-%d", n), "status family") {
						// a pipeline usually passes through other statuses first
						if k%2 == 1 {
							r.pipes.UpdateStatus(r.ctx, id, allStatuses[rng.Intn(len(allStatuses))], "earlier error")
						}
						if err := r.pipes.UpdateStatus(r.ctx, id, st, errText); err != nil {
							r.rejected("pipeline.UpdateStatus", err)
						} else {
							ok = true
							a.set("write_paths", "pipeline.Service.UpdateStatus")
						}
					}
				} else {
					inst := &pipeline.Instance{ID: id, Config: pipeline.Config{Name: fmt.Sprintf("name-%d", n)}, Error: errText,
						CreatedAt: time.Date(2026, 1, 1, 0, 0, 0, n, time.UTC), UpdatedAt: time.Date(2026, 1, 1, 0, 0, 1, n, time.UTC), DLQ: pipeline.DefaultDLQ}
					inst.SetStatus(st)
					ok = r.storeSetPipe(inst)
				}
				if ok && (st == pipeline.StatusRunning || st == pipeline.StatusSystemStopped) {
					resume[id] = true
				}
			}
		}
	}
	a.sample = map[string]any{"family": a.family, "pipelines": n, "expected_to_resume": len(resume)}
	if !r.restart() {
		return
	}
	// second restart without any write: running is still what the store says
	if !r.restart() {
		return
	}
	r.lifecycleCheck(resume)
}

// ---------------------------------------------------------------------------
// family: timestamps (no API sets them: through the repo's own Store.Set)

func runTimes(a *acc, rng *rand.Rand, randomOnly bool) {
	a.path = "storeset"
	r, err := newRig(a, false)
	if err != nil {
		a.inconclusive = err.Error()
		return
	}
	defer r.close()
	var ts []time.Time
	if !randomOnly {
		for _, t := range specialTimes() {
			ts = append(ts, t.t)
		}
	}
	for i := 0; i < 96; i++ {
		ts = append(ts, randomTime(rng))
	}
	for i, t := range ts {
		u := ts[(i+1)%len(ts)]
		r.storeSetConn(&connector.Instance{ID: fmt.Sprintf("cn-%04d", i), Type: connector.TypeSource, Config: connector.Config{Name: "n"}, PipelineID: "pl", Plugin: "p", CreatedAt: t, UpdatedAt: u})
		pi := &pipeline.Instance{ID: fmt.Sprintf("pl-%04d", i), Config: pipeline.Config{Name: fmt.Sprintf("n%d", i)}, CreatedAt: t, UpdatedAt: u}
		pi.SetStatus(pipeline.StatusUserStopped)
		r.storeSetPipe(pi)
		r.storeSetProc(&processor.Instance{ID: fmt.Sprintf("pr-%04d", i), Plugin: "p", CreatedAt: t, UpdatedAt: u, Config: processor.Config{Workers: 1}})
	}
	// the API's own timestamps (time.Now, local zone, monotonic reading)
	if r.mkPipe("pl-now", "now", "") {
		r.mkConn("cn-now", connector.TypeDestination, "p", "pl-now", connector.Config{Name: "now"}, connector.ProvisionTypeAPI)
		r.mkProc("pr-now", "p", processor.Parent{ID: "pl-now", Type: processor.ParentTypePipeline}, processor.Config{}, processor.ProvisionTypeAPI, "")
	}
	a.sample = map[string]any{"family": a.family, "timestamps": len(ts), "first": ts[0].Format(time.RFC3339Nano), "last": ts[len(ts)-1].Format(time.RFC3339Nano)}
	if r.restart() {
		r.restart()
	}
}

// ---------------------------------------------------------------------------
// family: integers and enumerations

func runInts(a *acc, rng *rand.Rand) {
	a.path = "api"
	r, err := newRig(a, false)
	if err != nil {
		a.inconclusive = err.Error()
		return
	}
	defer r.close()
	type wt struct{ w, t int64 }
	const mx = int64(1<<63 - 1)
	pairs := []wt{{0, 0}, {1, 0}, {2, 1}, {0, 1}, {0, mx}, {mx, 0}, {mx, mx - 1}, {1<<53 + 1, 1 << 53}, {1 << 53, 1<<53 - 1}, {1 << 31, 1<<31 - 1}, {1<<32 + 1, 1 << 32}, {101, 100}, {mx - 1, mx - 2}}
	for i := 0; i < 48; i++ {
		w := randomInt(rng)
		var t int64
		if w > 0 {
			t = rng.Int63n(w)
			if rng.Intn(3) == 0 {
				t = w - 1
			}
		} else {
			t = randomInt(rng)
		}
		pairs = append(pairs, wt{w, t})
	}
	for i, p := range pairs {
		id := fmt.Sprintf("pl-%04d", i)
		prov := pipeline.ProvisionType(i % 2)
		if _, err := r.pipes.Create(r.ctx, id, pipeline.Config{Name: id}, prov); err != nil {
			r.rejected("pipeline.Create", err)
			continue
		}
		if _, err := r.pipes.UpdateDLQ(r.ctx, id, pipeline.DLQ{Plugin: "builtin:log", WindowSize: int(p.w), WindowNackThreshold: int(p.t)}); err != nil {
			r.rejected("pipeline.UpdateDLQ", err)
		}
		a.set("write_paths", "pipeline.Service.UpdateDLQ")
	}
	workers := append([]int64{}, extremeInts...)
	for i := 0; i < 32; i++ {
		workers = append(workers, randomInt(rng))
	}
	for i, w := range workers {
		pt := processor.ParentType(1 + i%2)
		r.mkProc(fmt.Sprintf("pc-%04d", i), "p", processor.Parent{ID: "x", Type: pt}, processor.Config{Workers: int(w)}, processor.ProvisionType(i%2), "")
		uid := fmt.Sprintf("pu-%04d", i)
		if r.mkProc(uid, "p", processor.Parent{ID: "x", Type: pt}, processor.Config{Workers: 1}, processor.ProvisionType((i+1)%2), "") {
			if _, err := r.procs.Update(r.ctx, uid, "p", processor.Config{Workers: int(w)}); err != nil {
				r.rejected("processor.Update", err)
			}
		}
	}
	for i := 0; i < 4; i++ {
		r.mkConn(fmt.Sprintf("cn-%d", i), connector.Type(1+i%2), "p", "pl", connector.Config{Name: "n"}, connector.ProvisionType(i/2))
	}
	a.sample = map[string]any{"family": a.family, "dlq_pairs": len(pairs), "workers_values": len(workers)}
	if r.restart() {
		r.restart()
	}
}

// ---------------------------------------------------------------------------
// family: many references and their order

func runRefs(a *acc, rng *rand.Rand, big int) {
	a.path = "api"
	r, err := newRig(a, false)
	if err != nil {
		a.inconclusive = err.Error()
		return
	}
	defer r.close()
	specials := specialStrings(false)
	shuffled := func(prefix string, n int) []string {
		ids := make([]string, n)
		for i := range ids {
			ids[i] = fmt.Sprintf("%s-%04d", prefix, i)
		}
		rng.Shuffle(n, func(i, j int) { ids[i], ids[j] = ids[j], ids[i] })
		return ids
	}
	type plan struct {
		name   string
		procs  []string
		conns  []string
		remove int
	}
	rev := func(n int) []string {
		ids := make([]string, n)
		for i := range ids {
			ids[i] = fmt.Sprintf("z-%04d", n-1-i)
		}
		return ids
	}
	dups := []string{"b", "a", "b", "c", "a", "a", "b"}
	uni := make([]string, 40)
	for i := range uni {
		uni[i] = randomString(rng, specials)
	}
	plans := []plan{
		{"many-shuffled", shuffled("proc", big), shuffled("conn", big/4), 0},
		{"reverse-sorted", rev(64), rev(17), 0},
		{"duplicates", dups, dups, 0},
		{"unicode-refs", uni, uni, 0},
		{"removed-from-middle", shuffled("p", 50), shuffled("c", 50), 20},
		{"single", []string{"only"}, []string{"only"}, 0},
		{"added-then-emptied", []string{"x", "y"}, []string{"x", "y"}, 2},
		{"numeric-looking", []string{"10", "9", "1", "2", "01", "1e3", "-1"}, []string{"10", "9", "1"}, 0},
	}
	for i, p := range plans {
		pid := fmt.Sprintf("pl-%02d", i)
		cid := fmt.Sprintf("cn-%02d", i)
		okP := r.mkPipe(pid, p.name, "")
		okC := r.mkConn(cid, connector.TypeSource, "p", pid, connector.Config{Name: p.name}, connector.ProvisionTypeAPI)
		for _, id := range p.procs {
			if okP {
				if _, err := r.pipes.AddProcessor(r.ctx, pid, id); err != nil {
					r.rejected("pipeline.AddProcessor", err)
				}
			}
			if okC {
				if _, err := r.conns.AddProcessor(r.ctx, cid, id); err != nil {
					r.rejected("connector.AddProcessor", err)
				}
			}
		}
		for _, id := range p.conns {
			if okP {
				if _, err := r.pipes.AddConnector(r.ctx, pid, id); err != nil {
					r.rejected("pipeline.AddConnector", err)
				}
			}
		}
		for k := 0; k < p.remove; k++ {
			if okP {
				if pl, err := r.pipes.Get(r.ctx, pid); err == nil && len(pl.ProcessorIDs) > 0 {
					r.pipes.RemoveProcessor(r.ctx, pid, pl.ProcessorIDs[rng.Intn(len(pl.ProcessorIDs))])
				}
				if pl, err := r.pipes.Get(r.ctx, pid); err == nil && len(pl.ConnectorIDs) > 0 {
					r.pipes.RemoveConnector(r.ctx, pid, pl.ConnectorIDs[rng.Intn(len(pl.ConnectorIDs))])
				}
			}
			if okC {
				if c, err := r.conns.Get(r.ctx, cid); err == nil && len(c.ProcessorIDs) > 0 {
					r.conns.RemoveProcessor(r.ctx, cid, c.ProcessorIDs[rng.Intn(len(c.ProcessorIDs))])
				}
			}
		}
		a.set("reference_plans", p.name)
	}
	a.set("write_paths", "pipeline.Service.AddProcessor/AddConnector/Remove*, connector.Service.AddProcessor/RemoveProcessor")
	a.sample = map[string]any{"family": a.family, "largest_list": big, "first_refs": plans[0].procs[:4]}
	if r.restart() {
		r.restart()
	}
}

// ---------------------------------------------------------------------------
// family: random whole-server workloads over all APIs, with several restarts

type mixState struct {
	r        *rig
	rng      *rand.Rand
	specials []namedString
	pipes    []string
	conns    []string
	connType map[string]connector.Type
	procs    []string
	seq      int
	usedLong bool
	// written through Store.Set only: the running services learn about them at
	// the next restart
	pendPipes, pendConns, pendProcs []string
}

func (m *mixState) afterRestart() {
	m.pipes = append(m.pipes, m.pendPipes...)
	m.conns = append(m.conns, m.pendConns...)
	m.procs = append(m.procs, m.pendProcs...)
	m.pendPipes, m.pendConns, m.pendProcs = nil, nil, nil
}

func (m *mixState) str() string {
	if !m.usedLong && m.rng.Intn(300) == 0 {
		m.usedLong = true
		return randomUnicode(m.rng, 40000) // > 64 KiB
	}
	return randomString(m.rng, m.specials)
}

func (m *mixState) settings() map[string]string {
	switch m.rng.Intn(6) {
	case 0:
		return nil
	case 1:
		return map[string]string{}
	}
	n := 1 + m.rng.Intn(5)
	out := map[string]string{}
	for i := 0; i < n; i++ {
		out[m.str()] = m.str()
	}
	return out
}

func pick(rng *rand.Rand, s []string) (string, bool) {
	if len(s) == 0 {
		return "", false
	}
	return s[rng.Intn(len(s))], true
}

func remove(s []string, v string) []string {
	for i, x := range s {
		if x == v {
			return append(s[:i:i], s[i+1:]...)
		}
	}
	return s
}

const idAlphabet = "ABCDEFGHIJKLMNOPQRSTUVWXYZabcdefghijklmnopqrstuvwxyz0123456789-_:."

func (m *mixState) newID(kind string, maxLen int) string {
	m.seq++
	base := fmt.Sprintf("%s-%d", kind, m.seq)
	switch m.rng.Intn(8) {
	case 0: // the full alphabet, up to the length limit
		b := []byte(base + ":")
		for len(b) < maxLen {
			b = append(b, idAlphabet[m.rng.Intn(len(idAlphabet))])
		}
		return string(b)
	case 1: // looks like a store key
		return fit(base+":pipeline:instance:connector:connector:x", maxLen)
	}
	return base
}

func (m *mixState) step() {
	r, rng := m.r, m.rng
	switch op := rng.Intn(23); op {
	case 0, 1:
		id := m.newID("pl", pipeline.IDLengthLimit)
		if r.mkPipe(id, fit(fmt.Sprintf("%d|%s", m.seq, m.str()), pipeline.NameLengthLimit), fit(m.str(), pipeline.DescriptionLengthLimit)) {
			m.pipes = append(m.pipes, id)
		}
	case 2:
		if id, ok := pick(rng, m.pipes); ok {
			if _, err := r.pipes.Update(r.ctx, id, pipeline.Config{Name: fit(fmt.Sprintf("%d~%s", m.seq, m.str()), pipeline.NameLengthLimit), Description: fit(m.str(), pipeline.DescriptionLengthLimit)}); err != nil {
				r.rejected("pipeline.Update", err)
			}
			m.seq++
		}
	case 3:
		if id, ok := pick(rng, m.pipes); ok {
			w := randomInt(rng)
			var t int64
			if w > 0 {
				t = rng.Int63n(w)
			}
			if _, err := r.pipes.UpdateDLQ(r.ctx, id, pipeline.DLQ{Plugin: nonEmpty(m.str()), Settings: m.settings(), WindowSize: int(w), WindowNackThreshold: int(t)}); err != nil {
				r.rejected("pipeline.UpdateDLQ", err)
			}
		}
	case 4:
		if id, ok := pick(rng, m.pipes); ok {
			ref := m.str()
			if c, ok := pick(rng, m.conns); ok && rng.Intn(2) == 0 {
				ref = c
			}
			r.pipes.AddConnector(r.ctx, id, ref)
		}
	case 5:
		if id, ok := pick(rng, m.pipes); ok {
			ref := m.str()
			if p, ok := pick(rng, m.procs); ok && rng.Intn(2) == 0 {
				ref = p
			}
			r.pipes.AddProcessor(r.ctx, id, ref)
		}
	case 6:
		if id, ok := pick(rng, m.pipes); ok {
			if pl, err := r.pipes.Get(r.ctx, id); err == nil {
				if ref, ok := pick(rng, pl.ConnectorIDs); ok {
					r.pipes.RemoveConnector(r.ctx, id, ref)
				}
				if ref, ok := pick(rng, pl.ProcessorIDs); ok && rng.Intn(2) == 0 {
					r.pipes.RemoveProcessor(r.ctx, id, ref)
				}
			}
		}
	case 7, 8:
		if id, ok := pick(rng, m.pipes); ok {
			msg := ""
			if rng.Intn(2) == 0 {
				msg = m.str()
			}
			if err := r.pipes.UpdateStatus(r.ctx, id, allStatuses[rng.Intn(len(allStatuses))], msg); err != nil {
				r.rejected("pipeline.UpdateStatus", err)
			}
		}
	case 9, 10:
		id := m.newID("cn", connector.IDLengthLimit)
		t := connector.Type(1 + rng.Intn(2))
		if r.mkConn(id, t, nonEmpty(m.str()), nonEmpty(m.str()), connector.Config{Name: fit(nonEmpty(m.str()), connector.NameLengthLimit), Settings: m.settings()}, connector.ProvisionType(rng.Intn(2))) {
			m.conns = append(m.conns, id)
			m.connType[id] = t
		}
	case 11:
		if id, ok := pick(rng, m.conns); ok {
			if _, err := r.conns.Update(r.ctx, id, nonEmpty(m.str()), connector.Config{Name: fit(nonEmpty(m.str()), connector.NameLengthLimit), Settings: m.settings()}); err != nil {
				r.rejected("connector.Update", err)
			}
		}
	case 12:
		if id, ok := pick(rng, m.conns); ok {
			r.conns.AddProcessor(r.ctx, id, m.str())
			if c, err := r.conns.Get(r.ctx, id); err == nil && rng.Intn(3) == 0 {
				if ref, ok := pick(rng, c.ProcessorIDs); ok {
					r.conns.RemoveProcessor(r.ctx, id, ref)
				}
			}
		}
	case 13, 14, 15:
		if id, ok := pick(rng, m.conns); ok {
			var st any
			if m.connType[id] == connector.TypeSource {
				st = srcState(randomPosition(rng))
			} else {
				mp := map[string][]byte{}
				for i := rng.Intn(4); i > 0; i-- {
					k := m.str()
					if c, ok := pick(rng, m.conns); ok && rng.Intn(2) == 0 {
						k = c
					}
					mp[k] = randomPosition(rng)
				}
				if len(mp) == 0 && rng.Intn(2) == 0 {
					mp = nil
				}
				st = dstState(mp)
			}
			switch rng.Intn(5) {
			case 0:
				if _, err := r.conns.SetState(r.ctx, id, nil); err != nil {
					r.rejected("connector.SetState", err)
				}
			case 1, 2:
				if _, err := r.conns.SetState(r.ctx, id, st); err != nil {
					r.rejected("connector.SetState", err)
				}
				r.a.set("write_paths", "connector.Service.SetState")
			default:
				r.queuePersist(id, func(i *connector.Instance) { i.State = st })
				r.flush()
			}
		}
	case 16:
		if id, ok := pick(rng, m.conns); ok {
			r.queuePersist(id, func(i *connector.Instance) {
				i.LastActiveConfig = connector.Config{Name: i.Config.Name, Settings: cpMap(i.Config.Settings)}
			})
			r.flush()
		}
	case 17, 18:
		id := m.newID("pr", 200)
		if r.mkProc(id, nonEmpty(m.str()), processor.Parent{ID: m.str(), Type: processor.ParentType(1 + rng.Intn(2))},
			processor.Config{Settings: m.settings(), Workers: int(randomInt(rng))}, processor.ProvisionType(rng.Intn(2)), m.str()) {
			m.procs = append(m.procs, id)
		}
	case 19:
		if id, ok := pick(rng, m.procs); ok {
			if _, err := r.procs.Update(r.ctx, id, nonEmpty(m.str()), processor.Config{Settings: m.settings(), Workers: int(randomInt(rng))}); err != nil {
				r.rejected("processor.Update", err)
			}
		}
	case 20:
		switch rng.Intn(3) {
		case 0:
			if id, ok := pick(rng, m.pipes); ok && len(m.pipes) > 2 {
				if err := r.pipes.Delete(r.ctx, id); err == nil {
					m.pipes = remove(m.pipes, id)
					r.a.inc("entities_deleted", 1)
				}
			}
		case 1:
			if id, ok := pick(rng, m.conns); ok && len(m.conns) > 2 {
				r.flush()
				if err := r.conns.Delete(r.ctx, id, fakeConnPlugins{}); err == nil {
					m.conns = remove(m.conns, id)
					r.a.inc("entities_deleted", 1)
				}
			}
		case 2:
			if id, ok := pick(rng, m.procs); ok && len(m.procs) > 2 {
				if err := r.procs.Delete(r.ctx, id); err == nil {
					m.procs = remove(m.procs, id)
					r.a.inc("entities_deleted", 1)
				}
			}
		}
	case 21:
		// timestamps / documents only the store path can produce
		m.seq++
		t, u := randomTime(rng), randomTime(rng)
		switch rng.Intn(3) {
		case 0:
			id := fmt.Sprintf("sc-%d", m.seq)
			typ := connector.Type(1 + rng.Intn(2))
			inst := &connector.Instance{ID: id, Type: typ, Config: connector.Config{Name: m.str(), Settings: m.settings()}, PipelineID: m.str(), Plugin: m.str(),
				ProcessorIDs: []string{m.str()}, CreatedAt: t, UpdatedAt: u, LastActiveConfig: connector.Config{Name: m.str(), Settings: m.settings()}}
			if typ == connector.TypeSource {
				inst.State = srcState(randomPosition(rng))
			} else {
				inst.State = dstState(map[string][]byte{m.str(): randomPosition(rng)})
			}
			if r.storeSetConn(inst) {
				m.pendConns = append(m.pendConns, id)
				m.connType[id] = typ
			}
		case 1:
			id := fmt.Sprintf("sp-%d", m.seq)
			inst := &pipeline.Instance{ID: id, Config: pipeline.Config{Name: fmt.Sprintf("%d^%s", m.seq, m.str()), Description: m.str()}, Error: m.str(), CreatedAt: t, UpdatedAt: u,
				DLQ:          pipeline.DLQ{Plugin: m.str(), Settings: m.settings(), WindowSize: int(randomInt(rng)), WindowNackThreshold: int(randomInt(rng))},
				ConnectorIDs: []string{m.str(), m.str()}, ProcessorIDs: []string{m.str()}}
			inst.SetStatus(allStatuses[rng.Intn(len(allStatuses))])
			if r.storeSetPipe(inst) {
				m.pendPipes = append(m.pendPipes, id)
			}
		case 2:
			id := fmt.Sprintf("sr-%d", m.seq)
			if r.storeSetProc(&processor.Instance{ID: id, Plugin: m.str(), Condition: m.str(), CreatedAt: t, UpdatedAt: u, Parent: processor.Parent{ID: m.str(), Type: processor.ParentTypeConnector},
				Config: processor.Config{Settings: m.settings(), Workers: int(randomInt(rng))}}) {
				m.pendProcs = append(m.pendProcs, id)
			}
		}
	case 22:
		// nothing: lets restarts happen back to back
	}
}

func runMix(a *acc, rng *rand.Rand, useBadger bool, steps int) {
	a.path = "mixed"
	r, err := newRig(a, useBadger)
	if err != nil {
		a.inconclusive = err.Error()
		return
	}
	defer r.close()
	m := &mixState{r: r, rng: rng, specials: specialStrings(false), connType: map[string]connector.Type{}}
	restarts := 2 + rng.Intn(2)
	for k := 0; k < restarts; k++ {
		for i := 0; i < steps; i++ {
			m.step()
			a.inc("api_operations", 1)
		}
		if !r.restart() {
			return
		}
		m.afterRestart() // entities written only to the store are known to the services from now on
	}
	resume := map[string]bool{}
	for id, p := range r.pipes.List(r.ctx) {
		if p.GetStatus() == pipeline.StatusSystemStopped {
			resume[id] = true
		}
	}
	a.sample = map[string]any{"family": a.family, "engine": r.engine, "restarts": restarts, "pipelines": len(m.pipes), "connectors": len(m.conns), "processors": len(m.procs), "to_resume": len(resume)}
	r.lifecycleCheck(resume)
}
