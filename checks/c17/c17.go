// Package c17 checks property C17: whatever is stored for a pipeline, connector
// or processor is read back identically by a restarted server, records of older
// supported formats are still understood, and a running pipeline is found again
// as one to be resumed.
//
// Technique: runtime monitoring of the REAL connector/pipeline/processor
// services (and connector.Persister, lifecycle.Service.Init) on a real
// database.DB. Generated values are written through the service APIs (or,
// where no API sets a field, the repo's own Store.Set; older formats as raw
// documents), all service objects are thrown away, fresh ones are built on the
// same store and initialised, and Get/List of every entity is compared field
// by field with what was stored.
package c17

import (
	"fmt"
	"math/rand"
	"time"

	"verif/internal/vp"
)

type caseSpec struct {
	family string // pos-single, pos-pair, pos-special, str-special, str-random, str-sweep, str-invalid, status, time, ints, refs, old-pre041, old-golden, mix
	sub    string // value class inside the family (part of Sig)
	path   string // write path for the position families
	n      int    // chunk number / size parameter
	badger bool
}

func (c caseSpec) sig() string {
	s := c.family
	if c.sub != "" {
		s += "/" + c.sub
	}
	if c.path != "" {
		s += "/" + c.path
	}
	if c.badger {
		s += "/badger"
	}
	return s
}

var posPaths = []string{"setstate", "persister", "storeset"}

// quickSweepChunks: 4096-code-point chunks sampled by the quick tier (ASCII and
// controls, U+2000.., surrogate-adjacent, PUA/specials, each kind of plane).
var quickSweepChunks = []int{0x0, 0x2, 0xd, 0xe, 0xf, 0x10, 0x1f, 0x20, 0x30, 0xe0, 0xff, 0x10f}

func plan(tier string) []caseSpec {
	thorough := tier == "thorough"
	var p []caseSpec
	rep := func(n int, c caseSpec) {
		for i := 0; i < n; i++ {
			c.n = i
			p = append(p, c)
		}
	}
	for _, path := range posPaths {
		p = append(p, caseSpec{family: "pos-single", sub: "all-256-bytes", path: path})
		if thorough {
			for ch := 0; ch < 64; ch++ {
				p = append(p, caseSpec{family: "pos-pair", sub: "all-65536-pairs", path: path, n: ch})
			}
			rep(8, caseSpec{family: "pos-special", sub: "specials+random", path: path})
		} else {
			p = append(p, caseSpec{family: "pos-pair", sub: "stratified-1024-pairs", path: path})
			rep(1, caseSpec{family: "pos-special", sub: "specials+random", path: path})
		}
	}
	p = append(p, caseSpec{family: "str-special", sub: "specials"}, caseSpec{family: "str-special", sub: "long-1MiB"})
	p = append(p, caseSpec{family: "str-invalid", sub: "invalid-utf8"})
	if thorough {
		rep(32, caseSpec{family: "str-random", sub: "random-unicode"})
		for ch := 0; ch < 272; ch++ {
			p = append(p, caseSpec{family: "str-sweep", sub: fmt.Sprintf("plane-%d", ch/16), n: ch})
		}
		rep(16, caseSpec{family: "status"})
		rep(16, caseSpec{family: "time"})
		rep(8, caseSpec{family: "ints"})
		rep(12, caseSpec{family: "refs"})
		rep(32, caseSpec{family: "old-pre041"})
		rep(32, caseSpec{family: "old-golden"})
		for i := 0; i < 320; i++ {
			p = append(p, caseSpec{family: "mix", n: i, badger: i%8 == 7})
		}
	} else {
		rep(2, caseSpec{family: "str-random", sub: "random-unicode"})
		for _, ch := range quickSweepChunks {
			p = append(p, caseSpec{family: "str-sweep", sub: fmt.Sprintf("plane-%d", ch/16), n: ch})
		}
		rep(2, caseSpec{family: "status"})
		rep(2, caseSpec{family: "time"})
		rep(1, caseSpec{family: "ints"})
		rep(2, caseSpec{family: "refs"})
		rep(2, caseSpec{family: "old-pre041"})
		rep(2, caseSpec{family: "old-golden"})
		for i := 0; i < 16; i++ {
			p = append(p, caseSpec{family: "mix", n: i, badger: i%8 == 7})
		}
	}
	return p
}

type prop struct{}

func init() { vp.Register(&prop{}) }

func (*prop) ID() string    { return "C17" }
func (*prop) Level() string { return "exploration" }

func (*prop) Rule() string {
	return "Each case is a chunk of a value space applied to real services on a real store, followed by a restart " +
		"(all service objects discarded, fresh connector/pipeline/processor services + Persister built on the same database.DB and Init'ed) " +
		"and a field-by-field comparison of Get/List with what was stored. Families: pos-single (all 256 one-byte positions), pos-pair " +
		"(thorough: all 65,536 two-byte positions in 64 chunks; quick: 32x32 stratified bytes), pos-special (nil/empty/NUL/invalid-UTF-8/1 MiB + seeded random), " +
		"each through three write paths (Service.SetState, Persister.Persist as a running connector does, Store.Set); str-special / str-random / " +
		"str-sweep (thorough: every Unicode scalar value in 272 chunks of 4096; quick: 12 chunks) in every string field and map key; str-invalid " +
		"(observation only); status (5 statuses x error text, pipeline.Service.Init + real lifecycle.Service.Init v1/v2); time; ints (DLQ window/threshold, workers); " +
		"refs (1000 references, order, duplicates, removals); old-pre041 and old-golden (older-format raw documents judged against an independent encoding/json reader); " +
		"mix (seeded random API workloads with 2-3 restarts, every 8th on badger with a real close/reopen). Sig = family/value-class/write-path: " +
		"cases are distinct when they cover another class of value or another write path; chunks of one sweep share a Sig. A case is non-trivial " +
		"when at least one entity was found again after the restart and at least one stored field was compared. Seeds only choose the random values."
}

func (*prop) Assumptions() []string {
	return []string{
		"Restart is modelled by discarding every service object and building fresh ones on the same database.DB (inmemory keeps its map; badger is really closed and reopened); process memory other than the store is not carried over.",
		"What was stored = the entity as the pre-restart service reports it after the API calls (deep-copied), or the instance handed to the repo's Store.Set, or - for older formats - what Go's encoding/json (independent of the repo's goccy/go-json) reads from the raw document.",
		"nil and empty maps/slices/positions are treated as equal (indistinguishable through the API); timestamps are compared as instants (time.Equal).",
		"Only valid Unicode is demanded of string fields; Go strings holding invalid UTF-8 and zones with sub-minute offsets are exercised and recorded as observations, never flagged.",
		"A pipeline stored as running must be reported system-stopped by pipeline.Service.Init and be picked by the real lifecycle.Service.Init (v1 and v2); no connector plugin exists in the rig, so the Start it attempts fails while building nodes - the attempt (its first pipelines.Get) is what is observed.",
		"connector.Persister path is driven as Source.Ack does (lock instance, set State, Persister.Persist, Flush, WaitPendingWrites) without a running plugin; persisted DLQ connectors (ProvisionTypeDLQ), which Init deletes on purpose, are not generated.",
		"IDs follow the API's id alphabet; names/descriptions are cut to the lengths the API accepts; 1 MiB values are used in settings, error text, condition, plugin and positions.",
	}
}

func (*prop) NumCases(tier string) int { return len(plan(tier)) }

func (*prop) CaseTimeout() time.Duration { return 5 * time.Minute }

func (*prop) RunCase(seed int64, tier string, idx int) vp.CaseResult {
	pl := plan(tier)
	if idx < 0 || idx >= len(pl) {
		return vp.CaseResult{Inconclusive: "index out of plan"}
	}
	c := pl[idx]
	rng := rand.New(rand.NewSource(seed*1_000_000 + int64(idx)))
	a := newAcc(idx, c.family)
	thorough := tier == "thorough"
	switch c.family {
	case "pos-single":
		runPositions(a, c.path, singleBytes())
	case "pos-pair":
		if thorough {
			runPositions(a, c.path, pairChunk(c.n))
		} else {
			runPositions(a, c.path, stratifiedPairs())
		}
	case "pos-special":
		var ps [][]byte
		for _, s := range specialPositions(rng, c.n == 0) {
			ps = append(ps, s.b)
		}
		for i := 0; i < 96; i++ {
			ps = append(ps, randomPosition(rng))
		}
		runPositions(a, c.path, ps)
	case "str-special":
		all := specialStrings(c.sub == "long-1MiB")
		if c.sub == "long-1MiB" {
			var long []namedString
			for _, s := range all {
				if len(s.s) >= longThreshold {
					long = append(long, s)
				}
			}
			all = long
		}
		runStrings(a, all)
	case "str-random":
		var vals []namedString
		for i := 0; i < 64; i++ {
			n := 1 + rng.Intn(48)
			if i%16 == 0 {
				n = 2000 + rng.Intn(2000)
			}
			vals = append(vals, namedString{"random", randomUnicode(rng, n)})
		}
		runStrings(a, vals)
	case "str-sweep":
		var vals []namedString
		for _, s := range sweepStrings(c.n) {
			vals = append(vals, namedString{"sweep", s})
		}
		a.inc("code_points_swept", func() int64 {
			var n int64
			for _, v := range vals {
				n += int64(len([]rune(v.s)))
			}
			return n
		}())
		runStrings(a, vals)
	case "str-invalid":
		runStrings(a, invalidStrings())
	case "status":
		runStatus(a, rng)
	case "time":
		runTimes(a, rng, c.n > 0 && c.n%2 == 1)
	case "ints":
		runInts(a, rng)
	case "refs":
		big := 1000
		if c.n > 0 {
			big = 200 + rng.Intn(1400)
		}
		runRefs(a, rng, big)
	case "old-pre041":
		runPre041(a, rng, 48)
	case "old-golden":
		runGoldenMinus(a, rng, 96)
	case "mix":
		steps := 60 + rng.Intn(120)
		runMix(a, rng, c.badger, steps)
	default:
		a.inconclusive = "unknown family " + c.family
	}
	return a.result(c.sig())
}
