package c17

import (
	"bytes"
	"encoding/json" // deliberately the standard library: an encoder/decoder independent of the repo's goccy/go-json
	"fmt"
	"math/rand"
	"os"
	"path/filepath"
	"sort"
	"strings"
	"time"

	"github.com/conduitio/conduit/pkg/connector"
	"github.com/conduitio/conduit/pkg/pipeline"
	"github.com/conduitio/conduit/pkg/processor"
)

// encodeDoc renders a document the way some older writer could have: compact or
// indented, with or without HTML escaping (all are the same JSON value).
func encodeDoc(rng *rand.Rand, v any) []byte {
	var buf bytes.Buffer
	enc := json.NewEncoder(&buf)
	enc.SetEscapeHTML(rng.Intn(2) == 0)
	if rng.Intn(3) == 0 {
		enc.SetIndent("", "  ")
	}
	if err := enc.Encode(v); err != nil {
		panic(err)
	}
	return bytes.TrimRight(buf.Bytes(), "\n")
}

// ---------------------------------------------------------------------------
// pre-v0.4.1 connector documents ("connector:connector:<id>", X-prefixed fields)

func runPre041(a *acc, rng *rand.Rand, n int) {
	a.path = "raw-document"
	r, err := newRig(a, false)
	if err != nil {
		a.inconclusive = err.Error()
		return
	}
	defer r.close()
	specials := specialStrings(false)
	var sample string
	for i := 0; i < n; i++ {
		id := fmt.Sprintf("old-pipeline:conn-%03d", i)
		isSrc := rng.Intn(2) == 0
		exp := connSnap{ID: id, Type: connector.TypeDestination}
		typeName := "Destination"
		if isSrc {
			exp.Type, typeName = connector.TypeSource, "Source"
		}
		exp.Name = nonEmpty(randomString(rng, specials))
		exp.Plugin = nonEmpty(randomString(rng, specials))
		exp.PipelineID = nonEmpty(randomString(rng, specials))
		xcfg := map[string]any{"Name": exp.Name, "Plugin": exp.Plugin, "PipelineID": exp.PipelineID}
		switch rng.Intn(4) {
		case 0: // key absent
			a.set("old_formats", "pre-0.4.1 without Settings")
		case 1:
			xcfg["Settings"] = nil
		default:
			exp.Settings = map[string]string{"path": "./example.in"}
			for k := rng.Intn(4); k > 0; k-- {
				exp.Settings[randomString(rng, specials)] = randomString(rng, specials)
			}
			xcfg["Settings"] = exp.Settings
		}
		switch rng.Intn(4) {
		case 0:
			a.set("old_formats", "pre-0.4.1 without ProcessorIDs")
		case 1:
			xcfg["ProcessorIDs"] = nil
		default:
			for k := rng.Intn(5); k > 0; k-- {
				exp.ProcessorIDs = append(exp.ProcessorIDs, randomString(rng, specials))
			}
			xcfg["ProcessorIDs"] = exp.ProcessorIDs
		}
		data := map[string]any{"XID": id, "XConfig": xcfg}
		exp.StateType = "nil"
		switch rng.Intn(6) {
		case 0:
			a.set("old_formats", "pre-0.4.1 without XState")
		case 1:
			data["XState"] = nil
		case 2: // the shape the repo's own migration test uses
			if isSrc {
				data["XState"] = map[string]any{"Position": nil}
				exp.StateType = "SourceState"
			} else {
				data["XState"] = map[string]any{"Positions": nil}
				exp.StateType = "DestinationState"
			}
		default:
			if isSrc {
				exp.Position = randomPosition(rng)
				exp.StateType = "SourceState"
				data["XState"] = map[string]any{"Position": exp.Position} // []byte -> base64, as ever
			} else {
				exp.Positions = map[string][]byte{}
				for k := 1 + rng.Intn(3); k > 0; k-- {
					exp.Positions[fmt.Sprintf("old-pipeline:src-%d", k)] = randomPosition(rng)
				}
				exp.StateType = "DestinationState"
				data["XState"] = map[string]any{"Positions": exp.Positions}
			}
		}
		if rng.Intn(4) != 0 {
			exp.ProvisionedBy = rng.Intn(2)
			data["XProvisionedBy"] = exp.ProvisionedBy
		} else {
			a.set("old_formats", "pre-0.4.1 without XProvisionedBy")
		}
		exp.CreatedAt, exp.UpdatedAt = randomTime(rng), randomTime(rng)
		if i == 0 {
			exp.CreatedAt = time.Date(2022, 12, 21, 16, 53, 52, 159532000, time.FixedZone("", 3600))
		}
		data["XCreatedAt"], data["XUpdatedAt"] = exp.CreatedAt, exp.UpdatedAt
		doc := encodeDoc(rng, map[string]any{"Type": typeName, "Data": data})
		if i == 0 {
			sample = trunc(string(doc), 300)
		}
		if err := r.db.Set(r.ctx, pre041Prefix+id, doc); err != nil {
			a.inconclusive = "db.Set: " + err.Error()
			return
		}
		r.storeConns[id] = exp
		a.inc("old_format_docs", 1)
		a.set("old_formats", "pre-0.4.1 connector:connector: "+typeName)
		a.set("write_paths", "database.DB.Set (raw older-format document)")
	}
	a.sample = map[string]any{"family": a.family, "docs": n, "first_document": sample}
	if r.restart() { // NewStore migrates, Init loads
		r.restart() // the migrated documents are read again in the current format
	}
}

// ---------------------------------------------------------------------------
// the repo's golden documents with optional / later-added fields removed

var embeddedGolden = map[string]string{
	"source":      `{"ID":"golden-source","Type":1,"Config":{"Name":"golden-source-connector","Settings":{"path":"/data/in"}},"PipelineID":"golden-pipeline","Plugin":"builtin:file","ProcessorIDs":["proc-1","proc-2"],"State":{"Position":"Z29sZGVuLXBvc2l0aW9uLTQy"},"ProvisionedBy":1,"CreatedAt":"2026-06-15T09:30:00Z","UpdatedAt":"2026-06-15T09:31:00Z","LastActiveConfig":{"Name":"golden-source-connector","Settings":{"path":"/data/in"}}}`,
	"destination": `{"ID":"golden-destination","Type":2,"Config":{"Name":"golden-destination-connector","Settings":{"path":"/data/out"}},"PipelineID":"golden-pipeline","Plugin":"builtin:file","ProcessorIDs":["proc-3"],"State":{"Positions":{"golden-source":"Z29sZGVuLXBvc2l0aW9uLTQy"}},"ProvisionedBy":1,"CreatedAt":"2026-06-15T09:30:00Z","UpdatedAt":"2026-06-15T09:31:00Z","LastActiveConfig":{"Name":"golden-destination-connector","Settings":{"path":"/data/out"}}}`,
	"pipeline":    `{"ID":"golden-pipeline","Config":{"Name":"golden-pipeline-name","Description":"golden pipeline for pre-flip format test"},"Error":"","CreatedAt":"2026-06-15T09:30:00Z","UpdatedAt":"2026-06-15T09:31:00Z","ProvisionedBy":1,"DLQ":{"Plugin":"builtin:log","Settings":{"level":"warn"},"WindowSize":101,"WindowNackThreshold":100},"ConnectorIDs":["golden-source","golden-destination"],"ProcessorIDs":["golden-processor"],"Status":1}`,
	"processor":   `{"ID":"golden-processor","CreatedAt":"2026-06-15T09:30:00Z","UpdatedAt":"2026-06-15T09:31:00Z","ProvisionedBy":1,"Plugin":"builtin:field.set","Condition":"{{ eq .Metadata[\"key\"] \"value\" }}","Parent":{"ID":"golden-pipeline","Type":2},"Config":{"Settings":{"field":"value"},"Workers":4}}`,
}

var goldenFiles = map[string]string{
	"source":      "pkg/connector/testdata/golden_source_instance.json",
	"destination": "pkg/connector/testdata/golden_destination_instance.json",
	"pipeline":    "pkg/pipeline/testdata/golden_pipeline_instance.json",
	"processor":   "pkg/processor/testdata/golden_processor_instance.json",
}

func loadGolden(a *acc, kind string) map[string]any {
	repo := os.Getenv("VERIF_REPO")
	if repo == "" {
		repo = "/repo"
	}
	raw, err := os.ReadFile(filepath.Join(repo, goldenFiles[kind]))
	src := "repo-testdata"
	if err != nil {
		raw, src = []byte(embeddedGolden[kind]), "embedded-copy"
	}
	a.set("golden_sources", src)
	dec := json.NewDecoder(bytes.NewReader(raw))
	dec.UseNumber()
	var m map[string]any
	if err := dec.Decode(&m); err != nil {
		m = nil
		json.Unmarshal([]byte(embeddedGolden[kind]), &m)
	}
	return m
}

// removable lists, per kind, the fields a document of an older version may lack
// (added later, or omitted when unset). "A.B" is a nested field.
var removable = map[string][]string{
	"source":      {"Config.Settings", "ProcessorIDs", "State", "ProvisionedBy", "CreatedAt", "UpdatedAt", "LastActiveConfig", "LastActiveConfig.Settings"},
	"destination": {"Config.Settings", "ProcessorIDs", "State", "ProvisionedBy", "CreatedAt", "UpdatedAt", "LastActiveConfig", "LastActiveConfig.Settings"},
	"pipeline":    {"Config.Description", "Error", "CreatedAt", "UpdatedAt", "ProvisionedBy", "DLQ", "DLQ.Settings", "DLQ.WindowSize", "DLQ.WindowNackThreshold", "ConnectorIDs", "ProcessorIDs"},
	"processor":   {"CreatedAt", "UpdatedAt", "ProvisionedBy", "Condition", "Config.Settings", "Config.Workers", "Config"},
}

func sub(m map[string]any, k string) map[string]any {
	s, _ := m[k].(map[string]any)
	return s
}

func removeField(m map[string]any, path string) {
	parts := strings.SplitN(path, ".", 2)
	if len(parts) == 1 {
		delete(m, path)
		return
	}
	if s := sub(m, parts[0]); s != nil {
		delete(s, parts[1])
	}
}

// mirror structs: what an independent reader finds in a document
type mirrorCfg struct {
	Name     string
	Settings map[string]string
}
type mirrorConn struct {
	ID           string
	Type         int
	Config       mirrorCfg
	PipelineID   string
	Plugin       string
	ProcessorIDs []string
	State        *struct {
		Position  []byte
		Positions map[string][]byte
	}
	ProvisionedBy    int
	CreatedAt        time.Time
	UpdatedAt        time.Time
	LastActiveConfig mirrorCfg
}
type mirrorPipe struct {
	ID     string
	Config struct {
		Name        string
		Description string
	}
	Error         string
	CreatedAt     time.Time
	UpdatedAt     time.Time
	ProvisionedBy int
	DLQ           struct {
		Plugin              string
		Settings            map[string]string
		WindowSize          int
		WindowNackThreshold int
	}
	ConnectorIDs []string
	ProcessorIDs []string
	Status       int
}
type mirrorProc struct {
	ID            string
	CreatedAt     time.Time
	UpdatedAt     time.Time
	ProvisionedBy int
	Plugin        string
	Condition     string
	Parent        struct {
		ID   string
		Type int
	}
	Config struct {
		Settings map[string]string
		Workers  int
	}
}

func runGoldenMinus(a *acc, rng *rand.Rand, n int) {
	a.path = "raw-document"
	r, err := newRig(a, false)
	if err != nil {
		a.inconclusive = err.Error()
		return
	}
	defer r.close()
	specials := specialStrings(false)
	kinds := []string{"source", "destination", "pipeline", "processor"}
	randSettings := func() map[string]any {
		out := map[string]any{}
		for k := 1 + rng.Intn(3); k > 0; k-- {
			out[randomString(rng, specials)] = randomString(rng, specials)
		}
		return out
	}
	var sample string
	for i := 0; i < n; i++ {
		kind := kinds[i%4]
		doc := loadGolden(a, kind)
		if doc == nil {
			a.inconclusive = "golden document unreadable"
			return
		}
		id := fmt.Sprintf("%s-%03d", doc["ID"], i)
		doc["ID"] = id
		// vary the values the document carries
		if i >= 8 {
			switch kind {
			case "source":
				sub(doc, "Config")["Settings"] = randSettings()
				doc["State"] = map[string]any{"Position": randomPosition(rng)}
				doc["Plugin"] = nonEmpty(randomString(rng, specials))
			case "destination":
				sub(doc, "LastActiveConfig")["Settings"] = randSettings()
				doc["State"] = map[string]any{"Positions": map[string]any{randomString(rng, specials): randomPosition(rng), "golden-source": randomPosition(rng)}}
				doc["ProcessorIDs"] = []string{randomString(rng, specials), "proc-3", "proc-1"}
			case "pipeline":
				doc["Status"] = int(allStatuses[rng.Intn(len(allStatuses))])
				doc["Error"] = randomString(rng, specials)
				sub(doc, "DLQ")["Settings"] = randSettings()
				sub(doc, "DLQ")["WindowSize"] = randomInt(rng)
				sub(doc, "Config")["Name"] = fmt.Sprintf("golden-%d-%s", i, randomString(rng, specials))
			case "processor":
				doc["Condition"] = randomString(rng, specials)
				sub(doc, "Config")["Settings"] = randSettings()
				sub(doc, "Config")["Workers"] = randomInt(rng)
			}
			doc["CreatedAt"] = randomTime(rng)
		} else if kind == "pipeline" {
			sub(doc, "Config")["Name"] = fmt.Sprintf("golden-pipeline-name-%d", i)
		}
		// remove fields: none for the first round, then each single field, then random subsets
		rem := removable[kind]
		var removed []string
		round := i / 4
		switch {
		case round == 0:
		case round-1 < len(rem):
			removed = []string{rem[round-1]}
		default:
			for _, f := range rem {
				if rng.Intn(3) == 0 {
					removed = append(removed, f)
				}
			}
		}
		for _, f := range removed {
			removeField(doc, f)
			a.set("old_formats", "golden "+kind+" without "+f)
		}
		if len(removed) == 0 {
			a.set("old_formats", "golden "+kind+" as committed")
		}
		if rng.Intn(4) == 0 {
			doc["FieldOfAnOlderVersion"] = map[string]any{"x": 1, "y": []string{"z"}}
			a.set("old_formats", "golden "+kind+" with an unknown extra field")
		}
		raw := encodeDoc(rng, doc)
		if sample == "" && len(removed) > 0 {
			sample = trunc(string(raw), 300)
		}
		var key string
		switch kind {
		case "source", "destination":
			var m mirrorConn
			if err := json.Unmarshal(raw, &m); err != nil {
				a.inconclusive = "mirror decode: " + err.Error()
				return
			}
			exp := connSnap{ID: m.ID, Type: connector.Type(m.Type), Name: m.Config.Name, Settings: m.Config.Settings, PipelineID: m.PipelineID, Plugin: m.Plugin,
				ProcessorIDs: m.ProcessorIDs, ProvisionedBy: m.ProvisionedBy, CreatedAt: m.CreatedAt, UpdatedAt: m.UpdatedAt,
				LACName: m.LastActiveConfig.Name, LACSettings: m.LastActiveConfig.Settings, StateType: "nil"}
			if m.State != nil {
				if m.Type == 1 {
					exp.StateType, exp.Position = "SourceState", m.State.Position
				} else {
					exp.StateType, exp.Positions = "DestinationState", m.State.Positions
				}
			}
			r.storeConns[id] = exp
			key = connKeyPrefix + id
		case "pipeline":
			var m mirrorPipe
			if err := json.Unmarshal(raw, &m); err != nil {
				a.inconclusive = "mirror decode: " + err.Error()
				return
			}
			r.storePipes[id] = pipeSnap{ID: m.ID, Name: m.Config.Name, Description: m.Config.Description, Error: m.Error, Status: pipeline.Status(m.Status),
				CreatedAt: m.CreatedAt, UpdatedAt: m.UpdatedAt, ProvisionedBy: m.ProvisionedBy, DLQPlugin: m.DLQ.Plugin, DLQSettings: m.DLQ.Settings,
				DLQWindow: m.DLQ.WindowSize, DLQThreshold: m.DLQ.WindowNackThreshold, ConnectorIDs: m.ConnectorIDs, ProcessorIDs: m.ProcessorIDs}
			key = pipeKeyPrefix + id
		case "processor":
			var m mirrorProc
			if err := json.Unmarshal(raw, &m); err != nil {
				a.inconclusive = "mirror decode: " + err.Error()
				return
			}
			r.storeProcs[id] = procSnap{ID: m.ID, CreatedAt: m.CreatedAt, UpdatedAt: m.UpdatedAt, ProvisionedBy: m.ProvisionedBy, Plugin: m.Plugin, Condition: m.Condition,
				ParentID: m.Parent.ID, ParentType: processor.ParentType(m.Parent.Type), Settings: m.Config.Settings, Workers: m.Config.Workers}
			key = procKeyPrefix + id
		}
		if err := r.db.Set(r.ctx, key, raw); err != nil {
			a.inconclusive = "db.Set: " + err.Error()
			return
		}
		a.inc("old_format_docs", 1)
		a.set("write_paths", "database.DB.Set (raw older-format document)")
	}
	fs := make([]string, 0)
	for f := range a.sets["old_formats"] {
		fs = append(fs, f)
	}
	sort.Strings(fs)
	a.sample = map[string]any{"family": a.family, "docs": n, "a_document": sample}
	r.restart()
}
