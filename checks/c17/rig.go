package c17

import (
	"context"
	"errors"
	"fmt"
	"os"
	"path/filepath"
	"sort"
	"time"

	"github.com/conduitio/conduit-commons/database"
	"github.com/conduitio/conduit-commons/database/badger"
	"github.com/conduitio/conduit-commons/database/inmemory"
	"github.com/conduitio/conduit-commons/opencdc"
	sdk "github.com/conduitio/conduit-processor-sdk"
	"github.com/conduitio/conduit/pkg/connector"
	"github.com/conduitio/conduit/pkg/foundation/log"
	"github.com/conduitio/conduit/pkg/lifecycle"
	lifecyclev2 "github.com/conduitio/conduit/pkg/lifecycle-poc"
	"github.com/conduitio/conduit/pkg/pipeline"
	connectorPlugin "github.com/conduitio/conduit/pkg/plugin/connector"
	"github.com/conduitio/conduit/pkg/plugin/processor/egress"
	"github.com/conduitio/conduit/pkg/processor"
	"github.com/rs/zerolog"
)

const (
	connKeyPrefix = "connector:instance:"
	pipeKeyPrefix = "pipeline:instance:"
	procKeyPrefix = "processor:instance:"
	pre041Prefix  = "connector:connector:"
)

// ---------------------------------------------------------------------------
// fakes at the plugin boundary (no plugin is ever run by this check)

type noopProc struct{ sdk.UnimplementedProcessor }

func (noopProc) Teardown(context.Context) error { return nil }

type fakeProcRegistry struct{}

func (fakeProcRegistry) NewProcessor(context.Context, string, string, egress.Policy) (sdk.Processor, error) {
	return noopProc{}, nil
}

var errNoPlugins = errors.New("c17: no connector plugins in this rig")

type fakeConnPlugins struct{}

func (fakeConnPlugins) NewDispenser(log.CtxLogger, string, string) (connectorPlugin.Dispenser, error) {
	return nil, errNoPlugins
}

// recPipes is the real pipeline.Service; it only records which pipeline IDs the
// lifecycle service fetches (the first thing lifecycle.Service.Start does).
type recPipes struct {
	*pipeline.Service
	fetched map[string]int
}

func (r *recPipes) Get(ctx context.Context, id string) (*pipeline.Instance, error) {
	r.fetched[id]++
	return r.Service.Get(ctx, id)
}

// ---------------------------------------------------------------------------
// snapshots: deep copies of every exported field of the three entities

type connSnap struct {
	ID            string
	Type          connector.Type
	Name          string
	Settings      map[string]string
	PipelineID    string
	Plugin        string
	ProcessorIDs  []string
	StateType     string // "nil" | "SourceState" | "DestinationState" | Go type
	Position      []byte
	Positions     map[string][]byte
	ProvisionedBy int
	CreatedAt     time.Time
	UpdatedAt     time.Time
	LACName       string
	LACSettings   map[string]string
}

type pipeSnap struct {
	ID            string
	Name          string
	Description   string
	Error         string
	Status        pipeline.Status
	CreatedAt     time.Time
	UpdatedAt     time.Time
	ProvisionedBy int
	DLQPlugin     string
	DLQSettings   map[string]string
	DLQWindow     int
	DLQThreshold  int
	ConnectorIDs  []string
	ProcessorIDs  []string
}

type procSnap struct {
	ID            string
	CreatedAt     time.Time
	UpdatedAt     time.Time
	ProvisionedBy int
	Plugin        string
	Condition     string
	ParentID      string
	ParentType    processor.ParentType
	Settings      map[string]string
	Workers       int
}

func cpMap(m map[string]string) map[string]string {
	if m == nil {
		return nil
	}
	out := make(map[string]string, len(m))
	for k, v := range m {
		out[k] = v
	}
	return out
}

func cpSlice(s []string) []string {
	if s == nil {
		return nil
	}
	return append([]string{}, s...)
}

func cpBytes(b []byte) []byte {
	if b == nil {
		return nil
	}
	return append([]byte{}, b...)
}

func snapConn(i *connector.Instance) connSnap {
	s := connSnap{
		ID: i.ID, Type: i.Type, Name: i.Config.Name, Settings: cpMap(i.Config.Settings),
		PipelineID: i.PipelineID, Plugin: i.Plugin, ProcessorIDs: cpSlice(i.ProcessorIDs),
		ProvisionedBy: int(i.ProvisionedBy), CreatedAt: i.CreatedAt, UpdatedAt: i.UpdatedAt,
		LACName: i.LastActiveConfig.Name, LACSettings: cpMap(i.LastActiveConfig.Settings),
	}
	switch st := i.State.(type) {
	case nil:
		s.StateType = "nil"
	case connector.SourceState:
		s.StateType = "SourceState"
		s.Position = cpBytes(st.Position)
	case connector.DestinationState:
		s.StateType = "DestinationState"
		if st.Positions != nil {
			s.Positions = make(map[string][]byte, len(st.Positions))
			for k, v := range st.Positions {
				s.Positions[k] = cpBytes(v)
			}
		}
	default:
		s.StateType = fmt.Sprintf("%T", i.State)
	}
	return s
}

func snapPipe(i *pipeline.Instance) pipeSnap {
	return pipeSnap{
		ID: i.ID, Name: i.Config.Name, Description: i.Config.Description, Error: i.Error,
		Status: i.GetStatus(), CreatedAt: i.CreatedAt, UpdatedAt: i.UpdatedAt,
		ProvisionedBy: int(i.ProvisionedBy),
		DLQPlugin:     i.DLQ.Plugin, DLQSettings: cpMap(i.DLQ.Settings),
		DLQWindow: i.DLQ.WindowSize, DLQThreshold: i.DLQ.WindowNackThreshold,
		ConnectorIDs: cpSlice(i.ConnectorIDs), ProcessorIDs: cpSlice(i.ProcessorIDs),
	}
}

func snapProc(i *processor.Instance) procSnap {
	return procSnap{
		ID: i.ID, CreatedAt: i.CreatedAt, UpdatedAt: i.UpdatedAt, ProvisionedBy: int(i.ProvisionedBy),
		Plugin: i.Plugin, Condition: i.Condition, ParentID: i.Parent.ID, ParentType: i.Parent.Type,
		Settings: cpMap(i.Config.Settings), Workers: i.Config.Workers,
	}
}

// ---------------------------------------------------------------------------
// comparison of a stored snapshot with what the restarted server reports

func (a *acc) cmpConn(want, got connSnap) {
	c := &cmpCtx{a: a, entity: "connector", id: want.ID}
	c.str("ID", want.ID, got.ID)
	c.enum("Type", want.Type.String(), got.Type.String())
	c.str("Config.Name", want.Name, got.Name)
	c.strMap("Config.Settings", want.Settings, got.Settings)
	c.str("PipelineID", want.PipelineID, got.PipelineID)
	c.str("Plugin", want.Plugin, got.Plugin)
	c.strSlice("ProcessorIDs", want.ProcessorIDs, got.ProcessorIDs)
	c.enum("ProvisionedBy", fmt.Sprint(want.ProvisionedBy), fmt.Sprint(got.ProvisionedBy))
	c.timef("CreatedAt", want.CreatedAt, got.CreatedAt)
	c.timef("UpdatedAt", want.UpdatedAt, got.UpdatedAt)
	c.str("LastActiveConfig.Name", want.LACName, got.LACName)
	c.strMap("LastActiveConfig.Settings", want.LACSettings, got.LACSettings)
	// State: the dynamic type is part of what the server hands to the engine
	// (Source.state() type-asserts it).
	c.seen("State", want.StateType)
	a.set("state_kinds", want.StateType)
	if want.StateType != got.StateType {
		a.violate("connector", "State", want.StateType, "type-changed",
			fmt.Sprintf("connector %q: stored State of type %s, restarted server reports type %s", want.ID, want.StateType, got.StateType),
			c.cs("State", want.StateType, got.StateType))
		return
	}
	switch want.StateType {
	case "SourceState":
		c.bytesf("State.Position", want.Position, got.Position)
	case "DestinationState":
		c.bytesMap("State.Positions", want.Positions, got.Positions)
	}
}

func (a *acc) cmpPipe(want, got pipeSnap) {
	c := &cmpCtx{a: a, entity: "pipeline", id: want.ID}
	c.str("ID", want.ID, got.ID)
	c.str("Config.Name", want.Name, got.Name)
	c.str("Config.Description", want.Description, got.Description)
	c.str("Error", want.Error, got.Error)
	c.timef("CreatedAt", want.CreatedAt, got.CreatedAt)
	c.timef("UpdatedAt", want.UpdatedAt, got.UpdatedAt)
	c.enum("ProvisionedBy", fmt.Sprint(want.ProvisionedBy), fmt.Sprint(got.ProvisionedBy))
	c.str("DLQ.Plugin", want.DLQPlugin, got.DLQPlugin)
	c.strMap("DLQ.Settings", want.DLQSettings, got.DLQSettings)
	c.intf("DLQ.WindowSize", int64(want.DLQWindow), int64(got.DLQWindow))
	c.intf("DLQ.WindowNackThreshold", int64(want.DLQThreshold), int64(got.DLQThreshold))
	c.strSlice("ConnectorIDs", want.ConnectorIDs, got.ConnectorIDs)
	c.strSlice("ProcessorIDs", want.ProcessorIDs, got.ProcessorIDs)
	// status: running is to be found again as "to be resumed" (system-stopped
	// right after pipeline.Service.Init); every other status unchanged.
	c.seen("Status", want.Status.String())
	a.set("statuses", want.Status.String())
	a.inc("statuses_compared", 1)
	expect := want.Status
	if want.Status == pipeline.StatusRunning {
		expect = pipeline.StatusSystemStopped
		a.inc("running_pipelines_restarted", 1)
	}
	if got.Status != expect {
		kind := "value-changed"
		if want.Status == pipeline.StatusRunning {
			kind = "not-resumed"
		}
		a.violate("pipeline", "Status", want.Status.String(), kind,
			fmt.Sprintf("pipeline %q stored with status %s: restarted server reports %s, expected %s", want.ID, want.Status, got.Status, expect),
			c.cs("Status", want.Status.String(), got.Status.String()))
	}
}

func (a *acc) cmpProc(want, got procSnap) {
	c := &cmpCtx{a: a, entity: "processor", id: want.ID}
	c.str("ID", want.ID, got.ID)
	c.timef("CreatedAt", want.CreatedAt, got.CreatedAt)
	c.timef("UpdatedAt", want.UpdatedAt, got.UpdatedAt)
	c.enum("ProvisionedBy", fmt.Sprint(want.ProvisionedBy), fmt.Sprint(got.ProvisionedBy))
	c.str("Plugin", want.Plugin, got.Plugin)
	c.str("Condition", want.Condition, got.Condition)
	c.str("Parent.ID", want.ParentID, got.ParentID)
	c.enum("Parent.Type", want.ParentType.String(), got.ParentType.String())
	c.strMap("Config.Settings", want.Settings, got.Settings)
	c.intf("Config.Workers", int64(want.Workers), int64(got.Workers))
}

// ---------------------------------------------------------------------------
// the rig: real services on one database

type rig struct {
	a      *acc
	ctx    context.Context
	logger log.CtxLogger

	db        database.DB
	badgerDir string
	engine    string

	pers  *connector.Persister
	conns *connector.Service
	pipes *pipeline.Service
	procs *processor.Service

	// Entities written through the repo's own exported Store.Set because no
	// service API sets the field under test (timestamps, LastActiveConfig...).
	// They are not known to the running services, only to the store.
	storeConns map[string]connSnap
	storePipes map[string]pipeSnap
	storeProcs map[string]procSnap
	// raw documents (older formats) written with database.DB.Set, with the
	// snapshot an independent decoder derived from the document.
	restarts int
}

var badgerSeq int

func newRig(a *acc, useBadger bool) (*rig, error) {
	r := &rig{a: a, ctx: context.Background(), logger: log.Nop(),
		storeConns: map[string]connSnap{}, storePipes: map[string]pipeSnap{}, storeProcs: map[string]procSnap{}}
	if useBadger {
		base := os.Getenv("VERIF_WORKDIR")
		if base == "" {
			base = filepath.Join("/verif", ".work", "c17-one")
		}
		badgerSeq++
		dir := filepath.Join(base, fmt.Sprintf("badger-%d-%d-%d", os.Getpid(), a.idx, badgerSeq))
		os.RemoveAll(dir)
		if err := os.MkdirAll(dir, 0o755); err != nil {
			return nil, err
		}
		db, err := badger.New(zerolog.Nop(), dir)
		if err != nil {
			return nil, err
		}
		r.db, r.badgerDir, r.engine = db, dir, "badger"
	} else {
		r.db, r.engine = &inmemory.DB{}, "inmemory"
	}
	a.set("store_engines", r.engine)
	if err := r.boot(); err != nil {
		return nil, err
	}
	return r, nil
}

func (r *rig) close() {
	if r.badgerDir != "" {
		r.db.Close()
		os.RemoveAll(r.badgerDir)
	}
}

// boot builds FRESH service objects on r.db and initialises them in the order
// the runtime does (processors, connectors, pipelines).
func (r *rig) boot() error {
	r.pers = connector.NewPersister(r.logger, r.db, time.Hour, 1<<30) // flushed explicitly
	r.conns = connector.NewService(r.logger, r.db, r.pers)
	r.pipes = pipeline.NewService(r.logger, r.db)
	r.procs = processor.NewService(r.logger, r.db, fakeProcRegistry{})
	if err := r.procs.Init(r.ctx); err != nil {
		return fmt.Errorf("processor.Service.Init: %w", err)
	}
	if err := r.conns.Init(r.ctx); err != nil {
		return fmt.Errorf("connector.Service.Init: %w", err)
	}
	if err := r.pipes.Init(r.ctx); err != nil {
		return fmt.Errorf("pipeline.Service.Init: %w", err)
	}
	return nil
}

func (r *rig) flush() {
	r.pers.Flush(r.ctx)
	r.pers.WaitPendingWrites()
}

// persistState is the connector.Persister path a running Source/Destination
// uses (Source.Ack: lock, set State, Persister.Persist).
func (r *rig) persist(inst *connector.Instance, mutate func(*connector.Instance)) error {
	var cbErr error
	done := make(chan struct{})
	inst.Lock()
	mutate(inst)
	err := r.pers.Persist(r.ctx, inst, func(e error) { cbErr = e; close(done) })
	inst.Unlock()
	if err != nil {
		return err
	}
	r.flush()
	<-done
	return cbErr
}

func hasDoc(ctx context.Context, db database.DB, key string) bool {
	b, err := db.Get(ctx, key)
	return err == nil && len(b) > 0
}

// restart flushes the persister, forgets every service object, (re)opens the
// store, builds fresh services, Inits them and compares every entity with what
// was stored. It returns false when the restarted services are unusable.
func (r *rig) restart() bool {
	a := r.a
	r.flush()
	wantC := map[string]connSnap{}
	wantP := map[string]pipeSnap{}
	wantR := map[string]procSnap{}
	for id, i := range r.conns.List(r.ctx) {
		wantC[id] = snapConn(i)
	}
	for id, i := range r.pipes.List(r.ctx) {
		wantP[id] = snapPipe(i)
	}
	for id, i := range r.procs.List(r.ctx) {
		wantR[id] = snapProc(i)
	}
	for id, s := range r.storeConns {
		wantC[id] = s
	}
	for id, s := range r.storePipes {
		wantP[id] = s
	}
	for id, s := range r.storeProcs {
		wantR[id] = s
	}
	r.storeConns, r.storePipes, r.storeProcs = map[string]connSnap{}, map[string]pipeSnap{}, map[string]procSnap{}

	// non-vacuity: the documents really are in the store
	for id := range wantC {
		if hasDoc(r.ctx, r.db, connKeyPrefix+id) || hasDoc(r.ctx, r.db, pre041Prefix+id) {
			a.inc("docs_in_store", 1)
		}
	}
	for id := range wantP {
		if hasDoc(r.ctx, r.db, pipeKeyPrefix+id) {
			a.inc("docs_in_store", 1)
		}
	}
	for id := range wantR {
		if hasDoc(r.ctx, r.db, procKeyPrefix+id) {
			a.inc("docs_in_store", 1)
		}
	}

	if r.badgerDir != "" {
		if err := r.db.Close(); err != nil {
			a.inconclusive = "badger close: " + err.Error()
			return false
		}
		db, err := badger.New(zerolog.Nop(), r.badgerDir)
		if err != nil {
			a.inconclusive = "badger reopen: " + err.Error()
			return false
		}
		r.db = db
	}
	r.restarts++
	a.inc("restarts", 1)
	if err := r.boot(); err != nil {
		ent := "pipeline"
		switch {
		case len(err.Error()) >= 9 && err.Error()[:9] == "processor":
			ent = "processor"
		case len(err.Error()) >= 9 && err.Error()[:9] == "connector":
			ent = "connector"
		}
		a.violate(ent, "Init", a.family, "load-error",
			fmt.Sprintf("restarted services cannot load what was stored: %v", trunc(err.Error(), 400)),
			map[string]any{"error": trunc(err.Error(), 400)})
		return false
	}
	r.compare(wantC, wantP, wantR)
	return true
}

func trunc(s string, n int) string {
	if len(s) > n {
		return s[:n] + "..."
	}
	return s
}

func (r *rig) compare(wantC map[string]connSnap, wantP map[string]pipeSnap, wantR map[string]procSnap) {
	a := r.a
	gotC := r.conns.List(r.ctx)
	gotP := r.pipes.List(r.ctx)
	gotR := r.procs.List(r.ctx)
	missing := func(entity, id string) {
		a.violate(entity, "entity", a.family, "missing",
			fmt.Sprintf("%s %q was stored but the restarted server does not list it", entity, id),
			map[string]any{"entity": entity, "entity_id": id})
	}
	extra := func(entity, id string) {
		a.violate(entity, "entity", a.family, "extra-entity",
			fmt.Sprintf("%s %q is listed by the restarted server but was not stored (or was deleted) before the restart", entity, id),
			map[string]any{"entity": entity, "entity_id": id})
	}
	for _, id := range sortedKeys(wantC) {
		w := wantC[id]
		g, ok := gotC[id]
		g2, err := r.conns.Get(r.ctx, id)
		if !ok || err != nil || g2 != g {
			missing("connector", id)
			continue
		}
		a.inc("entities_roundtripped", 1)
		a.inc("connectors_roundtripped", 1)
		a.cmpConn(w, snapConn(g))
	}
	for id := range gotC {
		if _, ok := wantC[id]; !ok {
			extra("connector", id)
		}
	}
	for _, id := range sortedKeys(wantP) {
		w := wantP[id]
		g, ok := gotP[id]
		g2, err := r.pipes.Get(r.ctx, id)
		if !ok || err != nil || g2 != g {
			missing("pipeline", id)
			continue
		}
		a.inc("entities_roundtripped", 1)
		a.inc("pipelines_roundtripped", 1)
		a.cmpPipe(w, snapPipe(g))
	}
	for id := range gotP {
		if _, ok := wantP[id]; !ok {
			extra("pipeline", id)
		}
	}
	for _, id := range sortedKeys(wantR) {
		w := wantR[id]
		g, ok := gotR[id]
		g2, err := r.procs.Get(r.ctx, id)
		if !ok || err != nil || g2 != g {
			missing("processor", id)
			continue
		}
		a.inc("entities_roundtripped", 1)
		a.inc("processors_roundtripped", 1)
		a.cmpProc(w, snapProc(g))
	}
	for id := range gotR {
		if _, ok := wantR[id]; !ok {
			extra("processor", id)
		}
	}
}

func sortedKeys[V any](m map[string]V) []string {
	ks := make([]string, 0, len(m))
	for k := range m {
		ks = append(ks, k)
	}
	sort.Strings(ks)
	return ks
}

// lifecycleCheck runs the REAL lifecycle.Service.Init (v1 and v2 engines) on
// the restarted services. No connector plugin exists in this rig, so every
// Start fails while building nodes; what is observed is which pipelines Init
// tries to start: exactly those that were stored as running (or were already
// marked system-stopped), i.e. the ones "to be resumed".
func (r *rig) lifecycleCheck(resume map[string]bool) {
	a := r.a
	cfg := &lifecycle.ErrRecoveryCfg{MinDelay: time.Second, MaxDelay: time.Second, BackoffFactor: 2, MaxRetries: 0, MaxRetriesWindow: time.Second}
	for _, eng := range []string{"v1", "v2"} {
		rec := &recPipes{Service: r.pipes, fetched: map[string]int{}}
		before := map[string]pipeline.Status{}
		for id, p := range r.pipes.List(r.ctx) {
			before[id] = p.GetStatus()
		}
		var err error
		if eng == "v1" {
			err = lifecycle.NewService(r.logger, cfg, r.conns, r.procs, fakeConnPlugins{}, rec).Init(r.ctx)
		} else {
			err = lifecyclev2.NewService(r.logger, cfg, r.conns, r.procs, fakeConnPlugins{}, rec, true).Init(r.ctx)
		}
		_ = err // every Start fails (no plugins); the attempt is what counts
		a.inc("lifecycle_inits", 1)
		a.set("lifecycle_engines", eng)
		for id := range resume {
			a.inc("resume_expectations_checked", 1)
			if rec.fetched[id] == 0 {
				a.violate("pipeline", "Status", "Running", "not-resumed-by-lifecycle-"+eng,
					fmt.Sprintf("pipeline %q was stored as running/to-be-resumed, but lifecycle(%s).Service.Init did not try to start it after the restart (status now %s)", id, eng, before[id]),
					map[string]any{"entity": "pipeline", "entity_id": id, "engine": eng})
			} else {
				a.inc("resume_attempts_observed", 1)
			}
		}
		for id := range rec.fetched {
			if !resume[id] {
				a.violate("pipeline", "Status", before[id].String(), "resumed-without-being-running-"+eng,
					fmt.Sprintf("pipeline %q was stored with status %s, yet lifecycle(%s).Service.Init tried to start it after the restart", id, before[id], eng),
					map[string]any{"entity": "pipeline", "entity_id": id, "engine": eng})
			}
		}
		// the failed starts must not have rewritten the status
		for id, p := range r.pipes.List(r.ctx) {
			if p.GetStatus() != before[id] {
				a.set("lifecycle_status_rewrites", before[id].String()+"->"+p.GetStatus().String())
			}
		}
	}
}

// helpers to build typed states
func srcState(p []byte) connector.SourceState {
	return connector.SourceState{Position: opencdc.Position(p)}
}

func dstState(m map[string][]byte) connector.DestinationState {
	if m == nil {
		return connector.DestinationState{}
	}
	out := make(map[string]opencdc.Position, len(m))
	for k, v := range m {
		out[k] = opencdc.Position(v)
	}
	return connector.DestinationState{Positions: out}
}
