package c17

import (
	"bytes"
	"encoding/hex"
	"fmt"
	"sort"
	"strings"
	"time"
	"unicode"
	"unicode/utf8"

	"verif/internal/vp"
)

// acc accumulates what the monitors of one case observed.
type acc struct {
	idx    int
	family string
	path   string

	stats map[string]int64
	sets  map[string]map[string]struct{}

	viol      map[string]*vp.Violation
	violCount map[string]int
	violOrder []string

	inconclusive string
	sample       any
}

func newAcc(idx int, family string) *acc {
	return &acc{
		idx: idx, family: family,
		stats: map[string]int64{}, sets: map[string]map[string]struct{}{},
		viol: map[string]*vp.Violation{}, violCount: map[string]int{},
	}
}

func (a *acc) inc(k string, n int64) { a.stats[k] += n }

func (a *acc) set(k, v string) {
	m := a.sets[k]
	if m == nil {
		m = map[string]struct{}{}
		a.sets[k] = m
	}
	m[v] = struct{}{}
}

// observe records something that is NOT demanded by the property (e.g. a Go
// string holding invalid UTF-8 came back altered) so that the evidence shows it
// was seen and deliberately not flagged.
func (a *acc) observe(what string) {
	a.inc("observations_outside_property", 1)
	a.set("observations", what)
}

func (a *acc) violate(entity, field, class, kind, detail string, cs map[string]any) {
	id := fmt.Sprintf("C17/%s/%s/%s/%s", entity, field, class, kind)
	a.inc("violations_raw", 1)
	a.violCount[id]++
	if _, ok := a.viol[id]; ok {
		return
	}
	if cs == nil {
		cs = map[string]any{}
	}
	cs["index"] = a.idx
	cs["family"] = a.family
	if a.path != "" {
		cs["write_path"] = a.path
	}
	a.viol[id] = &vp.Violation{
		Property: "C17", Class: kind, Identity: id, Detail: detail, Case: cs,
	}
	a.violOrder = append(a.violOrder, id)
}

func (a *acc) result(sig string) vp.CaseResult {
	r := vp.CaseResult{Sig: sig, Stats: a.stats, Sets: map[string][]string{}, Sample: a.sample, Inconclusive: a.inconclusive}
	for k, m := range a.sets {
		vs := make([]string, 0, len(m))
		for v := range m {
			vs = append(vs, v)
		}
		sort.Strings(vs)
		r.Sets[k] = vs
	}
	for _, id := range a.violOrder {
		v := *a.viol[id]
		if n := a.violCount[id]; n > 1 {
			v.Detail += fmt.Sprintf(" (%d occurrences in this case)", n)
		}
		r.Violations = append(r.Violations, v)
	}
	r.Nontrivial = a.stats["fields_compared"] > 0 && a.stats["entities_roundtripped"] > 0
	return r
}

// ---------------------------------------------------------------------------
// value classification (derived from the stored value itself, so that the
// identity of a violation names the class of value that broke, not a seed)

const longThreshold = 64 << 10

func classifyString(s string) string {
	if !utf8.ValidString(s) {
		return "invalid-utf8"
	}
	if s == "" {
		return "empty"
	}
	if len(s) >= longThreshold {
		return "long"
	}
	var nul, ctl, lsps, html, quote, repl, surAdj, nonchar, maxcp, bidi, comb bool
	maxPlane := 0
	ascii := true
	for _, r := range s {
		switch {
		case r == 0:
			nul = true
		case r < 0x20 || r == 0x7f || (r >= 0x80 && r <= 0x9f):
			ctl = true
		case r == 0x2028 || r == 0x2029:
			lsps = true
		case r == '<' || r == '>' || r == '&':
			html = true
		case r == '"' || r == '\'' || r == '\\' || r == '`':
			quote = true
		case r == 0xfffd:
			repl = true
		case r == 0xd7ff || r == 0xe000:
			surAdj = true
		case r == 0x10ffff:
			maxcp = true
		case r&0xfffe == 0xfffe || (r >= 0xfdd0 && r <= 0xfdef):
			nonchar = true
		case (r >= 0x590 && r <= 0x8ff) || r == 0x200e || r == 0x200f || (r >= 0x202a && r <= 0x202e) || (r >= 0x2066 && r <= 0x2069) || (r >= 0xfb1d && r <= 0xfdff) || (r >= 0xfe70 && r <= 0xfeff):
			bidi = true
		case unicode.Is(unicode.Mn, r) || unicode.Is(unicode.Me, r) || r == 0x200d:
			comb = true
		}
		if r >= 0x80 {
			ascii = false
		}
		if p := int(r >> 16); p > maxPlane {
			maxPlane = p
		}
	}
	switch {
	case nul:
		return "nul"
	case lsps:
		return "ls-ps"
	case ctl:
		return "control"
	case surAdj:
		return "surrogate-adjacent"
	case repl:
		return "replacement-char"
	case maxcp:
		return "max-codepoint"
	case nonchar:
		return "noncharacter"
	case html:
		return "html"
	case quote:
		return "quote-backslash"
	case maxPlane > 0:
		return fmt.Sprintf("plane-%d", maxPlane)
	case bidi:
		return "rtl-bidi"
	case comb:
		return "combining"
	case ascii:
		return "ascii"
	}
	return "bmp"
}

func classifyBytes(b []byte) string {
	switch {
	case b == nil:
		return "nil"
	case len(b) == 0:
		return "empty"
	case len(b) == 1:
		return "single-byte"
	case len(b) == 2:
		return "byte-pair"
	case len(b) >= longThreshold:
		return "long"
	case bytes.IndexByte(b, 0) >= 0:
		return "has-nul"
	case !utf8.Valid(b):
		return "non-utf8-binary"
	}
	return "utf8-text"
}

func classifyInt(v int64) string {
	switch {
	case v == 0:
		return "zero"
	case v == 1:
		return "one"
	case v == 1<<63-1:
		return "max-int64"
	case v == -1<<63:
		return "min-int64"
	case v < 0:
		return "negative"
	case v > 1<<53:
		return "above-2^53"
	case v > 1<<31:
		return "above-2^31"
	}
	return "small"
}

func classifyTime(t time.Time) string {
	var parts []string
	if t.IsZero() {
		return "zero-time"
	}
	if t.Year() >= 9999 {
		parts = append(parts, "year-9999")
	} else if t.Year() < 1970 {
		parts = append(parts, "pre-1970")
	}
	if _, off := t.Zone(); off != 0 {
		if off%60 != 0 {
			parts = append(parts, "sub-minute-zone")
		} else if off%3600 != 0 {
			parts = append(parts, "odd-minute-zone")
		} else {
			parts = append(parts, "non-utc")
		}
	}
	if t.Nanosecond()%1000 != 0 {
		parts = append(parts, "ns")
	} else if t.Nanosecond() != 0 {
		parts = append(parts, "subsecond")
	}
	if len(parts) == 0 {
		return "plain-utc"
	}
	return strings.Join(parts, "+")
}

func refsClass(n int) string {
	switch {
	case n == 0:
		return "refs-0"
	case n == 1:
		return "refs-1"
	case n < 10:
		return "refs-2..9"
	case n < 1000:
		return "refs-10..999"
	}
	return "refs-1000+"
}

// ---------------------------------------------------------------------------
// truncating renderers for witnesses

func showStr(s string) string {
	const lim = 96
	q := fmt.Sprintf("%+q", s)
	if len(q) > lim {
		q = q[:lim] + fmt.Sprintf("...(%d bytes)", len(s))
	}
	return q
}

func showBytes(b []byte) string {
	if b == nil {
		return "nil"
	}
	if len(b) > 32 {
		return hex.EncodeToString(b[:32]) + fmt.Sprintf("...(%d bytes)", len(b))
	}
	return "0x" + hex.EncodeToString(b)
}

// ---------------------------------------------------------------------------
// field comparers

type cmpCtx struct {
	a      *acc
	entity string
	id     string
}

func (c *cmpCtx) cs(field string, want, got string) map[string]any {
	return map[string]any{"entity": c.entity, "entity_id": c.id, "field": field, "stored": want, "read_back": got}
}

func (c *cmpCtx) seen(field, class string) {
	c.a.inc("fields_compared", 1)
	c.a.set("value_classes", c.entity+"."+field+":"+class)
}

func firstRuneDiff(w, g string) string {
	i := 0
	for i < len(w) && i < len(g) && w[i] == g[i] {
		i++
	}
	// back up to a rune start in w
	j := i
	for j > 0 && j < len(w) && !utf8.RuneStart(w[j]) {
		j--
	}
	var wr, gr string
	if j < len(w) {
		r, _ := utf8.DecodeRuneInString(w[j:])
		wr = fmt.Sprintf("U+%04X", r)
	} else {
		wr = "<end>"
	}
	if j < len(g) {
		e := j + 12
		if e > len(g) {
			e = len(g)
		}
		gr = fmt.Sprintf("%+q", g[j:e])
	} else {
		gr = "<end>"
	}
	return fmt.Sprintf("first difference at byte %d: stored %s, read back starts %s", j, wr, gr)
}

func (c *cmpCtx) str(field, want, got string) {
	class := classifyString(want)
	c.seen(field, class)
	c.a.inc("string_values", 1)
	c.a.set("string_classes", class)
	if want == got {
		return
	}
	if class == "invalid-utf8" {
		c.a.observe("invalid-utf8 Go string in " + c.entity + "." + field + " read back altered (outside 'any Unicode text')")
		return
	}
	kind := "value-changed"
	switch {
	case got == "":
		kind = "lost"
	case strings.HasPrefix(want, got):
		kind = "truncated"
	}
	c.a.violate(c.entity, field, class, kind,
		fmt.Sprintf("%s %q field %s: stored %s, restarted server reports %s; %s", c.entity, c.id, field, showStr(want), showStr(got), firstRuneDiff(want, got)),
		c.cs(field, showStr(want), showStr(got)))
}

func (c *cmpCtx) bytesf(field string, want, got []byte) {
	class := classifyBytes(want)
	c.seen(field, class)
	c.a.inc("position_values", 1)
	c.a.set("position_classes", class)
	if bytes.Equal(want, got) { // nil == empty here, deliberately
		return
	}
	kind := "bytes-changed"
	switch {
	case len(got) == 0:
		kind = "lost"
	case len(got) != len(want):
		kind = "length-changed"
	}
	c.a.violate(c.entity, field, class, kind,
		fmt.Sprintf("%s %q field %s: stored %s, restarted server reports %s", c.entity, c.id, field, showBytes(want), showBytes(got)),
		c.cs(field, showBytes(want), showBytes(got)))
}

func (c *cmpCtx) intf(field string, want, got int64) {
	class := classifyInt(want)
	c.seen(field, class)
	c.a.inc("int_values", 1)
	if want == got {
		return
	}
	c.a.violate(c.entity, field, class, "value-changed",
		fmt.Sprintf("%s %q field %s: stored %d, restarted server reports %d", c.entity, c.id, field, want, got),
		c.cs(field, fmt.Sprint(want), fmt.Sprint(got)))
}

// enum compares a small enumerated value; the class is the value's name.
func (c *cmpCtx) enum(field, wantName, gotName string) {
	c.seen(field, wantName)
	if wantName == gotName {
		return
	}
	c.a.violate(c.entity, field, wantName, "value-changed",
		fmt.Sprintf("%s %q field %s: stored %s, restarted server reports %s", c.entity, c.id, field, wantName, gotName),
		c.cs(field, wantName, gotName))
}

func (c *cmpCtx) timef(field string, want, got time.Time) {
	class := classifyTime(want)
	c.seen(field, class)
	c.a.inc("time_values", 1)
	c.a.set("time_classes", class)
	if want.Equal(got) {
		return
	}
	if strings.Contains(class, "sub-minute-zone") {
		// RFC 3339 cannot express a zone offset with seconds; Go's own
		// time.Time.MarshalJSON loses them. No server-side clock produces such a
		// zone; recorded, not flagged.
		c.a.observe("timestamp in a zone with a sub-minute UTC offset read back as another instant (RFC 3339 limit of time.Time JSON)")
		return
	}
	c.a.violate(c.entity, field, class, "instant-changed",
		fmt.Sprintf("%s %q field %s: stored %s, restarted server reports %s (delta %s)", c.entity, c.id, field,
			want.Format(time.RFC3339Nano), got.Format(time.RFC3339Nano), got.Sub(want)),
		c.cs(field, want.Format(time.RFC3339Nano), got.Format(time.RFC3339Nano)))
}

func (c *cmpCtx) strSlice(field string, want, got []string) {
	class := refsClass(len(want))
	c.seen(field, class)
	c.a.inc("reference_lists", 1)
	c.a.inc("references_compared", int64(len(want)))
	c.a.set("reference_classes", class)
	if len(want) != len(got) {
		c.a.violate(c.entity, field, class, "length-changed",
			fmt.Sprintf("%s %q field %s: stored %d references, restarted server reports %d", c.entity, c.id, field, len(want), len(got)),
			c.cs(field, fmt.Sprint(len(want)), fmt.Sprint(len(got))))
		return
	}
	same := true
	for i := range want {
		if want[i] != got[i] {
			same = false
			break
		}
	}
	if same {
		for _, w := range want {
			// count the element strings as compared values too
			c.a.set("string_classes", classifyString(w))
		}
		return
	}
	// same multiset, different order?
	ws := append([]string(nil), want...)
	gs := append([]string(nil), got...)
	sort.Strings(ws)
	sort.Strings(gs)
	perm := true
	for i := range ws {
		if ws[i] != gs[i] {
			perm = false
			break
		}
	}
	if perm {
		first := 0
		for first < len(want) && want[first] == got[first] {
			first++
		}
		c.a.violate(c.entity, field, class, "order-changed",
			fmt.Sprintf("%s %q field %s: the %d references come back in another order (first difference at index %d: stored %s, read back %s)",
				c.entity, c.id, field, len(want), first, showStr(want[first]), showStr(got[first])),
			c.cs(field, showStr(want[first]), showStr(got[first])))
		return
	}
	for i := range want {
		if want[i] != got[i] {
			c.str(field+"[]", want[i], got[i])
		}
	}
}

func (c *cmpCtx) strMap(field string, want, got map[string]string) {
	c.seen(field, fmt.Sprintf("map-%s", refsClass(len(want))[5:]))
	c.a.inc("maps_compared", 1)
	invalidKeys := 0
	for k, wv := range want {
		kclass := classifyString(k)
		c.a.inc("map_keys_compared", 1)
		c.a.inc("string_values", 1)
		c.a.set("string_classes", kclass)
		c.a.set("value_classes", c.entity+"."+field+"[key]:"+kclass)
		if kclass == "invalid-utf8" {
			invalidKeys++
			if gv, ok := got[k]; !ok || gv != wv {
				c.a.observe("invalid-utf8 Go string as key of " + c.entity + "." + field + " read back altered (outside 'any Unicode text')")
			}
			continue
		}
		gv, ok := got[k]
		if !ok {
			c.a.violate(c.entity, field+"[key]", kclass, "key-lost",
				fmt.Sprintf("%s %q field %s: key %s (value %s) is missing after restart; keys read back: %s", c.entity, c.id, field, showStr(k), showStr(wv), showKeys(got)),
				c.cs(field, showStr(k), showKeys(got)))
			continue
		}
		c.str(field+"[value]", wv, gv)
	}
	extra := 0
	var firstExtra string
	for k := range got {
		if _, ok := want[k]; !ok {
			if extra == 0 {
				firstExtra = k
			}
			extra++
		}
	}
	if extra > invalidKeys {
		c.a.violate(c.entity, field+"[key]", "any", "key-added",
			fmt.Sprintf("%s %q field %s: %d keys read back that were never stored, e.g. %s", c.entity, c.id, field, extra-invalidKeys, showStr(firstExtra)),
			c.cs(field, "", showStr(firstExtra)))
	}
}

func showKeys(m map[string]string) string {
	ks := make([]string, 0, len(m))
	for k := range m {
		ks = append(ks, showStr(k))
	}
	sort.Strings(ks)
	if len(ks) > 6 {
		ks = append(ks[:6], "...")
	}
	return "[" + strings.Join(ks, " ") + "]"
}

func (c *cmpCtx) bytesMap(field string, want, got map[string][]byte) {
	c.seen(field, fmt.Sprintf("map-%s", refsClass(len(want))[5:]))
	c.a.inc("maps_compared", 1)
	invalidKeys := 0
	for k, wv := range want {
		kclass := classifyString(k)
		c.a.inc("map_keys_compared", 1)
		c.a.set("value_classes", c.entity+"."+field+"[key]:"+kclass)
		if kclass == "invalid-utf8" {
			invalidKeys++
			if gv, ok := got[k]; !ok || !bytes.Equal(gv, wv) {
				c.a.observe("invalid-utf8 Go string as key of " + c.entity + "." + field + " read back altered (outside 'any Unicode text')")
			}
			continue
		}
		gv, ok := got[k]
		if !ok {
			c.a.violate(c.entity, field+"[key]", kclass, "key-lost",
				fmt.Sprintf("%s %q field %s: key %s is missing after restart", c.entity, c.id, field, showStr(k)),
				c.cs(field, showStr(k), ""))
			continue
		}
		c.bytesf(field+"[value]", wv, gv)
	}
	extra := 0
	var firstExtra string
	for k := range got {
		if _, ok := want[k]; !ok {
			if extra == 0 {
				firstExtra = k
			}
			extra++
		}
	}
	if extra > invalidKeys {
		c.a.violate(c.entity, field+"[key]", "any", "key-added",
			fmt.Sprintf("%s %q field %s: %d keys read back that were never stored, e.g. %s", c.entity, c.id, field, extra-invalidKeys, showStr(firstExtra)),
			c.cs(field, "", showStr(firstExtra)))
	}
}
