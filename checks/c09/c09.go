// Package c09: no processor or connector reply shape can crash or wedge the engine.
package c09

import (
	"fmt"
	"strings"

	"verif/internal/pipe"
	"verif/internal/rig"
	"verif/internal/vp"
)

var procShapes = []string{"more", "moreerr", "moremulti", "zero", "nilentry", "changepos", "emptypos", "errnil", "multi0", "multi1", "short"}
var dstShapes = []string{"wrongpos", "extra", "drop", "swap", "emptyacks", "streamerr"}
var srcShapes = []string{"emptypos", "duppos"}
var calls = []string{"Configure", "Open", "Stop", "Teardown", "LifecycleOnCreated"}

// hostile describes the single hostile injection of a scenario (kept in Name for the signature).
func gen(seed int64, tier string, idx int) *pipe.Scenario {
	g := pipe.NewGen(seed, idx)
	o := pipe.GenOpts{
		MaxSources: 2, MaxDests: 2, MaxProcs: 1, MinRecords: 12, MaxRecords: 40,
		AllowFilter: true, AllowCond: true, AllowWorkers: true, DLQWindows: []int{0, 0, 5},
	}
	sc := g.Scenario(o)
	sc.RecMaxRetries = 1
	kind := ""
	// make sure there is a processor to be hostile with in the processor family
	family := idx % 4
	switch family {
	case 0, 1: // processor reply shapes, with (family 1) and without (family 0) a condition
		p := rig.ProcSpec{ID: "ph"}
		p.Script.Seed = g.R.Uint64()
		p.Script.ModifyPm = 500
		if family == 1 {
			mod := 2 + g.R.Intn(2)
			rem := g.R.Intn(mod)
			p.Condition = pipe.CondTemplate(mod, rem)
			if sc.Cond == nil {
				sc.Cond = map[string][2]int{}
			}
			sc.Cond["ph"] = [2]int{mod, rem}
		}
		shape := procShapes[g.R.Intn(len(procShapes))]
		if family == 1 && idx%8 == 5 {
			// the alignment clause needs short replies to conditional processors
			// more often than one shape in eleven
			shape = "short"
		}
		p.Script.Hostile = map[int]string{1 + g.R.Intn(4): shape}
		if shape == "short" {
			// several short replies per run
			for k := 0; k < 3; k++ {
				p.Script.Hostile[1+g.R.Intn(8)] = shape
			}
		}
		switch g.R.Intn(3) {
		case 0:
			sc.Topo.Sources[0].Procs = append(sc.Topo.Sources[0].Procs, p)
		case 1:
			sc.Topo.PipeProcs = append(sc.Topo.PipeProcs, p)
		default:
			sc.Topo.Dests[0].Procs = append(sc.Topo.Dests[0].Procs, p)
		}
		// larger batches so that a reply covers several records
		sc.Topo.Sources[0].Src.Batches = []int{[]int{1, 3, 5, 8}[g.R.Intn(4)]}
		if shape == "short" && family == 1 {
			sc.Topo.Sources[0].Src.Batches = []int{[]int{5, 8, 12}[g.R.Intn(3)]}
		}
		kind = fmt.Sprintf("proc:%s:cond=%v", shape, family == 1)
	case 2: // destination / DLQ ack shapes and source record shapes
		if g.R.Intn(4) == 0 {
			shape := srcShapes[g.R.Intn(len(srcShapes))]
			sc.Topo.Sources[0].Src.Shape = map[int]string{1 + g.R.Intn(8): shape}
			kind = "src:" + shape
		} else {
			shape := dstShapes[g.R.Intn(len(dstShapes))]
			d := &sc.Topo.Dests[g.R.Intn(len(sc.Topo.Dests))]
			d.Dst.Shape = map[int]string{1 + g.R.Intn(10): shape}
			d.Dst.ShapeSess = 1
			kind = "dst:" + shape
			if (shape == "emptyacks" || shape == "drop") && g.R.Intn(2) == 0 {
				// single-record writes: a response without acks is then the ONLY
				// response the engine has read for that write
				for i := range sc.Topo.Sources {
					sc.Topo.Sources[i].Src.Batches = []int{1}
				}
			}
		}
	case 3: // errors / panics from unary plugin calls
		call := calls[g.R.Intn(len(calls))]
		msg := "vf scripted call error"
		if g.R.Intn(3) == 0 {
			msg = "PANIC"
		}
		key := call + "#1"
		switch g.R.Intn(3) {
		case 0:
			sc.Topo.Sources[0].Src.CallErr = map[string]string{key: msg}
			kind = "call:src:" + call
		case 1:
			sc.Topo.Dests[0].Dst.CallErr = map[string]string{key: msg}
			kind = "call:dst:" + call
		default:
			sc.Topo.DLQ.CallErr = map[string]string{key: msg}
			kind = "call:dlq:" + call
		}
		if msg == "PANIC" {
			kind += ":panic"
		}
	}
	sc.Name = kind
	// a plugin that never answers is outside the premise: end such runs with a force stop
	sc.Steps = []pipe.Step{{AtEvent: 0, Op: "quiet"}}
	if strings.Contains(kind, "drop") {
		sc.Steps = append(sc.Steps, pipe.Step{AtEvent: 0, Op: "forcestop"})
	}
	return sc
}

func judge(out *pipe.Outcome, ix *pipe.Index) pipe.Verdict {
	var v pipe.Verdict
	v.Stats = map[string]int64{}
	sc := out.Sc
	kind := sc.Name
	if i := strings.Index(kind, "/"); i >= 0 && strings.HasPrefix(kind, "C09") {
		// PropDef overwrote Name; the hostile kind is re-derived below
	}
	kind = hostileKind(sc)
	// affected records: those in (and, for short/zero/more replies, after) a hostile processor call
	affected := map[rig.Lin]bool{}
	hostileSeen := false
	for i := range out.Evs {
		e := &out.Evs[i]
		if e.Kind == rig.KProcCall && strings.Contains(e.Note, "HOSTILE") {
			hostileSeen = true
			// A SHORT reply has one documented handling in both engines (arch-v2
			// pads it and retries the unresolved records, the default engine stops),
			// and neither may lose, duplicate or misalign a record: the records of
			// such a call stay under the model. Every other shape leaves the handling
			// of the records in the call to the engine.
			if strings.Contains(e.Note, "HOSTILE:short") {
				v.Stats["short_replies_kept_under_the_model"]++
				continue
			}
			for _, l := range e.Recs {
				affected[l.Origin()] = true
			}
		}
		if (e.Kind == rig.KDstAck || e.Kind == rig.KNote) && strings.Contains(e.Note, "HOSTILE") || e.Kind == rig.KNote && strings.Contains(e.Note, "destination run fails") {
			hostileSeen = true
		}
		if e.Kind == rig.KDstAck {
			for _, a := range e.Acks {
				if strings.HasPrefix(a.Err, "HOSTILE") {
					hostileSeen = true
				}
			}
		}
		if e.Err != "" && (e.Kind == rig.KPluginCall || e.Kind == rig.KSrcOpen || e.Kind == rig.KDstOpen || e.Kind == rig.KSrcStop || e.Kind == rig.KDstStop || e.Kind == rig.KSrcTeardown || e.Kind == rig.KDstTeardown) {
			hostileSeen = true
		}
	}
	if strings.HasPrefix(kind, "src:") {
		hostileSeen = true
	}
	if hostileSeen {
		v.Stats["hostile_replies_delivered"]++
	}
	// (3) handled as documented, or stopped with the affected records unacknowledged:
	// every source ack must still be justified (C01 predicate); records inside a hostile
	// processor call are exempt from the model (their documented handling is the engine's choice)
	for i := range out.Evs {
		e := &out.Evs[i]
		if e.Kind != rig.KSrcAck {
			continue
		}
		for n, idx := range e.Idx {
			if idx < 0 {
				// an ack for a position the source never produced (hostile positions)
				raw := ""
				if n < len(e.Raw) {
					raw = e.Raw[n]
				}
				if raw == "" {
					v.Violations = append(v.Violations, vp.Violation{Property: "C09", Class: "empty-position-acked",
						Identity: "C09/empty-position-acked/" + sc.Engine + "/" + kind,
						Detail:   fmt.Sprintf("source %s was acked an empty position", e.Comp), Witness: rig.Excerpt(out.Evs, []int{i}, 8)})
				}
				continue
			}
			o := rig.Lin{Src: e.Comp, Idx: idx}
			v.Stats["source_acks_judged"]++
			if affected[o] {
				v.Stats["source_acks_of_affected_records"]++
				continue
			}
			if ok, _, missing := ix.HandledBefore(e.Comp, idx, i); !ok {
				v.Violations = append(v.Violations, vp.Violation{Property: "C09", Class: "affected-record-acked",
					Identity: "C09/acked-without-handling/" + sc.Engine + "/" + kind,
					Detail:   fmt.Sprintf("after a hostile plugin reply (%s): source %s was acked record %d but %s", kind, e.Comp, idx, missing),
					Witness:  rig.Excerpt(out.Evs, []int{i}, 10)})
				break
			}
		}
	}
	// (2) neither handles nor stops: the run must have settled (all acked or terminal status)
	if !out.Settled && !strings.Contains(kind, "drop") {
		v.Inconclusive = "run did not settle within the harness watchdog"
	}
	// (4) conditional alignment: a record carries the stamp of a conditional processor
	// iff the condition matches it (non-matching records pass unchanged, results stay aligned)
	for pid, c := range sc.Cond {
		for i := range out.Evs {
			e := &out.Evs[i]
			if e.Kind != rig.KDstWrite || e.Role != "dst" {
				continue
			}
			for n, l := range e.Recs {
				if l.Idx < 0 || n >= len(e.Stamps) || affected[l.Origin()] {
					continue
				}
				if !downstreamOf(sc, pid, e.Comp, l.Src) {
					continue
				}
				has := strings.Contains(","+e.Stamps[n], ","+pid+"=")
				want := l.Idx%c[0] == c[1]
				v.Stats["conditional_alignment_obligations"]++
				if has != want {
					v.Violations = append(v.Violations, vp.Violation{Property: "C09", Class: "conditional-misaligned",
						Identity: "C09/conditional-misaligned/" + sc.Engine,
						Detail:   fmt.Sprintf("record %s at %s: processed by conditional processor %s = %v, condition matches = %v", l, e.Comp, pid, has, want),
						Witness:  rig.Excerpt(out.Evs, []int{i}, 6)})
					break
				}
			}
		}
	}
	// order / absence at destinations still holds for unaffected records
	vs5, _ := pipe.OracleC05(ix)
	for _, x := range vs5 {
		if x.Class == "out-of-order" {
			x.Property = "C09"
			x.Identity = "C09/passthrough-out-of-place/" + sc.Engine
			v.Violations = append(v.Violations, x)
		}
		if x.Class == "written-twice" && strings.Contains(kind, "proc:short") {
			x.Property = "C09"
			x.Identity = "C09/result-misaligned-record-written-twice/" + sc.Engine
			v.Violations = append(v.Violations, x)
		}
	}
	v.Nontrivial = hostileSeen
	v.SigExtra = kind
	v.Sets = map[string][]string{"hostile_kinds": {sc.Engine + ":" + kind}}
	return v
}

// downstreamOf reports whether destination dst receives records of source src
// after they passed processor pid.
func downstreamOf(sc *pipe.Scenario, pid, dst, src string) bool {
	for _, s := range sc.Topo.Sources {
		for _, p := range s.Procs {
			if p.ID == pid {
				return s.ID == src
			}
		}
	}
	for _, p := range sc.Topo.PipeProcs {
		if p.ID == pid {
			return true
		}
	}
	for _, d := range sc.Topo.Dests {
		for _, p := range d.Procs {
			if p.ID == pid {
				return d.ID == dst
			}
		}
	}
	return false
}

func hostileKind(sc *pipe.Scenario) string {
	find := func(ps []rig.ProcSpec) string {
		for _, p := range ps {
			for _, h := range p.Script.Hostile {
				return fmt.Sprintf("proc:%s:cond=%v", h, p.Condition != "")
			}
		}
		return ""
	}
	for _, s := range sc.Topo.Sources {
		if k := find(s.Procs); k != "" {
			return k
		}
		for _, sh := range s.Src.Shape {
			return "src:" + sh
		}
		for c, m := range s.Src.CallErr {
			return "call:src:" + strings.Split(c, "#")[0] + panicSuffix(m)
		}
	}
	if k := find(sc.Topo.PipeProcs); k != "" {
		return k
	}
	for _, d := range sc.Topo.Dests {
		if k := find(d.Procs); k != "" {
			return k
		}
		for _, sh := range d.Dst.Shape {
			return "dst:" + sh
		}
		for c, m := range d.Dst.CallErr {
			return "call:dst:" + strings.Split(c, "#")[0] + panicSuffix(m)
		}
	}
	for c, m := range sc.Topo.DLQ.CallErr {
		return "call:dlq:" + strings.Split(c, "#")[0] + panicSuffix(m)
	}
	return "none"
}

func panicSuffix(m string) string {
	if m == "PANIC" {
		return ":panic"
	}
	return ""
}

func init() {
	vp.Register(&pipe.PropDef{
		PID: "C09", PLevel: "exploration",
		RuleText: "each scenario = a small pipeline (both engines, 1-2 sources x 1-2 destinations, optional parallel workers) with exactly ONE hostile injection drawn from: processor reply shapes {more results, extra error, extra split, zero results, nil entry, changed position, empty position, ErrorRecord with nil error, empty split, 1-piece split, short result} with and without a condition on the processor (every match pattern), attached to source/pipeline/destination; destination ack shapes {wrong position, extra ack, missing ack, swapped acks, empty response, stream error}; source record shapes {empty position, duplicate position}; an error or a PANIC from Configure/Open/Stop/Teardown/LifecycleOnCreated of a source, destination or DLQ plugin. Each case runs in a child process. Judged: the process survives (a reproduced death = violation), the run settles (a case exceeding its watchdog twice, the second time alone = wedge), every source ack is still justified (delivered / dead-lettered / filtered; records inside a hostile processor call are exempt from the reference model), no empty position is acked, conditional processors stay aligned (stamp iff condition matches) and pass-through records stay in place. Non-trivial: the hostile reply was actually delivered to the engine; distinct = distinct (engine, topology, hostile kind).",
		Assume:   []string{"a plugin that never answers (missing ack) is outside the property's premise: such runs are ended by a force stop and only the safety clauses are judged", "a plugin panicking inside its own Run goroutine is outside the premise"},
		Quick:    320, Thorough: 3200, HangIsViol: true, DeathIsViol: true,
		PointBias: []string{"funnel.worker.ack", "funnel.worker.nack", "funnel.multiack.ack", "funnel.multiack.nack"},
		Anchors:   []string{"pkg/processor/runnable_processor.go", "pkg/processor/processor_condition.go", "pkg/lifecycle-poc/funnel/processor.go", "pkg/lifecycle-poc/funnel/worker.go", "pkg/lifecycle-poc/funnel/destination.go", "pkg/lifecycle/stream/processor.go", "pkg/lifecycle/stream/destination_acker.go", "pkg/plugin/connector/builtin/sandbox.go"},
		Gen:       gen, Judge: judge,
	})
}
