// Package c05: every destination receives each source's records in the order they were read.
package c05

import (
	"fmt"

	"verif/internal/pipe"
	"verif/internal/vp"
)

func gen(seed int64, tier string, idx int) *pipe.Scenario {
	g := pipe.NewGen(seed, idx)
	o := pipe.GenOpts{
		MaxSources: 3, MaxDests: 3, MaxProcs: 2, MinRecords: 10, MaxRecords: 80,
		AllowMulti: true, AllowCut: true, AllowFilter: true, AllowProcErr: true, AllowDstNack: true,
		AllowWorkers: true, AllowCond: true, DLQWindows: []int{0},
	}
	sc := g.Scenario(o)
	if sc.Engine == "v1" && g.R.Intn(2) == 0 {
		// parallel workers with very different per-record latencies
		attach := func(ps []pipeProc) {}
		_ = attach
		for i := range sc.Topo.PipeProcs {
			sc.Topo.PipeProcs[i].Workers = 2 + g.R.Intn(3)
			sc.Topo.PipeProcs[i].Script.LatencyUs = []int{0, 0, 300, 2000}
		}
		for s := range sc.Topo.Sources {
			for i := range sc.Topo.Sources[s].Procs {
				sc.Topo.Sources[s].Procs[i].Workers = 2 + g.R.Intn(3)
				sc.Topo.Sources[s].Procs[i].Script.LatencyUs = []int{0, 100, 1000}
			}
		}
	}
	if g.R.Intn(6) == 0 {
		sc.Steps = append(sc.Steps, pipe.Step{AtEvent: 20 + g.R.Intn(300), Op: "stopwait"})
	}
	return sc
}

type pipeProc struct{}

func judge(out *pipe.Outcome, ix *pipe.Index) pipe.Verdict {
	var v pipe.Verdict
	vs, j := pipe.OracleC05(ix)
	v.Violations = vs
	v.AddJudged("destination_writes_", j)
	workers := 1
	for _, p := range out.Sc.Topo.PipeProcs {
		if p.Workers > workers {
			workers = p.Workers
		}
	}
	v.Nontrivial = j.Obligations >= 5
	v.SigExtra = fmt.Sprintf("w%d|%s", workers, pipe.CompletionOrderClass(out.Evs))
	return v
}

func init() {
	vp.Register(&pipe.PropDef{
		PID: "C05", PLevel: "exploration",
		RuleText: "scenario as for C01 with fan-in of up to 3 sources, fan-out to up to 3 destinations, 2-4 parallel processor workers with skewed per-record latencies (default engine), splits/cut-short/filters (arch-v2); every record received by a destination plugin is one obligation: per destination session and source strictly increasing emit index (pieces of a split in piece order), not written twice, and not a record the scripts filter or reject upstream of that destination. Non-trivial: >=5 writes judged; distinct = distinct (engine, topology shape, worker count, completion-order class).",
		Assume:   []string{"records carry a lineage stamp (source, emit index, piece path) in metadata that processors preserve", "reference model of plugin result semantics (internal/pipe/model.go)"},
		Quick:    320, Thorough: 3200,
		PointBias: []string{"funnel.worker.ack", "funnel.worker.nack", "funnel.multiack.ack", "funnel.multiack.nack", "connector.source.ack", "stream.sourceacker.ack", "stream.sourceacker.nack", "stream.fanout.ack"},
		Anchors:   []string{"pkg/lifecycle/stream/parallel.go", "pkg/lifecycle/stream/fanout.go", "pkg/lifecycle/stream/fanin.go", "pkg/lifecycle/stream/processor.go", "pkg/lifecycle/stream/base.go", "pkg/lifecycle/stream/message.go", "pkg/lifecycle-poc/funnel/worker.go", "pkg/lifecycle-poc/funnel/batch.go", "pkg/lifecycle-poc/funnel/processor.go", "pkg/lifecycle-poc/funnel/sink.go"},
		Gen:       gen, Judge: judge,
	})
}
