// Package c18 monitors property C18: "processor egress never reaches
// private/metadata addresses unless carved out".
//
// Three monitors, all driven through the exported API of
// pkg/plugin/processor/egress (Refuse, New/WithResolver/Service.Do,
// ParseAllowEntry/PolicyFromSettings/ResolvePolicy) and pkg/processor
// (Service + WithEgressCeiling):
//
//  1. classifier: the real Refuse versus an independent classifier of the
//     documented floor (floor.go), boundary / random / exhaustive;
//  2. dial path: the real Service.Do under hostile resolver answers, URL
//     shapes, redirects and proxy environment, observed by local listeners
//     (canaries) and by a connect(2) log of a strace'd child;
//  3. policy: random (per-processor, ceiling) pairs through ResolvePolicy.
package c18

import (
	"fmt"
	"math/rand"
	"os"
	"time"

	"verif/internal/vp"
)

type prop struct{}

func init() { vp.Register(&prop{}) }

func (*prop) ID() string    { return "C18" }
func (*prop) Level() string { return "exploration" }
func (*prop) Rule() string {
	return "Case list is fixed per tier; a case is a chunk of one monitor. " +
		"classifier: boundary/<form> = every floor range boundary -1/0/+1 (and mid-points, metadata, well-known members) in one address form " +
		"(raw 4-byte, v4-mapped, v4-compatible, v4-translated, NAT64, 6to4, Teredo server, Teredo client, native v6 prefix edges); " +
		"random/<form> = PRNG addresses, half uniform and half clustered within 2^0..2^17 of a range edge; random-v6/<structures> = PRNG " +
		"addresses with a structured prefix (19 structures); thorough adds sweep/raw and sweep/mapped = ALL 2^24 addresses of one /8 per case " +
		"(256+256 cases = all 2^32 in both forms) and sweep/embedded = the same /8 with stride 251 in the 6 other embedding forms. " +
		"Each address goes to the real egress.Refuse and to an independent integer classifier of the documented floor; a case is non-trivial " +
		"when floor addresses were really judged (sweep chunks: the whole /8 was judged). " +
		"dial/<scenario> = one scenario (22 kinds x seeded variants) against the real egress.Service.Do with a scripted resolver and loopback " +
		"listeners; the ONLY dial-path violation is a connection (listener accept or connect(2)) to a floor address that is not an exact carved-out (IP,port) " +
		"of the scenario, whichever hop made it (direct, redirect hop, proxy named by HTTP(S)_PROXY/ALL_PROXY pointing at a non-carved loopback listener); " +
		"a followed redirect or an honoured proxy whose every hop passes the gate is only counted (redirects_followed_observed, proxy_env_honoured_observed); " +
		"non-trivial when requests were made and every listener was proven live by a harness fence connection; " +
		"dial/strace-connect-log = all scenarios re-run in a child under strace -f -e trace=connect. " +
		"policy/ceiling=<kind>/per=<kind> = a chunk of PRNG (per-processor, ceiling) pairs through ResolvePolicy (1 in 16 of the settings-built " +
		"ones also through processor.Service); non-trivial when a clamp/drop/deny really happened. " +
		"Sig is the class (form / scenario / policy shape), never the chunk index."
}
func (*prop) Assumptions() []string {
	return []string{
		"the refused floor demanded is exactly the one documented in egress/ipguard.go, doc.go and the property text; anything the guard refuses beyond it is only counted",
		"the independent classifier (checks/c18/floor.go, integer arithmetic, no net.IPNet) is itself correct; it was cross-checked by mutants of the guard, not proven",
		"a connection is observed iff a local listener accepts it (FIFO accept queue + harness fence connection) or strace logs its connect(2); destinations for which no local listener can exist (10/8, 169.254.169.254, ...) are observed by strace only",
		"no real network: 'public' destinations are a local non-floor interface address when the machine has one (else an unreachable TEST-NET address); DNS is a scripted egress.Resolver except in the real-resolver-localhost scenario",
		"TLS success paths are not exercised (https requests reach plain-TCP listeners, which is enough to observe the connection)",
		"policies fed to ResolvePolicy are built by the repo's own ParseAllowEntry/ParseAllowlist/PolicyFromSettings (entries whose IP field is consistent with Host); hand-forged inconsistent AllowEntry structs are out of scope",
		"followed redirects and an honoured proxy environment are observations, not violations: the property only forbids a connection to a refused address that is not an exact carved-out (IP,port); each redirect/proxy hop is judged by that rule alone",
		"a proxied request is only observable offline when the proxy listener itself passes the dial gate (it is carved out in one scenario => observation); with a non-carved loopback proxy the listener must stay silent (violation otherwise); a public proxy, which would let the proxy reach refused addresses unseen by the gate, cannot be simulated offline and is NOT covered",
	}
}
func (*prop) CaseTimeout() time.Duration { return 6 * time.Minute }

type caseDesc struct {
	kind string
	form string
	a, b int
}

const (
	quickRandomPerCase    = 150_000
	thoroughRandomPerCase = 250_000
	v6RandomPerCase       = 100_000
	quickPolicyPerCase    = 5_000
	thoroughPolicyPerCase = 25_000
)

var randomForms = []string{"raw", "raw", "raw", "mapped", "mapped", "compat", "translated", "nat64", "6to4", "teredo-server", "teredo-client"}

func layout(tier string) []caseDesc {
	var cs []caseDesc
	for _, f := range boundaryForms {
		cs = append(cs, caseDesc{kind: "boundary", form: f})
	}
	nRand, nV6, variants, nPol, perPol := quickRandomPerCase, 3, 3, 20, quickPolicyPerCase
	if tier == "thorough" {
		nRand, nV6, variants, nPol, perPol = thoroughRandomPerCase, 100, 10, 45, thoroughPolicyPerCase
	}
	for _, f := range randomForms {
		cs = append(cs, caseDesc{kind: "random", form: f, a: nRand})
	}
	for i := 0; i < nV6; i++ {
		n := v6RandomPerCase
		if tier != "thorough" {
			n = quickRandomPerCase
		}
		cs = append(cs, caseDesc{kind: "random-v6", a: n, b: i})
	}
	for k := range scenarios {
		for v := 0; v < variants; v++ {
			cs = append(cs, caseDesc{kind: "dial", a: k, b: v})
		}
	}
	cs = append(cs, caseDesc{kind: "strace"})
	for i := 0; i < nPol; i++ {
		cs = append(cs, caseDesc{kind: "policy", a: perPol, b: i})
	}
	if tier == "thorough" {
		for h := 0; h < 256; h++ {
			cs = append(cs, caseDesc{kind: "sweep", form: "raw", a: h})
		}
		for h := 0; h < 256; h++ {
			cs = append(cs, caseDesc{kind: "sweep", form: "mapped", a: h})
		}
		for h := 0; h < 256; h++ {
			cs = append(cs, caseDesc{kind: "sweep-embedded", a: h})
		}
	}
	return cs
}

func (*prop) NumCases(tier string) int { return len(layout(tier)) }

func (*prop) RunCase(seed int64, tier string, idx int) vp.CaseResult {
	cs := layout(tier)
	if idx < 0 || idx >= len(cs) {
		return vp.CaseResult{Inconclusive: fmt.Sprintf("no case %d in tier %s", idx, tier)}
	}
	d := cs[idx]
	r := rand.New(rand.NewSource(seed*1_000_000 + int64(idx)))
	switch d.kind {
	case "boundary":
		return runBoundary(idx, d.form)
	case "random":
		return runRandomV4(idx, d.form, d.a, r)
	case "random-v6":
		// each chunk covers a rotating window of 7 structures so that the
		// number of distinct signatures is a property of the coverage
		var which []string
		for j := 0; j < 7; j++ {
			which = append(which, v6Structures[(d.b*7+j)%len(v6Structures)])
		}
		return runRandomV6(idx, d.a, r, which)
	case "sweep":
		return runSweep(idx, d.form, uint32(d.a))
	case "sweep-embedded":
		return runSweepEmbedded(idx, uint32(d.a))
	case "dial":
		return runDialCase(idx, seed, d.a, d.b)
	case "strace":
		if out := os.Getenv(childTraceEnv); out != "" {
			return runTraceChild(idx, seed, out)
		}
		return runStraceCase(idx, seed, tier)
	case "policy":
		ck := ceilingKinds[d.b%len(ceilingKinds)]
		pk := perKinds[(d.b/len(ceilingKinds))%len(perKinds)]
		return runPolicyCase(idx, d.a, ck, pk, r)
	}
	return vp.CaseResult{Inconclusive: "unknown case kind " + d.kind}
}
