package c18

import (
	"bufio"
	"encoding/json"
	"fmt"
	"net/netip"
	"os"
	"os/exec"
	"path/filepath"
	"regexp"
	"strconv"
	"strings"

	"verif/internal/vp"
)

var (
	reConn4 = regexp.MustCompile(`connect\(\d+, \{sa_family=AF_INET, sin_port=htons\((\d+)\), sin_addr=inet_addr\("([^"]+)"\)`)
	reConn6 = regexp.MustCompile(`connect\(\d+, \{sa_family=AF_INET6, sin6_port=htons\((\d+)\),.*?inet_pton\(AF_INET6, "([^"]+)"`)
)

// runStraceCase re-runs every dial scenario in a child process under
// `strace -f -e trace=connect` and judges the connect(2) targets: a connect to
// an address of the documented floor that is not an exact carved-out (IP,port)
// of the child's scenarios is a violation. This also sees attempts towards
// addresses no local listener can stand in for (10/8, 169.254.169.254, ...).
func runStraceCase(idx int, seed int64, tier string) vp.CaseResult {
	res := vp.CaseResult{Sig: "dial/strace-connect-log", Stats: map[string]int64{}, Sets: map[string][]string{}}
	strace, err := exec.LookPath("strace")
	if err != nil {
		res.Inconclusive = "strace not installed"
		return res
	}
	self, err := os.Executable()
	if err != nil {
		res.Inconclusive = "os.Executable: " + err.Error()
		return res
	}
	dir := os.Getenv("VERIF_WORKDIR")
	if dir == "" {
		dir = os.TempDir()
	}
	tag := fmt.Sprintf("c18-strace-%d-%d-%d", os.Getpid(), seed, idx)
	logf := filepath.Join(dir, tag+".log")
	side := filepath.Join(dir, tag+".json")
	defer os.Remove(logf)
	defer os.Remove(side)
	cmd := exec.Command(strace, "-f", "-qq", "-e", "trace=connect", "-o", logf,
		self, "one", "C18", tier, strconv.FormatInt(seed, 10), strconv.Itoa(idx))
	cmd.Env = append(os.Environ(), childTraceEnv+"="+side)
	outb, err := cmd.CombinedOutput()
	if err != nil {
		t := string(outb)
		if len(t) > 400 {
			t = t[len(t)-400:]
		}
		res.Inconclusive = "strace child failed: " + err.Error() + ": " + t
		return res
	}
	var sd struct {
		Permitted []string `json:"permitted"`
		Proxy     string   `json:"proxy"`
		Scenarios int      `json:"scenarios"`
		Requests  int      `json:"requests"`
		SetupFail []string `json:"setup_fail"`
	}
	b, err := os.ReadFile(side)
	if err != nil || json.Unmarshal(b, &sd) != nil {
		res.Inconclusive = "strace child produced no side file"
		return res
	}
	permitted := map[string]bool{}
	for _, p := range sd.Permitted {
		if ap, err := netip.ParseAddrPort(p); err == nil {
			permitted[netip.AddrPortFrom(ap.Addr().Unmap(), ap.Port()).String()] = true
		}
	}
	f, err := os.Open(logf)
	if err != nil {
		res.Inconclusive = "no strace log: " + err.Error()
		return res
	}
	defer f.Close()
	sc := bufio.NewScanner(f)
	sc.Buffer(make([]byte, 1<<20), 1<<26)
	viol := map[string]bool{}
	var examples []string
	for sc.Scan() {
		line := sc.Text()
		if strings.Contains(line, "resumed>") {
			continue // the arguments are on the "<unfinished ...>" line
		}
		m := reConn4.FindStringSubmatch(line)
		if m == nil {
			m = reConn6.FindStringSubmatch(line)
		}
		if m == nil {
			if strings.Contains(line, "connect(") && (strings.Contains(line, "AF_INET")) {
				res.Stats["strace_connect_lines_unparsed"]++
			}
			continue
		}
		port, _ := strconv.Atoi(m[1])
		ad, err := netip.ParseAddr(m[2])
		if err != nil {
			res.Stats["strace_connect_lines_unparsed"]++
			continue
		}
		ad = ad.Unmap()
		res.Stats["strace_connects_seen"]++
		key := netip.AddrPortFrom(ad, uint16(port)).String()
		in, class := floorOf(ad)
		switch {
		case !in:
			res.Stats["strace_connects_public_by_range"]++
		case permitted[key]:
			res.Stats["strace_connects_exact_carve_out"]++
		default:
			id := "C18/connect-to-refused/" + class
			res.Stats["strace_connects_to_refused"]++
			if !viol[id] {
				viol[id] = true
				res.Violations = append(res.Violations, vp.Violation{Property: "C18", Class: "connect-to-refused", Identity: id,
					Detail:  fmt.Sprintf("connect(2) to %s (floor class %s), which is not an exact carved-out (IP,port) of any scenario of the child%s", key, class, map[bool]string{true: " - it is the NON-carved listener named by HTTP_PROXY/HTTPS_PROXY/ALL_PROXY", false: ""}[key == sd.Proxy]),
					Case:    map[string]any{"index": idx, "scenario": "all dial scenarios under strace", "carved_out": sd.Permitted},
					Witness: line})
			}
		}
		if len(examples) < 4 {
			examples = append(examples, key+" class="+class)
		}
		res.Sets["strace_connect_classes"] = appendUniq(res.Sets["strace_connect_classes"], map[bool]string{true: class, false: "outside-floor"}[in])
	}
	res.Stats["strace_child_scenarios"] = int64(sd.Scenarios)
	res.Stats["strace_child_requests"] = int64(sd.Requests)
	res.Sample = map[string]any{"kind": res.Sig, "connects": examples, "permitted_pairs": len(permitted), "child_setup_failures": sd.SetupFail}
	// the monitor demonstrably sees connects: the positive controls must show up
	res.Nontrivial = res.Stats["strace_connects_exact_carve_out"] > 0
	if !res.Nontrivial && len(res.Violations) == 0 {
		res.Inconclusive = "the strace log shows no connect(2) to any carved-out pair: the syscall monitor saw nothing"
	}
	return res
}

func appendUniq(xs []string, x string) []string {
	for _, y := range xs {
		if y == x {
			return xs
		}
	}
	return append(xs, x)
}
