package c18

import (
	"context"
	"encoding/json"
	"fmt"
	"math/rand"
	"net"
	"net/netip"
	"os"
	"sort"
	"strconv"
	"strings"
	"time"

	"github.com/conduitio/conduit-processor-sdk/pprocutils"
	"github.com/conduitio/conduit/pkg/foundation/cerrors"
	"github.com/conduitio/conduit/pkg/foundation/log"
	"github.com/conduitio/conduit/pkg/plugin/processor/egress"

	"verif/internal/vp"
)

// childTraceEnv names the side file of the strace child (see strace.go). When
// set, the scenarios run WITHOUT any harness-made connection (no fences), all
// listeners stay open until the process exits, and the only product is the
// list of permitted (IP, port) pairs; the parent judges the connect(2) log.
const childTraceEnv = "C18_TRACE_CHILD"

type pair struct {
	addr netip.Addr
	port int
}

func (p pair) String() string { return net.JoinHostPort(p.addr.String(), strconv.Itoa(p.port)) }

type doRecord struct {
	URL     string `json:"url"`
	Outcome string `json:"outcome"`
	Body    string `json:"body,omitempty"`
}

// scen is one dial-path scenario: listeners, a policy, a scripted resolver,
// some requests, and the judgement of what the listeners saw.
type scen struct {
	kind    string
	idx     int
	r       *rand.Rand
	child   bool
	variant int

	canaries   []*canary
	fencesMade map[*canary]int
	carved     []pair   // exact (IP, port) pairs the scenario's operator allowed
	disabled   bool     // policy is deny-all: nothing is permitted
	rawAllow   []string // textual allowlist, for the witness
	entries    []egress.AllowEntry
	res        *scriptResolver
	realDNS    bool
	policy     *egress.Policy // override (already resolved)
	svc        *egress.Service
	does       []doRecord
	noFollow   []*canary // canaries that must not receive a redirected request
	setupFail  string
	subInputs  []string
	publicIP   string
	ulaIP      string
	wantOK     []*canary // positive controls: a request must reach them
}

func (s *scen) fail(f string, a ...any) {
	if s.setupFail == "" {
		s.setupFail = fmt.Sprintf(f, a...)
	}
}

func (s *scen) loopIP() string {
	return fmt.Sprintf("127.%d.%d.%d", s.r.Intn(256), s.r.Intn(256), 1+s.r.Intn(254))
}

func (s *scen) listen(name, ip string, port int) *canary {
	c, err := listenCanary(name, ip, port)
	if err != nil {
		s.fail("listen %s %s:%d: %v", name, ip, port, err)
		// a dummy, never-listening canary keeps the scenario code simple
		a, _ := netip.ParseAddr(ip)
		return &canary{name: name, addr: a, port: port}
	}
	s.canaries = append(s.canaries, c)
	return c
}

// listenPairSamePort opens two listeners on the same port of two addresses.
func (s *scen) listenSamePort(n1, ip1, n2, ip2 string) (*canary, *canary) {
	for try := 0; try < 50; try++ {
		c1, err := listenCanary(n1, ip1, 0)
		if err != nil {
			s.fail("listen %s: %v", ip1, err)
			break
		}
		c2, err := listenCanary(n2, ip2, c1.port)
		if err != nil {
			c1.close()
			continue
		}
		s.canaries = append(s.canaries, c1, c2)
		return c1, c2
	}
	s.fail("could not get the same port on %s and %s", ip1, ip2)
	a1, _ := netip.ParseAddr(ip1)
	a2, _ := netip.ParseAddr(ip2)
	return &canary{name: n1, addr: a1}, &canary{name: n2, addr: a2}
}

// carve adds the exact (IP, port) carve-out for a canary the documented way:
// an http://ip:port allowlist entry parsed by the repo's own ParseAllowEntry.
func (s *scen) carve(c *canary) {
	s.allowParsed("http://" + c.hostPort())
	s.carved = append(s.carved, pair{c.addr, c.port})
}

func (s *scen) allowParsed(raw string) {
	if s.svc != nil {
		s.fail("scenario bug: allowlist entry %q added after the Service was built", raw)
	}
	e, err := egress.ParseAllowEntry(raw)
	if err != nil {
		s.fail("ParseAllowEntry(%q): %v", raw, err)
		return
	}
	s.rawAllow = append(s.rawAllow, raw)
	s.entries = append(s.entries, e)
}

// allowStruct adds a HOSTNAME entry by constructing the exported struct
// directly (IP left nil, so it is never a carve-out). This is the only way to
// get an http-scheme hostname entry; the Stage-2 guarantee is documented as
// independent of what Stage 1 admits.
func (s *scen) allowStruct(scheme, host string, port int) {
	if s.svc != nil {
		s.fail("scenario bug: allowlist entry %q added after the Service was built", host)
	}
	s.rawAllow = append(s.rawAllow, fmt.Sprintf("struct{%s %s %d}", scheme, host, port))
	s.entries = append(s.entries, egress.AllowEntry{Scheme: scheme, Host: strings.ToLower(host), Port: strconv.Itoa(port)})
}

// allowHost admits a hostname on both schemes for the given port.
func (s *scen) allowHost(host string, port int) {
	s.allowParsed(net.JoinHostPort(host, strconv.Itoa(port))) // https, the documented way
	s.allowStruct("http", host, port)
}

func (s *scen) service() *egress.Service {
	if s.svc != nil {
		return s.svc
	}
	var p egress.Policy
	if s.policy != nil {
		p = *s.policy
	} else {
		p = egress.Policy{Enabled: !s.disabled, Allowlist: s.entries, Timeout: 1500 * time.Millisecond, MaxResponseBytes: 1 << 16}
	}
	opts := []egress.Option{}
	if !s.realDNS {
		opts = append(opts, egress.WithResolver(s.res))
	}
	s.svc = egress.New(p, log.Nop(), opts...)
	return s.svc
}

func outcomeOf(err error) string {
	switch {
	case err == nil:
		return "ok"
	case cerrors.Is(err, pprocutils.ErrHTTPForbidden):
		if strings.Contains(err.Error(), "redirect") {
			return "forbidden-redirect"
		}
		if strings.Contains(err.Error(), "allowlist") {
			return "forbidden-allowlist"
		}
		if strings.Contains(err.Error(), "resolved IP") {
			return "forbidden-ip-refused"
		}
		return "forbidden"
	case cerrors.Is(err, pprocutils.ErrHTTPEgressDisabled):
		return "disabled"
	case cerrors.Is(err, pprocutils.ErrHTTPInvalidRequest):
		return "invalid-request"
	case cerrors.Is(err, pprocutils.ErrHTTPDNS):
		return "dns"
	case cerrors.Is(err, pprocutils.ErrHTTPTimeout):
		return "timeout"
	case cerrors.Is(err, pprocutils.ErrHTTPResponseTooLarge):
		return "too-large"
	case cerrors.Is(err, pprocutils.ErrHTTPTransport):
		return "transport"
	}
	return "other-error"
}

var methods = []string{"GET", "POST", "PUT", "HEAD", "get", "DELETE", ""}

func (s *scen) do(url string) doRecord { return s.doH(url, nil) }

func (s *scen) doH(url string, hdr map[string][]string) doRecord {
	req := pprocutils.HTTPRequest{Method: methods[s.r.Intn(len(methods))], URL: url, Headers: hdr}
	if s.r.Intn(3) == 0 {
		req.Body = []byte(`{"probe":"c18"}`)
	}
	if hdr == nil && s.r.Intn(2) == 0 {
		req.Headers = map[string][]string{"X-C18": {"v" + strconv.Itoa(s.r.Intn(1000))}, "Accept": {"*/*"}}
	}
	ctx, cancel := context.WithTimeout(context.Background(), 10*time.Second)
	defer cancel()
	resp, err := s.service().Do(ctx, req)
	rec := doRecord{URL: url, Outcome: outcomeOf(err)}
	if err == nil {
		rec.Outcome = "ok-" + strconv.Itoa(resp.StatusCode)
		b := string(resp.Body)
		if len(b) > 60 {
			b = b[:60]
		}
		rec.Body = b
	}
	s.does = append(s.does, rec)
	return rec
}

func (s *scen) permitted(c *canary) bool {
	if s.disabled {
		return false
	}
	for _, p := range s.carved {
		if p.port == c.port && (p.addr == c.addr || c.wildcard) {
			return true
		}
	}
	if !c.wildcard {
		if in, _ := floorOf(c.addr); !in {
			return true // public by range
		}
	}
	return false
}

type scenOut struct {
	kind         string
	violations   []vp.Violation
	inconclusive string
	stats        map[string]int64
	sets         map[string][]string
	sample       any
	nontrivial   bool
	permitted    []string
}

// finish fences every canary and judges.
func (s *scen) finish() scenOut {
	out := scenOut{kind: s.kind, stats: map[string]int64{}, sets: map[string][]string{}}
	defer func() {
		if s.child {
			return // listeners stay open: ports must stay unique for the strace log
		}
		for _, c := range s.canaries {
			c.close()
		}
	}()
	for _, p := range s.carved {
		out.permitted = append(out.permitted, p.String())
	}
	for _, c := range s.canaries {
		if !c.wildcard && s.permitted(c) {
			out.permitted = append(out.permitted, c.hostPort())
		}
	}
	out.stats["dial_scenarios"] = 1
	// observation counters are always present in the evidence, also when 0
	out.stats["redirects_followed_observed"] += 0
	out.stats["proxy_env_honoured_observed"] += 0
	out.stats["dial_requests"] = int64(len(s.does))
	if s.res != nil {
		out.stats["resolver_lookups"] = int64(s.res.total)
	}
	for _, d := range s.does {
		out.sets["dial_outcomes"] = append(out.sets["dial_outcomes"], d.Outcome)
		if strings.HasPrefix(d.Outcome, "forbidden") || d.Outcome == "disabled" {
			out.stats["dial_requests_refused"]++
		}
	}
	out.sets["dial_scenario_kinds"] = []string{s.kind}
	out.sets["dial_inputs"] = s.subInputs
	out.sample = map[string]any{"kind": "dial/" + s.kind, "allowlist": s.rawAllow, "requests": s.does}
	if s.setupFail != "" {
		out.inconclusive = "scenario " + s.kind + " could not be set up: " + s.setupFail
		return out
	}
	if s.child {
		return out
	}

	px, _ := theProxy()
	all := append([]*canary{}, s.canaries...)
	if px != nil {
		all = append(all, px)
	}
	for _, c := range all {
		live := c.fence()
		made := 0
		if c == px {
			if live {
				proxyFences++
			}
			made = proxyFences
		} else {
			if live {
				s.fencesMade[c]++
			}
			made = s.fencesMade[c]
		}
		if !live {
			out.inconclusive = fmt.Sprintf("canary %s (%s) is not reachable by the harness itself: the observer is not live", c.name, c.hostPort())
			return out
		}
		out.stats["canaries_fenced"]++
		n := c.foreign(made)
		if c == px {
			// the proxy canary lives for the whole process: compare with the
			// running total of foreign connections already attributed
			n -= proxyForeignSeen
			proxyForeignSeen += n
		}
		if n == 0 {
			if !s.permitted(c) {
				out.stats["canary_silent_as_demanded"]++
			}
			continue
		}
		if s.permitted(c) {
			if c == px {
				// OBSERVATION, not a violation: the request went through the
				// proxy named by the environment, but the proxy is itself an
				// exact carved-out (IP,port) of this scenario, so no connection
				// to a refused non-carved address was made.
				out.stats["proxy_env_honoured_observed"] += int64(n)
				out.sets["observations"] = append(out.sets["observations"], "proxy-env-honoured/"+s.kind)
				continue
			}
			out.stats["canary_connections_expected"] += int64(n)
			continue
		}
		class, shape := "refused-address-connected", s.kind
		_, fl := floorOf(c.addr)
		out.violations = append(out.violations, vp.Violation{
			Property: "C18", Class: class, Identity: "C18/" + class + "/" + shape,
			Detail: fmt.Sprintf("listener %q on %s (floor class %s, not an allow-listed exact (IP,port)) accepted %d connection(s) made by egress.Service.Do in scenario %q",
				c.name, c.hostPort(), fl, n, s.kind),
			Case: map[string]any{"index": s.idx, "scenario": s.kind, "variant": s.variant, "allowlist": s.rawAllow, "requests": s.does,
				"carved_out": out.permitted},
			Witness: map[string]any{"listener": c.hostPort(), "received": c.observed()},
		})
	}
	// A followed redirect is an OBSERVATION only (doc.go says "redirects are not
	// followed", but the property demands only that no hop connects to a refused
	// non-carved address - that is judged above, per listener).
	for _, c := range s.noFollow {
		for _, line := range c.observed() {
			if strings.Contains(line, "/redirected") {
				out.stats["redirects_followed_observed"]++
				out.sets["observations"] = append(out.sets["observations"], "redirect-followed/"+s.kind)
				break
			}
		}
	}
	// positive controls: the path must be live, otherwise silence means nothing
	for _, c := range s.wantOK {
		if c.foreign(s.fencesMade[c]) == 0 {
			out.inconclusive = fmt.Sprintf("positive control failed in %s: the exact carve-out %s was not reachable through Do (%v)", s.kind, c.hostPort(), s.does)
		}
	}
	out.nontrivial = len(s.does) > 0 && out.stats["canaries_fenced"] > 0
	return out
}

var proxyForeignSeen int

// expectOK performs a request that must reach the exact carve-out c.
func (s *scen) expectOK(c *canary, url string) {
	s.do(url)
	s.wantOK = append(s.wantOK, c)
}

func (s *scen) sub(x string) { s.subInputs = append(s.subInputs, s.kind+":"+x) }

// ---------------------------------------------------------------------------
// the scenario kinds

type scenDef struct {
	kind string
	run  func(s *scen)
}

func u(scheme, host string, port int, path string) string {
	return scheme + "://" + net.JoinHostPort(host, strconv.Itoa(port)) + path
}

var scenarios = []scenDef{
	{"carveout-exact-positive-control", func(s *scen) {
		a := s.listen("A", s.loopIP(), 0)
		s.carve(a)
		// a hostname that resolves to the carved pair: permitted either way
		s.allowHost("ollama.example", a.port)
		s.res.set("ollama.example", ips(a.addr.String()))
		s.expectOK(a, "http://"+a.hostPort()+"/v1/embeddings")
		s.do(u("http", "ollama.example", a.port, "/"))
	}},
	{"carveout-same-ip-other-port", func(s *scen) {
		ip := s.loopIP()
		a := s.listen("A", ip, 0)
		b := s.listen("B", ip, 0)
		s.carve(a)
		s.allowHost("svc.example", b.port)
		s.res.set("svc.example", ips(ip))
		s.expectOK(a, "http://"+a.hostPort()+"/")
		s.do(u("http", "svc.example", b.port, "/"))
		s.do(u("https", "svc.example", b.port, "/"))
		s.do("http://" + b.hostPort() + "/")
		s.do("https://" + b.hostPort() + "/")
	}},
	{"carveout-other-ip-same-port", func(s *scen) {
		a, d := s.listenSamePort("A", s.loopIP(), "D", s.loopIP())
		s.carve(a)
		s.allowHost("svc.example", d.port)
		s.res.set("svc.example", ips(d.addr.String()), ips(d.addr.String(), a.addr.String()))
		s.expectOK(a, "http://"+a.hostPort()+"/")
		s.do(u("http", "svc.example", d.port, "/"))
		s.do(u("https", "svc.example", d.port, "/"))
		s.do("http://" + d.hostPort() + "/")
	}},
	{"answers-private-first-then-public", func(s *scen) {
		var b, p *canary
		pub := "203.0.113.9"
		if s.publicIP != "" {
			p, b = s.listenSamePort("P", s.publicIP, "B", "127.0.0.1")
			pub = s.publicIP
		} else {
			b = s.listen("B", "127.0.0.1", 0)
		}
		s.allowHost("mixed.example", b.port)
		ans := []string{"10.0.0.1", "127.0.0.1", "172.16.0.1", "192.168.1.1", "100.64.0.1", "169.254.169.254", "::1", "::ffff:127.0.0.1", "0.0.0.0"}
		s.r.Shuffle(len(ans), func(i, j int) { ans[i], ans[j] = ans[j], ans[i] })
		ans = append(ans, pub)
		s.res.set("mixed.example", ips(ans...))
		s.do(u("http", "mixed.example", b.port, "/"))
		s.do(u("https", "mixed.example", b.port, "/"))
		_ = p
	}},
	{"answers-public-fails-then-private", func(s *scen) {
		b := s.listen("B", "127.0.0.1", 0)
		s.allowHost("fall.example", b.port)
		s.res.set("fall.example", ips("203.0.113.9", "127.0.0.1"), ips("198.51.100.7", "::ffff:127.0.0.1", "127.0.0.1"))
		s.do(u("http", "fall.example", b.port, "/"))
		s.do(u("https", "fall.example", b.port, "/"))
	}},
	{"rebinding-between-lookups", func(s *scen) {
		var b *canary
		pub := "203.0.113.9"
		if s.publicIP != "" {
			_, b = s.listenSamePort("P", s.publicIP, "B", "127.0.0.1")
			pub = s.publicIP
		} else {
			b = s.listen("B", "127.0.0.1", 0)
		}
		s.allowHost("rebind.example", b.port)
		s.res.set("rebind.example", ips(pub), ips("127.0.0.1"), ips(pub), ips("127.0.0.1", "169.254.169.254"), ips("::ffff:127.0.0.1"))
		for i := 0; i < 5; i++ {
			sch := "http"
			if i%2 == 1 && s.r.Intn(2) == 0 {
				sch = "https"
			}
			s.do(u(sch, "rebind.example", b.port, "/"))
		}
	}},
	{"host-encodings", func(s *scen) {
		b := s.listen("B", "127.0.0.1", 0)
		hosts := []string{"2130706433", "0177.0.0.1", "0x7f.1", "0x7f000001", "127.1", "017700000001", "0x7f.0.0.1", "127.0.0.1.", "localhost.", "LOCALHOST", "127.0.0.1.nip.example", "0", "127.000.000.001"}
		for _, h := range hosts {
			s.allowHost(h, b.port)
			s.res.set(h, ips("127.0.0.1"))
			s.sub(h)
		}
		for _, h := range hosts {
			s.do("http://" + h + ":" + strconv.Itoa(b.port) + "/")
			s.do("https://" + h + ":" + strconv.Itoa(b.port) + "/")
		}
	}},
	{"ip-literal-forms", func(s *scen) {
		a, d := s.listenSamePort("A", "127.0.0.1", "D", s.loopIP())
		b := s.listen("B", "127.0.0.1", 0)
		var c6 *canary
		if c, err := listenCanary("C6", "::1", a.port); err == nil {
			c6 = c
			s.canaries = append(s.canaries, c)
		}
		s.carve(a)
		s.expectOK(a, "http://"+a.hostPort()+"/")
		pa, pb := strconv.Itoa(a.port), strconv.Itoa(b.port)
		for _, t := range []string{
			"http://127.0.0.1:" + pb + "/", "http://[::ffff:127.0.0.1]:" + pb + "/", "http://[::ffff:7f00:1]:" + pb + "/",
			"http://[::1]:" + pa + "/", "http://[0:0:0:0:0:0:0:1]:" + pa + "/", "http://[::127.0.0.1]:" + pa + "/",
			"http://" + d.addr.String() + ":" + pa + "/", "http://0.0.0.0:" + pa + "/", "http://[::]:" + pa + "/", "http://0:" + pb + "/",
			"http://[::ffff:0:127.0.0.1]:" + pb + "/", "http://[64:ff9b::7f00:1]:" + pb + "/", "http://[2002:7f00:1::]:" + pb + "/",
			"https://127.0.0.1:" + pb + "/", "https://[::1]:" + pa + "/", "http://[::1%25lo]:" + pa + "/", "http://127.0.0.1:0" + pb + "/",
			"http://127.0.0.1:" + strconv.Itoa(b.port+65536) + "/", "http://[::ffff:127.0.0.1]:" + pa + "/",
		} {
			s.sub(strings.NewReplacer(pa, "PA", pb, "PB", d.addr.String(), "D").Replace(t))
			s.do(t)
		}
		_ = c6
	}},
	{"userinfo-and-authority-tricks", func(s *scen) {
		ip := "127.0.0.1"
		a := s.listen("A", ip, 0)
		b := s.listen("B", ip, 0)
		s.carve(a)
		s.allowHost("evil.example", b.port)
		s.res.set("evil.example", ips(ip))
		pa, pb := a.hostPort(), b.hostPort()
		s.expectOK(a, "http://"+pa+"/")
		for _, t := range []string{
			"http://" + pa + "@" + pb + "/", "http://user:pw@" + pb + "/", "http://" + pa + "#@" + pb + "/", "http://" + pa + "\\@" + pb + "/",
			"http://" + pb + "#@" + pa + "/", "http://" + pa + "%2f@" + pb + "/", "http://" + pa + "@evil.example:" + strconv.Itoa(b.port) + "/",
			"http://evil.example:" + strconv.Itoa(b.port) + "/?u=http://" + pa + "/", "http://" + pa + ":@" + pb, "http://" + pa + "?@" + pb + "/",
			"http:" + pb, "http:///" + pb, "//" + pb + "/", "HTTP://" + pb + "/", "http://" + pa + " @" + pb + "/",
		} {
			s.sub(strings.NewReplacer(pa, "A", pb, "B").Replace(t))
			s.do(t)
		}
	}},
	{"header-tricks", func(s *scen) {
		ip := "127.0.0.1"
		a := s.listen("A", ip, 0)
		b := s.listen("B", ip, 0)
		s.carve(a)
		s.expectOK(a, "http://"+a.hostPort()+"/")
		for _, h := range []map[string][]string{
			{"Host": {b.hostPort()}}, {"host": {b.hostPort()}}, {":authority": {b.hostPort()}}, {"X-Forwarded-Host": {b.hostPort()}},
			{"Proxy-Connection": {"keep-alive"}}, {"Connection": {"upgrade"}, "Upgrade": {"h2c"}}, {"X-A": {"a\r\nHost: " + b.hostPort()}},
			{"Forwarded": {"host=" + b.hostPort()}}, {"Authorization": {"Bearer x"}}, {"Proxy-Authorization": {"Basic eA=="}},
		} {
			for k := range h {
				s.sub(k)
			}
			s.doH("http://"+a.hostPort()+"/h", h)
		}
	}},
	{"redirect-to-non-carved", func(s *scen) {
		ip := "127.0.0.1"
		a := s.listen("A", ip, 0)
		b := s.listen("B", ip, 0)
		a.redirectCode = []int{301, 302, 303, 307, 308}[s.variant%5]
		if s.variant%2 == 0 {
			a.redirectTo = "http://" + b.hostPort() + "/redirected"
		} else {
			a.redirectTo = u("http", "hop.example", b.port, "/redirected")
			s.allowHost("hop.example", b.port)
			s.res.set("hop.example", ips(ip))
		}
		s.sub(strconv.Itoa(a.redirectCode))
		s.carve(a)
		s.noFollow = append(s.noFollow, b)
		s.expectOK(a, "http://"+a.hostPort()+"/")
		s.do("http://" + a.hostPort() + "/again")
	}},
	{"redirect-to-carved", func(s *scen) {
		a := s.listen("A", "127.0.0.1", 0)
		b := s.listen("B", s.loopIP(), 0)
		a.redirectCode = []int{302, 307, 301, 308, 303}[s.variant%5]
		a.redirectTo = "http://" + b.hostPort() + "/redirected"
		s.sub(strconv.Itoa(a.redirectCode))
		s.carve(a)
		s.carve(b)
		s.noFollow = append(s.noFollow, b)
		s.expectOK(a, "http://"+a.hostPort()+"/")
	}},
	{"proxy-env-proxy-carved-out", func(s *scen) {
		px, err := theProxy()
		if err != nil {
			s.fail("proxy canary: %v", err)
			return
		}
		if s.child {
			// the proxy listener is process-global: carving it out in the strace
			// child would hide a connect(2) to it in every other scenario
			return
		}
		// the operator happens to allow-list the local service the proxy
		// variables point at: a proxied request then reaches only an exact
		// carved-out (IP,port) - recorded as an observation, not a violation
		s.allowParsed("http://" + px.hostPort())
		s.carved = append(s.carved, pair{px.addr, px.port})
		s.allowParsed("api.example")
		s.allowStruct("http", "api.example", 80)
		s.res.set("api.example", ips("169.254.169.254", "10.0.0.1"))
		s.do("http://api.example/latest/meta-data/")
		s.do("https://api.example/latest/meta-data/")
		s.do("http://api.example:80/")
	}},
	{"proxy-env-proxy-not-carved", func(s *scen) {
		if _, err := theProxy(); err != nil {
			s.fail("proxy canary: %v", err)
			return
		}
		b := s.listen("B", "127.0.0.1", 0)
		s.allowHost("api.example", b.port)
		s.res.set("api.example", ips("127.0.0.1"))
		s.do(u("http", "api.example", b.port, "/"))
		s.do(u("https", "api.example", b.port, "/"))
	}},
	{"real-resolver-localhost", func(s *scen) {
		if s.child {
			return // the system resolver makes its own UDP connect(2) calls
		}
		s.realDNS = true
		b := s.listen("B", "127.0.0.1", 0)
		if c, err := listenCanary("C6", "::1", b.port); err == nil {
			s.canaries = append(s.canaries, c)
		}
		s.allowHost("localhost", b.port)
		s.do(u("http", "localhost", b.port, "/"))
		s.do(u("https", "localhost", b.port, "/"))
		s.do(u("http", "LocalHost", b.port, "/"))
	}},
	{"answers-embedded-v4-in-v6", func(s *scen) {
		b := s.listen("B", "127.0.0.1", 0)
		s.allowHost("six.example", b.port)
		ans := []string{"64:ff9b::7f00:1", "2002:7f00:1::1", "::ffff:0:127.0.0.1", "2001:0:7f00:1::", "::127.0.0.1", "::ffff:127.0.0.1",
			"64:ff9b::a9fe:a9fe", "2002:a9fe:a9fe::", "2001:0:808:808:0:0:5601:5601", "fe80::1", "fec0::1", "fd00::1", "ff02::1", "::", "::1"}
		s.r.Shuffle(len(ans), func(i, j int) { ans[i], ans[j] = ans[j], ans[i] })
		s.res.set("six.example", ips(ans...))
		s.do(u("http", "six.example", b.port, "/"))
		s.do(u("https", "six.example", b.port, "/"))
	}},
	{"answers-local-ula-or-v6-loopback", func(s *scen) {
		ip := "::1"
		if s.ulaIP != "" && s.variant%2 == 0 {
			ip = s.ulaIP
		}
		c := s.listen("U", ip, 0)
		s.sub(ip)
		s.allowHost("ula.example", c.port)
		s.res.set("ula.example", ips(ip))
		s.do(u("http", "ula.example", c.port, "/"))
		s.do(u("https", "ula.example", c.port, "/"))
	}},
	{"answers-whole-loopback-range", func(s *scen) {
		a, b := s.listenSamePort("L1", s.loopIP(), "L2", s.loopIP())
		s.allowHost("lo.example", a.port)
		s.res.set("lo.example", ips(a.addr.String(), b.addr.String(), "127.255.255.254"))
		s.do(u("http", "lo.example", a.port, "/"))
		s.do(u("https", "lo.example", a.port, "/"))
	}},
	{"answers-malformed", func(s *scen) {
		b := s.listen("B", "127.0.0.1", 0)
		s.allowHost("junk.example", b.port)
		s.allowHost("empty.example", b.port)
		s.allowHost("fail.example", b.port)
		s.res.set("junk.example", []net.IP{nil, {1, 2, 3}, {1, 2, 3, 4, 5}, {}, net.ParseIP("127.0.0.1")},
			[]net.IP{net.IP(make([]byte, 16)), net.IP(make([]byte, 4)), {127, 0, 0, 1}})
		s.res.set("empty.example", []net.IP{})
		s.res.fail["fail.example"] = true
		for _, h := range []string{"junk.example", "junk.example", "empty.example", "fail.example", "unknown.example"} {
			s.do(u("http", h, b.port, "/"))
		}
	}},
	{"zero-address", func(s *scen) {
		w := s.listen("W", "0.0.0.0", 0)
		s.allowHost("zero.example", w.port)
		s.res.set("zero.example", ips("0.0.0.0"), ips("::"), ips("0.0.0.1", "::ffff:0.0.0.0"))
		for i := 0; i < 3; i++ {
			s.do(u("http", "zero.example", w.port, "/"))
		}
		s.do(u("https", "zero.example", w.port, "/"))
	}},
	{"policy-disabled", func(s *scen) {
		b := s.listen("B", "127.0.0.1", 0)
		s.disabled = true
		if s.variant%2 == 1 {
			z := egress.DenyAll()
			s.policy = &z
		}
		s.allowParsed("http://" + b.hostPort()) // present but the policy is not enabled
		s.allowHost("svc.example", b.port)
		s.res.set("svc.example", ips("127.0.0.1"))
		s.do("http://" + b.hostPort() + "/")
		s.do(u("http", "svc.example", b.port, "/"))
	}},
	{"ceiling-clamped-effective-policy", func(s *scen) {
		ip := "127.0.0.1"
		a := s.listen("A", ip, 0)
		b := s.listen("B", ip, 0)
		per, err := egress.PolicyFromSettings(map[string]string{
			egress.ConfigKeyAllow:   "http://" + a.hostPort() + ", http://" + b.hostPort() + " svc.example:" + strconv.Itoa(b.port),
			egress.ConfigKeyTimeout: "1500ms",
		})
		if err != nil {
			s.fail("PolicyFromSettings: %v", err)
			return
		}
		ceilAllow, err := egress.ParseAllowlist("http://" + a.hostPort())
		if err != nil {
			s.fail("ParseAllowlist: %v", err)
			return
		}
		ceiling := egress.Policy{Enabled: true, Allowlist: ceilAllow}
		if s.variant%3 == 2 {
			ceiling = egress.DenyAll()
			s.disabled = true
		}
		eff, _ := egress.ResolvePolicy(per, ceiling)
		s.policy = &eff
		s.rawAllow = append(s.rawAllow, "per: A,B,svc.example ; ceiling: A only (variant%3==2: ceiling disabled)")
		s.carved = append(s.carved, pair{a.addr, a.port}) // what the CEILING admits; B is beyond it
		s.res.set("svc.example", ips(ip))
		if !s.disabled {
			s.expectOK(a, "http://"+a.hostPort()+"/")
		} else {
			s.do("http://" + a.hostPort() + "/")
		}
		s.do("http://" + b.hostPort() + "/")
		s.do(u("https", "svc.example", b.port, "/"))
	}},
}

// runScenario executes scenario kind k (variant v).
func runScenario(idx int, seed int64, k, variant int, child bool) scenOut {
	def := scenarios[k]
	s := &scen{kind: def.kind, idx: idx, variant: variant, child: child,
		r:          rand.New(rand.NewSource(seed*1_000_003 + int64(k)*7919 + int64(variant))),
		res:        newScriptResolver(),
		fencesMade: map[*canary]int{}}
	s.publicIP, s.ulaIP = localAddrs()
	if _, err := theProxy(); err != nil {
		s.fail("proxy canary: %v", err)
	}
	if s.setupFail == "" {
		def.run(s)
	}
	return s.finish()
}

// runDialCase is one (kind, variant) scenario as a harness case.
func runDialCase(idx int, seed int64, k, variant int) vp.CaseResult {
	o := runScenario(idx, seed, k, variant, false)
	for k := range o.sets {
		sort.Strings(o.sets[k])
	}
	return vp.CaseResult{
		Sig: "dial/" + o.kind, Nontrivial: o.nontrivial, Violations: o.violations, Inconclusive: o.inconclusive,
		Stats: o.stats, Sets: o.sets, Sample: o.sample,
	}
}

// runTraceChild is what the strace'd child does: every scenario once, no
// harness-made connections, then the list of permitted pairs to the side file.
func runTraceChild(idx int, seed int64, out string) vp.CaseResult {
	type side struct {
		Permitted []string `json:"permitted"`
		Proxy     string   `json:"proxy"`
		Scenarios int      `json:"scenarios"`
		Requests  int      `json:"requests"`
		SetupFail []string `json:"setup_fail"`
	}
	var sd side
	for k := range scenarios {
		o := runScenario(idx, seed, k, k, true)
		sd.Permitted = append(sd.Permitted, o.permitted...)
		sd.Scenarios++
		sd.Requests += int(o.stats["dial_requests"])
		if o.inconclusive != "" {
			sd.SetupFail = append(sd.SetupFail, o.inconclusive)
		}
	}
	if px, _ := theProxy(); px != nil {
		sd.Proxy = px.hostPort()
	}
	b, _ := json.Marshal(sd)
	os.WriteFile(out, b, 0o644)
	return vp.CaseResult{Sig: "dial/strace-child", Stats: map[string]int64{"child_requests": int64(sd.Requests)}}
}
