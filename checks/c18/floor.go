package c18

// The INDEPENDENT classifier. It is written from the documented refused floor
// only (doc.go / ipguard.go comments of the egress package and the property
// text), on plain integers and byte arrays, and shares no code and no tables
// with the guard under test (no net.IPNet, no net.IP methods).
//
// Floor (IPv4): 0/8, 10/8, 100.64/10, 127/8, 169.254/16, 172.16/12,
// 192.168/16, 224/4 and above (multicast, 240/4 reserved, broadcast).
// Floor (IPv6, native): ::, ::1, fe80::/10, fec0::/10, fc00::/7, ff00::/8.
// Floor (IPv6 embedding an IPv4 of the floor): v4-mapped ::ffff:a.b.c.d,
// v4-compatible ::a.b.c.d, v4-translated ::ffff:0:a.b.c.d, NAT64
// 64:ff9b::/96, 6to4 2002:AABB:CCDD::/48, Teredo 2001:0::/32 (server address
// in bytes 4..7, client address in bytes 12..15 XOR 0xffffffff; the guard's
// own comment says "embeds a v4 (obfuscated) client/server address").
//
// Everything else is "not in the floor": the guard may or may not refuse it,
// the check never objects.

// v4Class returns the name of the floor range a (host-order) IPv4 address lies
// in, or "" when the address is not in the floor.
func v4Class(a uint32) string {
	switch {
	case a>>24 == 0:
		return "this-network"
	case a>>24 == 10:
		return "rfc1918-10"
	case a>>22 == (100<<24|64<<16)>>22:
		return "cgnat"
	case a>>24 == 127:
		return "loopback"
	case a>>16 == 169<<8|254:
		return "link-local"
	case a>>20 == (172<<24|16<<16)>>20:
		return "rfc1918-172"
	case a>>16 == 192<<8|168:
		return "rfc1918-192"
	case a>>28 == 0xe:
		return "multicast"
	case a>>28 == 0xf:
		return "reserved-240"
	}
	return ""
}

// v4Ranges is the same floor as [lo, hi] pairs; used only to GENERATE boundary
// inputs and to name the classes a /8 intersects (never to judge).
var v4Ranges = []struct {
	name   string
	lo, hi uint32
}{
	{"this-network", 0x00000000, 0x00ffffff},
	{"rfc1918-10", 0x0a000000, 0x0affffff},
	{"cgnat", 0x64400000, 0x647fffff},
	{"loopback", 0x7f000000, 0x7fffffff},
	{"link-local", 0xa9fe0000, 0xa9feffff},
	{"rfc1918-172", 0xac100000, 0xac1fffff},
	{"rfc1918-192", 0xc0a80000, 0xc0a8ffff},
	{"multicast", 0xe0000000, 0xefffffff},
	{"reserved-240", 0xf0000000, 0xffffffff},
}

func be32(b []byte) uint32 {
	return uint32(b[0])<<24 | uint32(b[1])<<16 | uint32(b[2])<<8 | uint32(b[3])
}

func put32(b []byte, a uint32) {
	b[0], b[1], b[2], b[3] = byte(a>>24), byte(a>>16), byte(a>>8), byte(a)
}

func allZero(b []byte) bool {
	for _, x := range b {
		if x != 0 {
			return false
		}
	}
	return true
}

// v6Class classifies a 16-byte address. form is the structural form the
// address has ("native", "mapped", "compat", ...); class is non-empty iff the
// address is in the documented floor.
func v6Class(b *[16]byte) (form, class string) {
	switch {
	case allZero(b[0:10]) && b[10] == 0xff && b[11] == 0xff:
		return "mapped", v4Class(be32(b[12:16]))
	case allZero(b[0:12]):
		// ::a.b.c.d ; :: and ::1 are also the native unspecified / loopback.
		a := be32(b[12:16])
		if a == 0 {
			return "native", "v6-unspecified"
		}
		if a == 1 {
			return "native", "v6-loopback"
		}
		return "compat", v4Class(a)
	case allZero(b[0:8]) && b[8] == 0xff && b[9] == 0xff && b[10] == 0 && b[11] == 0:
		return "translated", v4Class(be32(b[12:16]))
	case b[0] == 0x00 && b[1] == 0x64 && b[2] == 0xff && b[3] == 0x9b && allZero(b[4:12]):
		return "nat64", v4Class(be32(b[12:16]))
	case b[0] == 0x20 && b[1] == 0x02:
		return "6to4", v4Class(be32(b[2:6]))
	case b[0] == 0x20 && b[1] == 0x01 && b[2] == 0 && b[3] == 0:
		if c := v4Class(be32(b[4:8])); c != "" {
			return "teredo-server", c
		}
		if c := v4Class(^be32(b[12:16])); c != "" {
			return "teredo-client", c
		}
		return "teredo", ""
	case b[0] == 0xfe && b[1]&0xc0 == 0x80:
		return "native", "v6-link-local"
	case b[0] == 0xfe && b[1]&0xc0 == 0xc0:
		return "native", "v6-site-local"
	case b[0]&0xfe == 0xfc:
		return "native", "v6-ula"
	case b[0] == 0xff:
		return "native", "v6-multicast"
	}
	return "native", ""
}

// embedding forms: how to place an IPv4 address into a 16-byte address.
var embedForms = []string{"mapped", "compat", "translated", "nat64", "6to4", "teredo-server", "teredo-client"}

// embed writes the given form of v4 address a into b. fill supplies the bits
// that the form leaves free (6to4 suffix, Teredo flags/port/other address).
// For the Teredo forms the OTHER embedded address is set to a public address
// so that only the address under test decides.
func embed(form string, a uint32, fill uint64, b *[16]byte) {
	*b = [16]byte{}
	switch form {
	case "mapped":
		b[10], b[11] = 0xff, 0xff
		put32(b[12:16], a)
	case "compat":
		put32(b[12:16], a)
	case "translated":
		b[8], b[9] = 0xff, 0xff
		put32(b[12:16], a)
	case "nat64":
		b[1], b[2], b[3] = 0x64, 0xff, 0x9b
		put32(b[12:16], a)
	case "6to4":
		b[0], b[1] = 0x20, 0x02
		put32(b[2:6], a)
		for i := 0; i < 8; i++ {
			b[8+i] = byte(fill >> (8 * i))
		}
		b[6], b[7] = byte(fill>>3), byte(fill>>11)
	case "teredo-server":
		b[0], b[1] = 0x20, 0x01
		put32(b[4:8], a)
		b[8], b[9], b[10], b[11] = byte(fill), byte(fill>>8), byte(fill>>16), byte(fill>>24)
		put32(b[12:16], ^uint32(0x08080808)) // client 8.8.8.8 (public), obfuscated
	case "teredo-client":
		b[0], b[1] = 0x20, 0x01
		put32(b[4:8], 0x08080808) // server 8.8.8.8 (public)
		b[8], b[9], b[10], b[11] = byte(fill), byte(fill>>8), byte(fill>>16), byte(fill>>24)
		put32(b[12:16], ^a)
	}
}

// boundaryV4 returns every range boundary and its neighbours (lo-1, lo, lo+1,
// hi-1, hi, hi+1) plus a handful of well-known members.
func boundaryV4() []uint32 {
	seen := map[uint32]bool{}
	var out []uint32
	add := func(a uint32) {
		if !seen[a] {
			seen[a] = true
			out = append(out, a)
		}
	}
	for _, r := range v4Ranges {
		for _, a := range []uint32{r.lo - 1, r.lo, r.lo + 1, r.hi - 1, r.hi, r.hi + 1} {
			add(a)
		}
		add(r.lo + (r.hi-r.lo)/2)
	}
	for _, a := range []uint32{
		0xa9fea9fe, // 169.254.169.254 metadata
		0x7f000001, 0x7f000035, 0x0a000001, 0xc0a80001, 0xac100001, 0x64400001,
		0x08080808, 0x01010101, 0xc0000201, 0xc6336401, 0xcb007101, 0xc0586301,
		0xc6120001, 0xffffffff, 0xe0000001, 0x00000000, 0x00000001,
		0x64000000, 0x643fffff, 0x64800000, 0xac0fffff, 0xac200000, 0xa9fdffff, 0xa9ff0000,
	} {
		add(a)
	}
	return out
}
