package c18

import (
	"bufio"
	"context"
	"fmt"
	"net"
	"net/netip"
	"os"
	"strconv"
	"strings"
	"sync"
	"time"
)

// canary is a loopback (or other local-address) TCP listener that records
// every accepted connection. It speaks just enough HTTP that a request that
// does get through produces a recognisable response ("CANARY <name>").
type canary struct {
	name     string
	ln       net.Listener
	addr     netip.Addr // unmapped
	port     int
	wildcard bool

	// behaviour
	redirectTo   string // non-empty: answer with a redirect to this URL
	redirectCode int

	mu       sync.Mutex
	accepted int // every accepted connection, fences included (FIFO with the accept queue)
	fences   int // harness-made marker connections
	seen     []string
	wg       sync.WaitGroup
}

func (c *canary) hostPort() string { return net.JoinHostPort(c.addr.String(), strconv.Itoa(c.port)) }

// dialTarget is where the harness itself connects for a fence.
func (c *canary) dialTarget() string {
	if c.wildcard {
		return net.JoinHostPort("127.0.0.1", strconv.Itoa(c.port))
	}
	return c.hostPort()
}

func listenCanary(name, ip string, port int) (*canary, error) {
	ln, err := net.Listen("tcp", net.JoinHostPort(ip, strconv.Itoa(port)))
	if err != nil {
		return nil, err
	}
	ta := ln.Addr().(*net.TCPAddr)
	a, _ := netip.AddrFromSlice(ta.IP)
	c := &canary{name: name, ln: ln, addr: a.Unmap(), port: ta.Port}
	if ip == "0.0.0.0" || ip == "::" {
		c.wildcard = true
	}
	go c.loop()
	return c, nil
}

func (c *canary) loop() {
	for {
		conn, err := c.ln.Accept()
		if err != nil {
			return
		}
		c.mu.Lock()
		c.accepted++
		c.mu.Unlock()
		c.wg.Add(1)
		go c.serve(conn)
	}
}

func (c *canary) note(s string) {
	c.mu.Lock()
	if len(c.seen) < 16 {
		c.seen = append(c.seen, s)
	}
	c.mu.Unlock()
}

func (c *canary) serve(conn net.Conn) {
	defer c.wg.Done()
	defer conn.Close()
	// housekeeping deadline only (never part of a verdict)
	conn.SetDeadline(time.Now().Add(3 * time.Second))
	br := bufio.NewReader(conn)
	first, err := br.Peek(1)
	if err != nil {
		c.note("connection from " + conn.RemoteAddr().String() + " (closed without data)")
		return
	}
	if first[0] == 0x16 {
		c.note("TLS ClientHello")
		return
	}
	line, err := br.ReadString('\n')
	if err != nil {
		c.note("partial: " + strconv.Quote(line))
		return
	}
	if strings.HasPrefix(line, "FENCE ") {
		c.mu.Lock()
		c.fences++
		c.mu.Unlock()
		conn.Write([]byte("ACK\n"))
		return
	}
	reqLine := strings.TrimSpace(line)
	host := ""
	for {
		h, err := br.ReadString('\n')
		if err != nil || strings.TrimSpace(h) == "" {
			break
		}
		if strings.HasPrefix(strings.ToLower(h), "host:") {
			host = strings.TrimSpace(h[5:])
		}
	}
	c.note(reqLine + " [Host: " + host + "]")
	switch {
	case strings.HasPrefix(reqLine, "CONNECT "):
		conn.Write([]byte("HTTP/1.1 200 Connection established\r\n\r\n"))
	case c.redirectTo != "":
		fmt.Fprintf(conn, "HTTP/1.1 %d Redirect\r\nLocation: %s\r\nContent-Length: 0\r\nConnection: close\r\n\r\n", c.redirectCode, c.redirectTo)
	default:
		body := "CANARY " + c.name
		fmt.Fprintf(conn, "HTTP/1.1 200 OK\r\nContent-Type: text/plain\r\nContent-Length: %d\r\nConnection: close\r\n\r\n%s", len(body), body)
	}
}

// fence makes one marker connection and waits for its acknowledgement. The
// accept queue is FIFO and the accept loop counts a connection before handing
// it off, so once the fence is acknowledged every connection that was
// established before the fence has been counted. Returns false when the
// canary cannot be reached by the harness itself (observer not live).
func (c *canary) fence() bool {
	conn, err := net.DialTimeout("tcp", c.dialTarget(), 5*time.Second)
	if err != nil {
		return false
	}
	defer conn.Close()
	conn.SetDeadline(time.Now().Add(5 * time.Second))
	if _, err := conn.Write([]byte("FENCE x\n")); err != nil {
		return false
	}
	s, err := bufio.NewReader(conn).ReadString('\n')
	return err == nil && s == "ACK\n"
}

// foreign returns the number of accepted connections that were not made by
// the harness. fencesMade is the number of successful fence() calls.
func (c *canary) foreign(fencesMade int) int {
	c.mu.Lock()
	defer c.mu.Unlock()
	return c.accepted - fencesMade
}

func (c *canary) observed() []string {
	c.wg.Wait()
	c.mu.Lock()
	defer c.mu.Unlock()
	return append([]string(nil), c.seen...)
}

func (c *canary) close() { c.ln.Close() }

// ---------------------------------------------------------------------------
// process-global proxy canary: HTTP_PROXY / HTTPS_PROXY / ALL_PROXY point at
// it for the whole life of the worker process (net/http reads the proxy
// environment once per process). No request ever targets it, so ANY foreign
// connection it accepts means the request path honoured the proxy environment.

var (
	proxyOnce   sync.Once
	proxyCanary *canary
	proxyFences int
	proxyErr    error
)

func theProxy() (*canary, error) {
	proxyOnce.Do(func() {
		c, err := listenCanary("proxy", "127.0.0.1", 0)
		if err != nil {
			proxyErr = err
			return
		}
		proxyCanary = c
		u := "http://" + c.hostPort()
		for _, k := range []string{"HTTP_PROXY", "HTTPS_PROXY", "ALL_PROXY", "http_proxy", "https_proxy", "all_proxy"} {
			os.Setenv(k, u)
		}
		os.Unsetenv("NO_PROXY")
		os.Unsetenv("no_proxy")
		os.Unsetenv("REQUEST_METHOD")
	})
	return proxyCanary, proxyErr
}

// ---------------------------------------------------------------------------
// scripted resolver

type scriptResolver struct {
	mu      sync.Mutex
	answers map[string][][]net.IP // host -> successive answer sets (last repeats)
	fail    map[string]bool
	calls   map[string]int
	total   int
}

func newScriptResolver() *scriptResolver {
	return &scriptResolver{answers: map[string][][]net.IP{}, fail: map[string]bool{}, calls: map[string]int{}}
}

func (r *scriptResolver) set(host string, sets ...[]net.IP) {
	r.answers[strings.ToLower(host)] = sets
}

func (r *scriptResolver) LookupIP(_ context.Context, host string) ([]net.IP, error) {
	r.mu.Lock()
	defer r.mu.Unlock()
	r.total++
	h := strings.ToLower(host)
	n := r.calls[h]
	r.calls[h] = n + 1
	if r.fail[h] {
		return nil, &net.DNSError{Err: "scripted failure", Name: host, IsNotFound: true}
	}
	sets, ok := r.answers[h]
	if !ok {
		return nil, &net.DNSError{Err: "no such host (script)", Name: host, IsNotFound: true}
	}
	if n >= len(sets) {
		n = len(sets) - 1
	}
	return sets[n], nil
}

func ips(ss ...string) []net.IP {
	out := make([]net.IP, 0, len(ss))
	for _, s := range ss {
		ip := net.ParseIP(s)
		if ip == nil {
			panic("c18: bad literal in scenario: " + s)
		}
		out = append(out, ip)
	}
	return out
}

// ---------------------------------------------------------------------------
// local addresses

// localAddrs returns one local interface address outside the floor ("public"
// by range: a connection to it is permitted) and one local ULA address, when
// the machine has them. Both are optional.
func localAddrs() (public, ula string) {
	as, err := net.InterfaceAddrs()
	if err != nil {
		return "", ""
	}
	for _, a := range as {
		n, ok := a.(*net.IPNet)
		if !ok {
			continue
		}
		ad, ok := netip.AddrFromSlice(n.IP)
		if !ok {
			continue
		}
		ad = ad.Unmap()
		if in, _ := floorOf(ad); !in && public == "" && ad.Is4() {
			public = ad.String()
		}
		if ad.Is6() && ula == "" {
			b := ad.As16()
			if b[0]&0xfe == 0xfc {
				ula = ad.String()
			}
		}
	}
	return
}

// floorOf applies the independent classifier to a netip.Addr.
func floorOf(a netip.Addr) (bool, string) {
	if a.Is4() {
		b := a.As4()
		c := v4Class(be32(b[:]))
		return c != "", "raw-" + c
	}
	b := a.As16()
	form, class := v6Class(&b)
	return class != "", form + "-" + class
}
