package c18

import (
	"encoding/hex"
	"fmt"
	"math/rand"
	"net"
	"sort"
	"strings"

	"github.com/conduitio/conduit/pkg/plugin/processor/egress"

	"verif/internal/vp"
)

// acc accumulates what the classifier monitor observed in one case.
type acc struct {
	idx int

	judged        int64 // addresses handed to the real Refuse
	inFloor       int64 // independent classifier: in the documented floor
	floorRefused  int64 // ... and the real guard refused (the demanded outcome)
	beyond        int64 // real guard refused although NOT in the floor (observation)
	allowed       int64 // real guard allowed, not in the floor
	floorClasses  map[string]struct{}
	beyondReasons map[string]struct{}
	allowedForms  map[string]struct{}

	lastFloor, lastBeyond, lastAllowed string

	viol      map[string]*vp.Violation
	violCount map[string]int
	samples   []string
}

func newAcc(idx int) *acc {
	return &acc{idx: idx,
		floorClasses: map[string]struct{}{}, beyondReasons: map[string]struct{}{}, allowedForms: map[string]struct{}{},
		viol: map[string]*vp.Violation{}, violCount: map[string]int{}}
}

func fmtAddr(ip net.IP) string {
	return ip.String() + " (0x" + hex.EncodeToString(ip) + ")"
}

// judge hands ip to the real guard and compares with the independent verdict
// (form, class) for the same bytes. Violation iff class != "" and not refused.
func (c *acc) judge(ip net.IP, form, class string) {
	refused, reason := egress.Refuse(ip)
	c.judged++
	if class != "" {
		c.inFloor++
		if refused {
			c.floorRefused++
			k := form + ":" + class
			if k != c.lastFloor {
				c.floorClasses[k] = struct{}{}
				c.lastFloor = k
			}
			return
		}
		id := "C18/floor-not-refused/" + form + "-" + class
		c.violCount[id]++
		if c.viol[id] == nil {
			c.viol[id] = &vp.Violation{
				Property: "C18", Class: "floor-not-refused", Identity: id,
				Detail: fmt.Sprintf("egress.Refuse(%s) = (false, %q) but the address is in the documented refused floor: form=%s class=%s",
					fmtAddr(ip), string(reason), form, class),
				Case:    map[string]any{"index": c.idx, "address": ip.String(), "bytes": hex.EncodeToString(ip), "form": form, "class": class},
				Witness: map[string]any{"refuse_verdict": false, "refuse_reason": string(reason)},
			}
		}
		return
	}
	if refused {
		c.beyond++
		k := form + ":" + string(reason)
		if k != c.lastBeyond {
			c.beyondReasons[k] = struct{}{}
			c.lastBeyond = k
		}
		return
	}
	c.allowed++
	if form != c.lastAllowed {
		c.allowedForms[form] = struct{}{}
		c.lastAllowed = form
	}
}

func (c *acc) judgeRaw(a uint32, buf net.IP) {
	put32(buf, a)
	c.judge(buf, "raw", v4Class(a))
}

func (c *acc) judge16(b *[16]byte) {
	form, class := v6Class(b)
	c.judge(net.IP(b[:]), form, class)
}

func (c *acc) sample(ip net.IP) {
	if len(c.samples) < 4 {
		r, reason := egress.Refuse(ip)
		c.samples = append(c.samples, fmt.Sprintf("%s -> refused=%v %s", ip.String(), r, string(reason)))
	}
}

func keys(m map[string]struct{}) []string {
	out := make([]string, 0, len(m))
	for k := range m {
		out = append(out, k)
	}
	sort.Strings(out)
	return out
}

func (c *acc) result(sig string) vp.CaseResult {
	r := vp.CaseResult{
		Sig: sig,
		// the deciding path: the real guard judged addresses of the floor AND
		// addresses outside it (so both verdicts of the oracle were exercised),
		// or at least floor addresses for chunks that lie wholly inside a range.
		Nontrivial: c.judged > 0 && c.inFloor > 0,
		Stats: map[string]int64{
			"addresses_judged":         c.judged,
			"addresses_in_floor":       c.inFloor,
			"refused_by_floor":         c.floorRefused,
			"refused_beyond_floor":     c.beyond,
			"allowed_outside_floor":    c.allowed,
			"floor_addresses_accepted": c.inFloor - c.floorRefused,
		},
		Sets: map[string][]string{
			"floor_classes_refused": keys(c.floorClasses),
			"beyond_floor_reasons":  keys(c.beyondReasons),
			"allowed_forms":         keys(c.allowedForms),
		},
		Sample: map[string]any{"kind": sig, "examples": c.samples},
	}
	ids := make([]string, 0, len(c.viol))
	for id := range c.viol {
		ids = append(ids, id)
	}
	sort.Strings(ids)
	for _, id := range ids {
		v := *c.viol[id]
		v.Detail += fmt.Sprintf(" [%d such addresses in this chunk]", c.violCount[id])
		r.Violations = append(r.Violations, v)
	}
	return r
}

// ---------------------------------------------------------------------------
// boundary cases (quick + thorough): every range boundary +-1 in one form

var boundaryForms = append([]string{"raw"}, append(append([]string{}, embedForms...), "v6-native")...)

func runBoundary(idx int, form string) vp.CaseResult {
	c := newAcc(idx)
	var b [16]byte
	switch form {
	case "raw":
		buf := make(net.IP, 4)
		for _, a := range boundaryV4() {
			c.judgeRaw(a, buf)
			c.sample(buf)
		}
		// the same addresses as 16-byte values produced by the net package
		for _, a := range boundaryV4() {
			ip := net.IPv4(byte(a>>24), byte(a>>16), byte(a>>8), byte(a))
			c.judge(ip, "mapped", v4Class(a))
		}
	case "v6-native":
		for _, s := range []string{
			"::", "::1", "::2", "::ffff", "::1:0", "::1:0:0", "::1:0:0:0",
			"fe7f:ffff:ffff:ffff:ffff:ffff:ffff:ffff", "fe80::", "fe80::1", "febf:ffff:ffff:ffff:ffff:ffff:ffff:ffff",
			"fec0::", "fec0::1", "feff:ffff:ffff:ffff:ffff:ffff:ffff:ffff", "ff00::", "ff02::1", "ffff:ffff:ffff:ffff:ffff:ffff:ffff:ffff",
			"fbff:ffff:ffff:ffff:ffff:ffff:ffff:ffff", "fc00::", "fc00::1", "fd00::2", "fdff:ffff:ffff:ffff:ffff:ffff:ffff:ffff", "fe00::", "fe00::1",
			"2001::", "2001:0:ffff:ffff:ffff:ffff:ffff:ffff", "2001:1::", "2000:ffff:ffff:ffff:ffff:ffff:ffff:ffff",
			"2002::", "2002:ffff:ffff:ffff:ffff:ffff:ffff:ffff", "2003::", "2001:ffff:ffff:ffff:ffff:ffff:ffff:ffff",
			"64:ff9b::", "64:ff9b::ffff:ffff", "64:ff9b:0:0:0:1::", "64:ff9a:ffff:ffff:ffff:ffff:ffff:ffff", "64:ff9b:1::a9fe:a9fe",
			"::fffe:ffff:ffff", "::ffff:0:0", "::ffff:ffff:ffff", "::1:0:0:0", "::fffe:ffff:ffff:ffff", "::ffff:0:0:0", "::ffff:0:ffff:ffff", "::ffff:1:0:0",
			"2001:db8::1", "2606:4700:4700::1111", "2a00:1450:4001:81b::200e",
		} {
			ip := net.ParseIP(s)
			if ip == nil {
				continue
			}
			copy(b[:], ip.To16())
			c.judge16(&b)
			c.sample(net.IP(b[:]))
		}
	default:
		for i, a := range boundaryV4() {
			for _, fill := range []uint64{0, 0xffffffffffffffff, uint64(i) * 0x9e3779b97f4a7c15} {
				embed(form, a, fill, &b)
				c.judge16(&b)
			}
			c.sample(net.IP(b[:]))
		}
	}
	return c.result("boundary/" + form)
}

// ---------------------------------------------------------------------------
// random cases

// randV4 is half uniform, half clustered around the range boundaries so that
// the small ranges (169.254/16, 192.168/16, 100.64/10, 172.16/12) are hit.
func randV4(r *rand.Rand) uint32 {
	if r.Intn(2) == 0 {
		return r.Uint32()
	}
	rg := v4Ranges[r.Intn(len(v4Ranges))]
	base := rg.lo
	if r.Intn(2) == 0 {
		base = rg.hi
	}
	span := uint32(1) << uint(r.Intn(18))
	return base + uint32(r.Int63n(int64(2*span))) - span
}

func runRandomV4(idx int, form string, n int, r *rand.Rand) vp.CaseResult {
	c := newAcc(idx)
	buf := make(net.IP, 4)
	var b [16]byte
	for i := 0; i < n; i++ {
		a := randV4(r)
		if form == "raw" {
			c.judgeRaw(a, buf)
			if i < 4 {
				c.sample(buf)
			}
			continue
		}
		embed(form, a, r.Uint64(), &b)
		c.judge16(&b)
		if i < 4 {
			c.sample(net.IP(b[:]))
		}
	}
	return c.result("random/" + form)
}

// v6 structured prefixes
var v6Structures = []string{
	"uniform128", "global-2000", "mapped", "compat", "translated", "nat64", "nat64-local-rfc8215",
	"6to4", "teredo", "link-local", "site-local", "ula", "multicast", "fe00-gap", "near-zero",
	"teredo-neighbours", "6to4-neighbours", "nat64-neighbours", "doc-2001-db8",
}

func randV6(structure string, r *rand.Rand, b *[16]byte) {
	for i := 0; i < 16; i += 8 {
		x := r.Uint64()
		for j := 0; j < 8; j++ {
			b[i+j] = byte(x >> (8 * j))
		}
	}
	switch structure {
	case "uniform128":
	case "global-2000":
		b[0] = 0x20 | b[0]&0x1f
	case "mapped", "compat", "translated", "nat64":
		embed(structure, randV4(r), 0, b)
	case "nat64-local-rfc8215":
		a := randV4(r)
		*b = [16]byte{0x00, 0x64, 0xff, 0x9b, 0x00, 0x01}
		put32(b[12:16], a)
	case "6to4":
		b[0], b[1] = 0x20, 0x02
		put32(b[2:6], randV4(r))
	case "teredo":
		b[0], b[1], b[2], b[3] = 0x20, 0x01, 0, 0
		switch r.Intn(3) {
		case 0:
			put32(b[4:8], randV4(r))
		case 1:
			put32(b[12:16], ^randV4(r))
		default:
			put32(b[4:8], randV4(r))
			put32(b[12:16], ^randV4(r))
		}
	case "link-local":
		b[0], b[1] = 0xfe, 0x80|b[1]&0x3f
	case "site-local":
		b[0], b[1] = 0xfe, 0xc0|b[1]&0x3f
	case "ula":
		b[0] = 0xfc | b[0]&1
	case "multicast":
		b[0] = 0xff
	case "fe00-gap":
		b[0], b[1] = 0xfe, b[1]&0x7f
	case "near-zero":
		k := 1 + r.Intn(12)
		for i := 0; i < 16-k; i++ {
			b[i] = 0
		}
	case "teredo-neighbours":
		b[0], b[1] = 0x20, 0x01
		b[2], b[3] = 0, byte(r.Intn(3))
		if r.Intn(4) == 0 {
			b[2], b[3] = 0xff, 0xff
			b[1] = 0x00
		}
	case "6to4-neighbours":
		b[0] = 0x20
		b[1] = byte(1 + r.Intn(3))
	case "nat64-neighbours":
		pre := [12]byte{0x00, 0x64, 0xff, 0x9b}
		copy(b[:12], pre[:])
		put32(b[12:16], randV4(r))
		switch r.Intn(4) {
		case 0:
			b[3] = 0x9a
		case 1:
			b[3] = 0x9c
		case 2:
			b[4+r.Intn(8)] = byte(1 + r.Intn(255))
		}
	case "doc-2001-db8":
		b[0], b[1], b[2], b[3] = 0x20, 0x01, 0x0d, 0xb8
	}
}

func runRandomV6(idx int, n int, r *rand.Rand, which []string) vp.CaseResult {
	c := newAcc(idx)
	var b [16]byte
	for i := 0; i < n; i++ {
		randV6(which[i%len(which)], r, &b)
		c.judge16(&b)
		if i < 4 {
			c.sample(net.IP(b[:]))
		}
	}
	return c.result("random-v6/" + strings.Join(which, "+"))
}

// ---------------------------------------------------------------------------
// exhaustive sweeps (thorough)

// classesOf8 names the floor classes a /8 intersects ("public" when part of it
// is outside the floor) - generation-side description used for the Sig only.
func classesOf8(hi8 uint32) string {
	lo, hi := hi8<<24, hi8<<24|0xffffff
	var names []string
	var covered uint64
	for _, rg := range v4Ranges {
		if rg.hi < lo || rg.lo > hi {
			continue
		}
		names = append(names, rg.name)
		a, b := rg.lo, rg.hi
		if a < lo {
			a = lo
		}
		if b > hi {
			b = hi
		}
		covered += uint64(b-a) + 1
	}
	if covered < 1<<24 {
		names = append(names, "public")
	}
	return strings.Join(names, "+")
}

// runSweep judges ALL 2^24 addresses of hi8.0.0.0/8 in the given form
// ("raw" = 4-byte net.IP, "mapped" = 16-byte ::ffff:a.b.c.d).
func runSweep(idx int, form string, hi8 uint32) vp.CaseResult {
	c := newAcc(idx)
	base := hi8 << 24
	if form == "raw" {
		buf := make(net.IP, 4)
		for lo := uint32(0); lo < 1<<24; lo++ {
			c.judgeRaw(base|lo, buf)
		}
		c.sample(buf)
	} else {
		var b [16]byte
		b[10], b[11] = 0xff, 0xff
		ip := net.IP(b[:])
		for lo := uint32(0); lo < 1<<24; lo++ {
			a := base | lo
			put32(b[12:16], a)
			c.judge(ip, "mapped", v4Class(a))
		}
		c.sample(ip)
	}
	r := c.result("sweep/" + form + "/" + classesOf8(hi8))
	r.Stats["sweep_slash8_blocks_"+form] = 1
	// a /8 that is wholly public is still a meaningful chunk of the exhaustive
	// sweep (the oracle's "not in floor" side); it counts as exercised when
	// the guard actually allowed those addresses.
	r.Nontrivial = c.judged == 1<<24
	return r
}

const embedStride = 251

// runSweepEmbedded walks hi8.0.0.0/8 with a prime stride in every other
// embedding form (the guard refuses those prefixes wholesale, so the sweep is
// strided rather than exhaustive).
func runSweepEmbedded(idx int, hi8 uint32) vp.CaseResult {
	c := newAcc(idx)
	var b [16]byte
	base := hi8 << 24
	for lo := uint32(idx % embedStride); lo < 1<<24; lo += embedStride {
		a := base | lo
		for _, f := range embedForms[1:] {
			embed(f, a, uint64(a)*0x9e3779b97f4a7c15, &b)
			c.judge16(&b)
		}
	}
	c.sample(net.IP(b[:]))
	r := c.result(fmt.Sprintf("sweep/embedded-stride%d/%s", embedStride, classesOf8(hi8)))
	r.Nontrivial = c.judged > 0
	return r
}
