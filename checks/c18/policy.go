package c18

import (
	"context"
	"fmt"
	"math/rand"
	"net/netip"
	"sort"
	"strconv"
	"strings"
	"time"

	"github.com/conduitio/conduit-commons/database/inmemory"
	sdk "github.com/conduitio/conduit-processor-sdk"
	"github.com/conduitio/conduit/pkg/foundation/log"
	"github.com/conduitio/conduit/pkg/plugin/processor/egress"
	"github.com/conduitio/conduit/pkg/processor"

	"verif/internal/vp"
)

// The policy monitor: random (per-processor policy, ceiling) pairs through the
// real ResolvePolicy (and, for a fraction, through the real
// processor.Service -> PluginService.NewProcessor hand-off), judged by the
// documented semantics of policy.go only:
//
//   - per-processor not enabled, or ceiling not enabled  => deny-all (not Enabled)
//   - ceiling.Timeout > 0            => effective Timeout <= ceiling.Timeout
//   - ceiling.MaxResponseBytes > 0   => effective MaxResponseBytes <= ceiling's
//   - ceiling.Allowlist non-empty    => every effective entry is an entry of the
//     ceiling (same scheme, same host or same IP, same port)
//   - ceiling.Allowlist non-empty OR ceiling.SecretRefs non-empty
//     => effective SecretRefs is a subset of ceiling.SecretRefs
//     (documented pass-through only for "enabled, no allowlist, no secret refs")
//   - "intersection": every effective entry / secret ref was requested.

var (
	polHostnames = []string{"api.example.com", "API.Example.COM", "emb.example.org", "a.b", "localhost", "svc-1.internal", "xn--bcher-kva.example", "example.com."}
	polIPs       = []string{"127.0.0.1", "127.0.0.2", "10.0.0.5", "169.254.169.254", "192.168.1.10", "100.64.0.1", "[::1]", "[0:0:0:0:0:0:0:1]",
		"[::ffff:127.0.0.1]", "[fd00::2]", "[fe80::1]", "8.8.8.8", "1.1.1.1", "[2001:db8::1]", "[2606:4700:4700::1111]", "0.0.0.0"}
	polPorts   = []string{"", "", ":80", ":443", ":8080", ":11434", ":8443", ":65535"}
	polSchemes = []string{"", "", "https://", "http://"}
	polSecrets = []string{"OPENAI_KEY", "COHERE_KEY", "hf-token", "db_password", "k1", "k2"}
	polDurs    = []time.Duration{0, -1, -time.Second, 1, time.Millisecond, time.Second, 5 * time.Second, 30 * time.Second, 31 * time.Second, time.Hour, 1<<63 - 1}
	polSizes   = []int64{0, -1, -4096, 1, 1024, 4 << 20, 4<<20 + 1, 1 << 30, 1<<63 - 1}
)

func genEntryRaw(r *rand.Rand) string {
	host := ""
	if r.Intn(2) == 0 {
		host = polHostnames[r.Intn(len(polHostnames))]
	} else {
		host = polIPs[r.Intn(len(polIPs))]
	}
	port := polPorts[r.Intn(len(polPorts))]
	if strings.HasPrefix(host, "[") == false && strings.Contains(host, ":") {
		host = "[" + host + "]"
	}
	return polSchemes[r.Intn(len(polSchemes))] + host + port
}

// genAllowRaw returns a raw allowlist string of n entries that all parse.
func genAllowRaw(r *rand.Rand, n int) []string {
	var out []string
	for tries := 0; len(out) < n && tries < 10*n+10; tries++ {
		raw := genEntryRaw(r)
		if _, err := egress.ParseAllowEntry(raw); err == nil {
			out = append(out, raw)
		}
	}
	return out
}

func genSecrets(r *rand.Rand) []string {
	var out []string
	for _, s := range polSecrets {
		if r.Intn(3) == 0 {
			out = append(out, s)
		}
	}
	return out
}

func refSet(xs []string, nilWhenEmpty bool) map[string]struct{} {
	if len(xs) == 0 && nilWhenEmpty {
		return nil
	}
	m := map[string]struct{}{}
	for _, x := range xs {
		m[x] = struct{}{}
	}
	return m
}

var ceilingKinds = []string{"disabled", "unrestricted-no-secret-grants", "unrestricted-with-secret-grants", "restricted-no-secret-grants", "restricted-with-secret-grants"}
var perKinds = []string{"settings", "struct", "disabled"}

// genCeiling mirrors what conduit.Config.egressCeiling builds from
// processors.egress.* (ParseAllowlist + plain fields).
func genCeiling(r *rand.Rand, kind string, overlap []string) (egress.Policy, map[string]any) {
	desc := map[string]any{"kind": kind}
	if kind == "disabled" {
		if r.Intn(2) == 0 {
			return egress.DenyAll(), desc
		}
		// closed ceiling that still carries data: Enabled=false must win
		al, _ := egress.ParseAllowlist(strings.Join(genAllowRaw(r, 1+r.Intn(3)), ","))
		return egress.Policy{Enabled: false, Allowlist: al, SecretRefs: refSet(polSecrets, false), Timeout: time.Hour, MaxResponseBytes: 1 << 40}, desc
	}
	c := egress.Policy{Enabled: true}
	if strings.HasPrefix(kind, "restricted") {
		raw := genAllowRaw(r, 1+r.Intn(5))
		// make intersections likely: reuse some of the per-processor entries
		for _, o := range overlap {
			if r.Intn(2) == 0 {
				raw = append(raw, o)
			}
		}
		desc["allow"] = raw
		al, err := egress.ParseAllowlist(strings.Join(raw, " , "))
		if err != nil || len(al) == 0 {
			al, _ = egress.ParseAllowlist("api.example.com")
		}
		c.Allowlist = al
	}
	if strings.HasSuffix(kind, "with-secret-grants") {
		s := genSecrets(r)
		if len(s) == 0 {
			s = []string{polSecrets[r.Intn(len(polSecrets))]}
		}
		desc["secret_refs"] = s
		c.SecretRefs = refSet(s, true)
	}
	c.Timeout = polDurs[r.Intn(len(polDurs))]
	c.MaxResponseBytes = polSizes[r.Intn(len(polSizes))]
	if c.Timeout < 0 { // Config.egressCeiling rejects negative bounds at startup
		c.Timeout = 0
	}
	if c.MaxResponseBytes < 0 {
		c.MaxResponseBytes = 0
	}
	desc["timeout"] = c.Timeout.String()
	desc["max_response_bytes"] = c.MaxResponseBytes
	return c, desc
}

func genPer(r *rand.Rand, kind string) (egress.Policy, map[string]string, []string, map[string]any, error) {
	desc := map[string]any{"kind": kind}
	raw := genAllowRaw(r, 1+r.Intn(6))
	desc["allow"] = raw
	switch kind {
	case "disabled":
		if r.Intn(2) == 0 {
			return egress.DenyAll(), map[string]string{}, nil, desc, nil
		}
		al, _ := egress.ParseAllowlist(strings.Join(raw, ","))
		return egress.Policy{Enabled: false, Allowlist: al, SecretRefs: refSet(genSecrets(r), false), Timeout: time.Hour, MaxResponseBytes: 1 << 40}, nil, raw, desc, nil
	case "settings":
		st := map[string]string{egress.ConfigKeyAllow: strings.Join(raw, []string{",", " ", ", ", "\n", "\t"}[r.Intn(5)])}
		if r.Intn(2) == 0 {
			d := polDurs[3+r.Intn(len(polDurs)-3)]
			st[egress.ConfigKeyTimeout] = d.String()
		}
		if r.Intn(2) == 0 {
			st[egress.ConfigKeyMaxResponseBytes] = strconv.FormatInt(polSizes[3+r.Intn(len(polSizes)-3)], 10)
		}
		if s := genSecrets(r); len(s) > 0 {
			st[egress.ConfigKeySecretRefs] = strings.Join(s, ",")
		}
		st["unrelated.key"] = "x"
		desc["settings"] = st
		p, err := egress.PolicyFromSettings(st)
		return p, st, raw, desc, err
	default: // struct
		al, err := egress.ParseAllowlist(strings.Join(raw, ","))
		p := egress.Policy{Enabled: true, Allowlist: al, SecretRefs: refSet(genSecrets(r), r.Intn(2) == 0),
			Timeout: polDurs[r.Intn(len(polDurs))], MaxResponseBytes: polSizes[r.Intn(len(polSizes))]}
		desc["timeout"] = p.Timeout.String()
		desc["max_response_bytes"] = p.MaxResponseBytes
		return p, nil, raw, desc, err
	}
}

func entryIP(e egress.AllowEntry) (netip.Addr, bool) {
	if e.IP == nil {
		return netip.Addr{}, false
	}
	a, ok := netip.AddrFromSlice(e.IP)
	return a.Unmap(), ok
}

// sameEntry: the same (scheme, host-or-IP, port), judged structurally.
func sameEntry(a, b egress.AllowEntry) bool {
	if a.Scheme != b.Scheme || a.Port != b.Port {
		return false
	}
	ia, oka := entryIP(a)
	ib, okb := entryIP(b)
	if oka != okb {
		return false
	}
	if oka {
		return ia == ib
	}
	return strings.EqualFold(a.Host, b.Host)
}

func inList(e egress.AllowEntry, l []egress.AllowEntry) bool {
	for _, x := range l {
		if sameEntry(e, x) {
			return true
		}
	}
	return false
}

func entryStr(e egress.AllowEntry) string {
	return fmt.Sprintf("%s|%s|%s|ip=%v", e.Scheme, e.Host, e.Port, e.IP)
}

type polAcc struct {
	idx   int
	stats map[string]int64
	viol  map[string]*vp.Violation
}

func (a *polAcc) violate(class, shape, detail string, c any, w any) {
	id := "C18/" + class + "/" + shape
	if a.viol[id] == nil {
		a.viol[id] = &vp.Violation{Property: "C18", Class: class, Identity: id, Detail: detail, Case: c, Witness: w}
	}
	a.stats["policy_violations"]++
}

// judgePolicy applies the documented semantics to one (per, ceiling, eff).
func (a *polAcc) judgePolicy(via string, per, ceiling, eff egress.Policy, c map[string]any) {
	a.stats["policies_judged"]++
	w := func() any {
		var al []string
		for _, e := range eff.Allowlist {
			al = append(al, entryStr(e))
		}
		var refs []string
		for k := range eff.SecretRefs {
			refs = append(refs, k)
		}
		sort.Strings(refs)
		return map[string]any{"effective": map[string]any{"enabled": eff.Enabled, "allowlist": al, "secret_refs": refs,
			"timeout": eff.Timeout.String(), "max_response_bytes": eff.MaxResponseBytes}, "via": via}
	}
	if !per.Enabled || !ceiling.Enabled {
		a.stats["policy_deny_all_expected"]++
		if eff.Enabled {
			shape := "enabled-although-ceiling-closed"
			if !per.Enabled {
				shape = "enabled-although-processor-did-not-opt-in"
			}
			a.violate("policy-exceeds-ceiling", shape, "ResolvePolicy returned an ENABLED policy although per.Enabled="+
				strconv.FormatBool(per.Enabled)+" ceiling.Enabled="+strconv.FormatBool(ceiling.Enabled), c, w())
		}
		return
	}
	if !eff.Enabled {
		a.stats["policy_denied_although_both_open"]++ // stricter than demanded: fine
		return
	}
	// hosts
	restricted := len(ceiling.Allowlist) > 0
	for _, e := range eff.Allowlist {
		if restricted && !inList(e, ceiling.Allowlist) {
			a.violate("policy-exceeds-ceiling", "host", "effective allowlist entry "+entryStr(e)+" is not an entry of the (restricted) ceiling", c, w())
		}
		if !inList(e, per.Allowlist) {
			a.violate("policy-not-requested", "host", "effective allowlist entry "+entryStr(e)+" was never requested by the processor", c, w())
		}
	}
	if restricted {
		a.stats["policy_restricted_ceiling"]++
		for _, e := range per.Allowlist {
			if !inList(e, eff.Allowlist) {
				a.stats["policy_hosts_dropped_by_ceiling"]++
			} else {
				a.stats["policy_hosts_kept"]++
			}
		}
	}
	// secrets
	for ref := range eff.SecretRefs {
		if restricted || len(ceiling.SecretRefs) > 0 {
			if _, ok := ceiling.SecretRefs[ref]; !ok {
				a.violate("policy-exceeds-ceiling", "secret-ref", "effective secret ref "+strconv.Quote(ref)+" was not granted by the ceiling", c, w())
			}
		}
		if _, ok := per.SecretRefs[ref]; !ok {
			a.violate("policy-not-requested", "secret-ref", "effective secret ref "+strconv.Quote(ref)+" was never requested", c, w())
		}
	}
	if d := len(per.SecretRefs) - len(eff.SecretRefs); d > 0 {
		a.stats["policy_secret_refs_dropped"] += int64(d)
	}
	// timeout / size
	if ceiling.Timeout > 0 {
		if eff.Timeout > ceiling.Timeout || eff.Timeout <= 0 {
			a.violate("policy-exceeds-ceiling", "timeout", fmt.Sprintf("effective timeout %s exceeds (or escapes, being non-positive) the ceiling %s", eff.Timeout, ceiling.Timeout), c, w())
		}
		if per.Timeout > ceiling.Timeout || per.Timeout <= 0 {
			a.stats["policy_timeouts_clamped_or_defaulted"]++
		}
	}
	if ceiling.MaxResponseBytes > 0 {
		if eff.MaxResponseBytes > ceiling.MaxResponseBytes || eff.MaxResponseBytes <= 0 {
			a.violate("policy-exceeds-ceiling", "max-response-bytes", fmt.Sprintf("effective max response bytes %d exceeds (or escapes) the ceiling %d", eff.MaxResponseBytes, ceiling.MaxResponseBytes), c, w())
		}
		if per.MaxResponseBytes > ceiling.MaxResponseBytes || per.MaxResponseBytes <= 0 {
			a.stats["policy_sizes_clamped_or_defaulted"]++
		}
	}
}

// --- the real processor.Service hand-off ------------------------------------

type fakeProc struct{ sdk.UnimplementedProcessor }

type captureRegistry struct{ got []egress.Policy }

func (c *captureRegistry) NewProcessor(_ context.Context, _ string, _ string, p egress.Policy) (sdk.Processor, error) {
	c.got = append(c.got, p)
	return &fakeProc{}, nil
}

// viaProcessorService runs settings through the real processor.Service with
// the ceiling installed by WithEgressCeiling and returns the policy the plugin
// registry is handed for the data-path processor.
func viaProcessorService(settings map[string]string, ceiling egress.Policy) (egress.Policy, []egress.Policy, error) {
	ctx := context.Background()
	reg := &captureRegistry{}
	svc := processor.NewService(log.Nop(), &inmemory.DB{}, reg, processor.WithEgressCeiling(ceiling))
	st := map[string]string{}
	for k, v := range settings {
		st[k] = v
	}
	inst, err := svc.Create(ctx, "p1", "fake", processor.Parent{ID: "pl", Type: processor.ParentTypePipeline},
		processor.Config{Settings: st, Workers: 1}, processor.ProvisionTypeAPI, "")
	if err != nil {
		return egress.Policy{}, nil, err
	}
	n := len(reg.got)
	if _, err := svc.MakeRunnableProcessor(ctx, inst); err != nil {
		return egress.Policy{}, reg.got, err
	}
	if len(reg.got) != n+1 {
		return egress.Policy{}, reg.got, fmt.Errorf("registry was not asked for a processor")
	}
	return reg.got[n], reg.got[:n], nil
}

// viaReconfigure is the live-reconfigure hand-off: the processor is created and
// started with NO egress settings, its stored config is then replaced while it
// runs (UpdateWhileRunning) and the processor for the swap is built with
// MakeRunnableProcessorForReconfigure. Returns the policy the registry was
// handed for that rebuilt processor.
func viaReconfigure(settings map[string]string, ceiling egress.Policy) (egress.Policy, error) {
	ctx := context.Background()
	reg := &captureRegistry{}
	svc := processor.NewService(log.Nop(), &inmemory.DB{}, reg, processor.WithEgressCeiling(ceiling))
	inst, err := svc.Create(ctx, "p1", "fake", processor.Parent{ID: "pl", Type: processor.ParentTypePipeline},
		processor.Config{Settings: map[string]string{}, Workers: 1}, processor.ProvisionTypeAPI, "")
	if err != nil {
		return egress.Policy{}, err
	}
	if _, err := svc.MakeRunnableProcessor(ctx, inst); err != nil {
		return egress.Policy{}, err
	}
	st := map[string]string{}
	for k, v := range settings {
		st[k] = v
	}
	inst, err = svc.UpdateWhileRunning(ctx, "p1", "fake", processor.Config{Settings: st, Workers: 1})
	if err != nil {
		return egress.Policy{}, err
	}
	n := len(reg.got)
	if _, err := svc.MakeRunnableProcessorForReconfigure(ctx, inst); err != nil {
		return egress.Policy{}, err
	}
	if len(reg.got) != n+1 {
		return egress.Policy{}, fmt.Errorf("registry was not asked for a processor")
	}
	return reg.got[n], nil
}

func runPolicyCase(idx int, n int, ck, pk string, r *rand.Rand) vp.CaseResult {
	a := &polAcc{idx: idx, stats: map[string]int64{}, viol: map[string]*vp.Violation{}}
	var sample any
	for i := 0; i < n; i++ {
		per, settings, rawPer, pdesc, perr := genPer(r, pk)
		if perr != nil {
			a.stats["policy_inputs_rejected_by_parser"]++
			continue
		}
		ceiling, cdesc := genCeiling(r, ck, rawPer)
		c := map[string]any{"index": idx, "per_processor": pdesc, "ceiling": cdesc}
		eff, dropped := egress.ResolvePolicy(per, ceiling)
		a.stats["policy_entries_reported_dropped"] += int64(len(dropped))
		a.judgePolicy("ResolvePolicy", per, ceiling, eff, c)
		if settings != nil && pk == "settings" && i%16 == 0 {
			got, existence, err := viaProcessorService(settings, ceiling)
			if err != nil {
				a.stats["policy_service_handoff_errors"]++
			} else {
				a.stats["policy_service_handoffs_judged"]++
				a.judgePolicy("processor.Service.MakeRunnableProcessor", per, ceiling, got, c)
				if got2, err := viaReconfigure(settings, ceiling); err != nil {
					a.stats["policy_service_handoff_errors"]++
				} else {
					a.stats["policy_reconfigure_handoffs_judged"]++
					a.judgePolicy("processor.Service.MakeRunnableProcessorForReconfigure", per, ceiling, got2, c)
				}
				for _, e := range existence {
					// "non-data-path NewProcessor calls get deny-all"
					if e.Enabled {
						a.violate("policy-exceeds-ceiling", "existence-check-processor-has-egress",
							"the throwaway processor of Service.Create was handed an ENABLED egress policy", c, nil)
					}
				}
			}
		}
		if sample == nil && eff.Enabled && len(dropped) > 0 {
			sample = map[string]any{"kind": "policy", "per_processor": pdesc, "ceiling": cdesc, "effective_entries": len(eff.Allowlist), "dropped": len(dropped),
				"effective_timeout": eff.Timeout.String(), "effective_max_response_bytes": eff.MaxResponseBytes}
		}
	}
	res := vp.CaseResult{Sig: "policy/ceiling=" + ck + "/per=" + pk, Stats: a.stats, Sample: sample,
		Sets: map[string][]string{"policy_shape_classes": {ck + "/" + pk}}}
	res.Nontrivial = a.stats["policies_judged"] > 0 && (a.stats["policy_deny_all_expected"] > 0 ||
		a.stats["policy_hosts_dropped_by_ceiling"]+a.stats["policy_timeouts_clamped_or_defaulted"]+a.stats["policy_sizes_clamped_or_defaulted"]+a.stats["policy_secret_refs_dropped"] > 0)
	ids := make([]string, 0, len(a.viol))
	for id := range a.viol {
		ids = append(ids, id)
	}
	sort.Strings(ids)
	for _, id := range ids {
		res.Violations = append(res.Violations, *a.viol[id])
	}
	return res
}
