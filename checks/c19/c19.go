// Package c19 monitors property C19: "the registry installs an artifact only
// after integrity and trust checks, atomically".
//
// Four monitors share one case list:
//
//	A  extraction containment   (ExtractBinary + full Install on hostile archives; file-tree monitor)
//	B  install gate matrix      (Install against a loopback server; tree + manifest + verifier call log)
//	C  index high-water mark    (concurrent TrustedVerifier.VerifyIndex; pairwise + porcupine register model)
//	D  crash atomicity          (child process killed at every file-system syscall of an install, via strace
//	                             fault injection; optionally at the verifhook points when hooks.patch is applied)
//
// Adjacent observations that the property text does not cover (for example
// paths outside the install directory changed because of a malformed index
// digest) are counted in Stats/Sets and only become violations with
// VERIF_C19_STRICT_TREE=1.
package c19

import (
	"time"

	"verif/internal/vp"
)

type prop struct{}

func init() { vp.Register(&prop{}) }

func (*prop) ID() string    { return "C19" }
func (*prop) Level() string { return "fault_enumeration" }
func (*prop) Rule() string {
	return "fixed list in (VERIF_SEED, index): [A] per entry-name class (27) a chunk of generated tar.gz archives rotating through all 31 entry-type/container classes " +
		"(raw 512-byte-block writer: dot-dot/absolute/NUL/long/unicode/backslash names, links, devices, PAX/GNU long/sparse headers, lying sizes, truncation, multi-member gzip) " +
		"fed to registry.ExtractBinary, plus PAX-sparse archives at/over the 1 GiB cap, plus hostile archives pushed through a full registry.Install; " +
		"[B] one case per (digest class x verifier behaviour x fetch scenario) triple, each run over 9 unsigned-policy contexts (x4 prestates in thorough) with registry.Install against a loopback httptest server, plus registry.InstallProcessor cells with the repository's real WASM fixture; " +
		"[C] one concurrent history of TrustedVerifier.VerifyIndex / Install(DryRun) calls with ed25519-signed envelopes of random versions per case; " +
		"[D] per (prestate scenario x stride slice) a child process performing one Install is SIGKILLed by strace fault injection immediately before the N-th occurrence of each file-system syscall of its main thread (every point from the first syscall naming the install directory to the last, enumerated from a trace-only calibration run), then the parent inspects the directory and installs again; [D-hooks] when /verif/checks/c19/hooks.patch is applied, additionally one exit(137) per verifhook point hit (atomicfile steps, registry install steps). " +
		"A case is distinct by its signature: monitor + input class + the set of outcomes observed (A: name class + refused/extracted; B: triple + outcome codes; C: mode + verifier instances + seeded + refusal shape; D: scenario + normalised kill syscall + post-mortem state); " +
		"non-trivial iff the deciding path ran (A: an archive reached ExtractBinary; B: the digest check or verification gate was reached; C: at least one index accepted and the mark observed; D: the child was killed after it had started touching the install directory)."
}
func (*prop) Assumptions() []string {
	return []string{
		"Sigstore signature/provenance cryptography (pkg/registry/trust) is trusted: the gate's position and effect are monitored with a scripted ArtifactVerifier",
		"the kernel's rename(2), O_EXCL and flock(2) semantics; SIGKILL delivered by strace at syscall entry stands for a crash (no power-loss / page-cache loss model, so fsync ordering is not judged)",
		"the file-tree monitor sees path, type, size, sha-256, link count, mode, inode and mtime; a transient create+delete outside the private area is only visible through the parent directory's mtime",
		"'operator explicitly allowed unsigned installs' is read as InstallOptions.AllowUnsigned && OperatorAllowUnsigned; the finer TTY/CI/MCP matrix is recorded as an agreement statistic only",
		"the harness' own raw tar writer and the Go archive/tar reader determine which hostile shapes reach the extraction code",
	}
}
func (*prop) CaseTimeout() time.Duration { return 6 * time.Minute }
func (*prop) AnchorFiles() []string {
	return []string{"pkg/registry/", "pkg/foundation/atomicfile/"}
}

type layout struct {
	nA, nBomb, nAI, nB, nC, nD, nH, nP int
}

func layoutFor(tier string) layout {
	if tier == "thorough" {
		return layout{nA: 10 * len(nameClasses), nBomb: 3, nAI: 4 * len(nameClasses),
			nB: len(digestClasses) * len(verifierModes) * len(fetchScenarios), nC: 120,
			nD: len(crashScenarios) * slicesFor(tier), nH: len(crashScenarios), nP: len(procCells)}
	}
	return layout{nA: 2 * len(nameClasses), nBomb: 2, nAI: len(nameClasses), nB: 100, nC: 16,
		nD: quickCrashScenarios * slicesFor(tier), nH: quickCrashScenarios, nP: 3}
}

func slicesFor(tier string) int {
	if tier == "thorough" {
		return 8
	}
	return 4
}

func (l layout) total() int { return l.nA + l.nBomb + l.nAI + l.nB + l.nC + l.nD + l.nH + l.nP }

func (*prop) NumCases(tier string) int { return layoutFor(tier).total() }

func (*prop) RunCase(seed int64, tier string, idx int) vp.CaseResult {
	l := layoutFor(tier)
	// The driver hands consecutive indices to one worker process; the long
	// cases (kill-point enumeration, 1 GiB archives) sit next to each other in
	// the logical layout, so spread them with a fixed bijection idx -> k.
	k := idx
	if n := l.total(); idx >= 0 && idx < n {
		mul := int64(7919) // prime
		if int64(n)%mul == 0 {
			mul = 7907
		}
		k = int((int64(idx) * mul) % int64(n))
	}
	if k < l.nA {
		return runExtractCase(seed, tier, idx, k)
	}
	k -= l.nA
	if k < l.nBomb {
		return runBombCase(seed, tier, idx, k)
	}
	k -= l.nBomb
	if k < l.nAI {
		return runHostileInstallCase(seed, tier, idx, k)
	}
	k -= l.nAI
	if k < l.nB {
		nD, nV, nF := len(digestClasses), len(verifierModes), len(fetchScenarios)
		if tier == "thorough" {
			return runGateCase(seed, tier, idx, k%nD, (k/nD)%nV, (k/(nD*nV))%nF)
		}
		// quick: the core sub-matrix first (fetch ok: every digest x verifier), then a
		// stride through the rest of the product
		if k < nD*nV {
			return runGateCase(seed, tier, idx, k%nD, (k/nD)%nV, 0)
		}
		j := k - nD*nV
		rest := nD * nV * (nF - 1)
		pos := (j*37 + int(seed%7)) % rest
		return runGateCase(seed, tier, idx, pos%nD, (pos/nD)%nV, 1+(pos/(nD*nV))%(nF-1))
	}
	k -= l.nB
	if k < l.nC {
		return runHWMCase(seed, tier, idx, k)
	}
	k -= l.nC
	if k < l.nD {
		nS := quickCrashScenarios
		if tier == "thorough" {
			nS = len(crashScenarios)
		}
		return runCrashCase(seed, tier, idx, k%nS, k/nS, slicesFor(tier))
	}
	k -= l.nD
	if k < l.nH {
		return runHookCrashCase(seed, tier, idx, k)
	}
	k -= l.nH
	return runProcessorCase(seed, tier, idx, k)
}
