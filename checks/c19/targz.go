package c19

import (
	"bytes"
	"compress/gzip"
	"fmt"
	"math/rand"
	"sort"
	"strings"
)

// tent is one entry of a hand-assembled tar stream. The writer below emits
// raw 512-byte blocks so that entries the standard library's tar.Writer
// refuses to produce (hostile names, odd type flags, sparse maps, lying
// sizes) can be generated.
type tent struct {
	Name     string            `json:"name"`
	Type     byte              `json:"type"`
	Link     string            `json:"link,omitempty"`
	Data     []byte            `json:"-"`
	DataLen  int               `json:"data_len"`
	Mode     int64             `json:"mode,omitempty"`
	Pax      map[string]string `json:"pax,omitempty"`      // emitted as a preceding 'x' header
	GNULong  bool              `json:"gnu_long,omitempty"` // name via 'L' (and link via 'K')
	Global   map[string]string `json:"global,omitempty"`   // emitted as a preceding 'g' header
	BadSum   bool              `json:"bad_checksum,omitempty"`
	SizeLie  int64             `json:"size_lie,omitempty"` // declared size differs from len(Data) by this much
	Base256  bool              `json:"base256_size,omitempty"`
	OldGNUSp *oldSparse        `json:"old_gnu_sparse,omitempty"`
	V7       bool              `json:"v7,omitempty"` // no ustar magic
}

type oldSparse struct {
	RealSize int64 `json:"real_size"`
	Offset   int64 `json:"offset"`
}

func octal(b []byte, v int64) {
	s := fmt.Sprintf("%0*o", len(b)-1, v)
	if len(s) > len(b)-1 {
		s = s[len(s)-(len(b)-1):]
	}
	copy(b, s)
	b[len(b)-1] = 0
}

func base256(b []byte, v int64) {
	for i := len(b) - 1; i >= 0; i-- {
		b[i] = byte(v)
		v >>= 8
	}
	b[0] |= 0x80
}

func rawHeader(name string, typ byte, link string, size int64, mode int64, e *tent) []byte {
	h := make([]byte, 512)
	n := name
	prefix := ""
	if len(n) > 100 && e != nil && !e.V7 {
		// split at a slash if possible
		cut := -1
		for i := len(n) - 101; i < len(n) && i < 155; i++ {
			if i >= 0 && n[i] == '/' {
				cut = i
				break
			}
		}
		if cut > 0 {
			prefix, n = n[:cut], n[cut+1:]
		}
	}
	copy(h[0:100], n)
	octal(h[100:108], mode)
	octal(h[108:116], 0)
	octal(h[116:124], 0)
	if e != nil && e.Base256 {
		base256(h[124:136], size)
	} else if size < 0 {
		base256(h[124:136], size)
	} else {
		octal(h[124:136], size)
	}
	octal(h[136:148], 1700000000)
	h[156] = typ
	copy(h[157:257], link)
	if e == nil || !e.V7 {
		if e != nil && e.OldGNUSp != nil {
			copy(h[257:265], "ustar  \x00")
		} else {
			copy(h[257:263], "ustar\x00")
			copy(h[263:265], "00")
		}
		copy(h[265:297], "root")
		copy(h[297:329], "root")
		octal(h[329:337], 1)
		octal(h[337:345], 3)
		if e == nil || e.OldGNUSp == nil {
			copy(h[345:500], prefix)
		}
	}
	if e != nil && e.OldGNUSp != nil {
		// one sparse fragment at 386: offset(12) numbytes(12); realsize at 483
		octal(h[386:398], e.OldGNUSp.Offset)
		octal(h[398:410], size)
		h[482] = 0
		octal(h[483:495], e.OldGNUSp.RealSize)
	}
	// checksum
	copy(h[148:156], "        ")
	var sum int64
	for _, c := range h {
		sum += int64(c)
	}
	if e != nil && e.BadSum {
		sum += 7
	}
	s := fmt.Sprintf("%06o", sum)
	copy(h[148:154], s)
	h[154] = 0
	h[155] = ' '
	return h
}

func pad512(b []byte) []byte {
	if r := len(b) % 512; r != 0 {
		b = append(b, make([]byte, 512-r)...)
	}
	return b
}

func paxBody(recs map[string]string) []byte {
	keys := make([]string, 0, len(recs))
	for k := range recs {
		keys = append(keys, k)
	}
	sort.Strings(keys)
	var out []byte
	for _, k := range keys {
		rec := " " + k + "=" + recs[k] + "\n"
		n := len(rec) + 1
		for {
			s := fmt.Sprint(n)
			if len(s)+len(rec) == n {
				break
			}
			n = len(s) + len(rec)
		}
		out = append(out, []byte(fmt.Sprint(n)+rec)...)
	}
	return out
}

type tarOpts struct {
	NoTrailer    bool `json:"no_trailer,omitempty"`
	GarbageTail  bool `json:"garbage_tail,omitempty"`
	TruncateAt   int  `json:"truncate_at,omitempty"` // cut the tar stream to this many bytes (0 = no)
	MultiMember  bool `json:"gzip_multi_member,omitempty"`
	CorruptGzCRC bool `json:"gzip_bad_crc,omitempty"`
	NotGzip      bool `json:"not_gzip,omitempty"`
}

func buildTar(ents []tent, o tarOpts) []byte {
	var out []byte
	for i := range ents {
		e := &ents[i]
		if e.Global != nil {
			body := paxBody(e.Global)
			out = append(out, rawHeader("pax_global_header", 'g', "", int64(len(body)), 0o644, nil)...)
			out = append(out, pad512(append([]byte(nil), body...))...)
		}
		if e.Pax != nil {
			body := paxBody(e.Pax)
			out = append(out, rawHeader("PaxHeaders.0/entry", 'x', "", int64(len(body)), 0o644, nil)...)
			out = append(out, pad512(append([]byte(nil), body...))...)
		}
		name, link := e.Name, e.Link
		if e.GNULong {
			body := append([]byte(name), 0)
			out = append(out, rawHeader("././@LongLink", 'L', "", int64(len(body)), 0o644, nil)...)
			out = append(out, pad512(body)...)
			if link != "" {
				lb := append([]byte(link), 0)
				out = append(out, rawHeader("././@LongLink", 'K', "", int64(len(lb)), 0o644, nil)...)
				out = append(out, pad512(lb)...)
			}
			if len(name) > 100 {
				name = name[:100]
			}
			if len(link) > 100 {
				link = link[:100]
			}
		}
		mode := e.Mode
		if mode == 0 {
			mode = 0o755
		}
		size := int64(len(e.Data)) + e.SizeLie
		out = append(out, rawHeader(name, e.Type, link, size, mode, e)...)
		out = append(out, pad512(append([]byte(nil), e.Data...))...)
	}
	if !o.NoTrailer {
		out = append(out, make([]byte, 1024)...)
	}
	if o.GarbageTail {
		out = append(out, bytes.Repeat([]byte("GARBAGE!"), 80)...)
	}
	if o.TruncateAt > 0 && o.TruncateAt < len(out) {
		out = out[:o.TruncateAt]
	}
	return out
}

func gz(b []byte, level int) []byte {
	var buf bytes.Buffer
	w, _ := gzip.NewWriterLevel(&buf, level)
	w.Write(b)
	w.Close()
	return buf.Bytes()
}

func buildTarGz(ents []tent, o tarOpts) []byte {
	t := buildTar(ents, o)
	if o.NotGzip {
		return t
	}
	var out []byte
	if o.MultiMember && len(t) > 1024 {
		// split on a block boundary into two gzip members
		cut := (len(t) / 1024) * 512
		out = append(gz(t[:cut], gzip.BestSpeed), gz(t[cut:], gzip.BestSpeed)...)
	} else {
		out = gz(t, gzip.BestSpeed)
	}
	if o.CorruptGzCRC && len(out) > 8 {
		out[len(out)-6] ^= 0x55
	}
	return out
}

// simpleArchive is a well-formed one-binary archive.
func simpleArchive(binName string, content []byte) []byte {
	return buildTarGz([]tent{
		{Name: binName, Type: '0', Data: content, Mode: 0o755},
		{Name: "docs/", Type: '5'},
		{Name: "docs/LICENSE", Type: '0', Data: []byte("Apache-2.0\n"), Mode: 0o644},
	}, tarOpts{})
}

// ---------------------------------------------------------------------------
// grammar

// nameClasses: each generator gets the sandbox-specific absolute decoy path
// and the depth of the extraction directory below the sandbox root.
var nameClasses = []string{
	"plain", "dotdot-prefix", "dotdot-inner-escape", "dotdot-inner-safe", "dotdot-only", "absolute", "absolute-decoy",
	"double-slash", "dot-slash", "dot-only", "empty", "trailing-slash", "nul", "very-long-component", "very-long-path",
	"unicode", "invalid-utf8", "backslash", "case-variants", "duplicate", "escape-to-registry", "deep-nested",
	"pax-path-override", "gnu-longname-escape", "gnu-sparse-name-escape", "prefix-field-escape", "control-chars",
}

var typeClasses = []string{
	"reg", "regA", "dir", "symlink", "hardlink", "fifo", "char", "block", "contig", "pax-x", "pax-g", "gnu-long",
	"old-gnu-sparse", "pax-sparse", "unknown-type", "symlink-then-write", "hardlink-then-write", "dir-then-symlink-swap",
	"size-lie", "base256-size", "bad-checksum", "truncated", "garbage-tail", "multi-member-gzip", "bad-gzip-crc", "not-gzip", "v7",
	"many-entries", "big-file", "two-root-candidates", "no-root-candidate",
}

type genCtx struct {
	r        *rand.Rand
	decoyAbs string // absolute path of the decoy dir
	depth    int    // number of ".." needed to reach the sandbox root from the extraction dir
}

func (g *genCtx) up(n int) string { return strings.Repeat("../", n) }

func (g *genCtx) hostileName(class string) (name string, pax map[string]string, gnuLong bool) {
	r := g.r
	toDecoy := g.up(g.depth) + "decoy/"
	switch class {
	case "plain":
		return fmt.Sprintf("conduit-connector-w%d", r.Intn(1000)), nil, false
	case "dotdot-prefix":
		return g.up(1+r.Intn(g.depth+2)) + "evil" + fmt.Sprint(r.Intn(10)), nil, false
	case "dotdot-inner-escape":
		return "a/b/" + g.up(2+g.depth) + "decoy/planted" + fmt.Sprint(r.Intn(10)), nil, false
	case "dotdot-inner-safe":
		return "a/b/../../bin" + fmt.Sprint(r.Intn(10)), nil, false
	case "dotdot-only":
		return []string{"..", "../", "../.", "a/../..", "./.."}[r.Intn(5)], nil, false
	case "absolute":
		return []string{"/tmp/c19-abs-evil", "/etc/c19-evil", "/", "//tmp/c19-abs-evil"}[r.Intn(4)], nil, false
	case "absolute-decoy":
		return g.decoyAbs + "/" + []string{"canary", "planted-abs", "sub/canary2"}[r.Intn(3)], nil, false
	case "double-slash":
		return "a//b///bin", nil, false
	case "dot-slash":
		return "./" + []string{"bin", "./bin", "a/./bin", toDecoy + "x"}[r.Intn(4)], nil, false
	case "dot-only":
		return []string{".", "./", "./."}[r.Intn(3)], nil, false
	case "empty":
		return "", nil, false
	case "trailing-slash":
		return []string{"bin/", toDecoy, "a/b/"}[r.Intn(3)], nil, false
	case "nul":
		return []string{"bin\x00../../evil", "\x00", toDecoy + "canary\x00x"}[r.Intn(3)], nil, r.Intn(2) == 0
	case "very-long-component":
		return strings.Repeat("L", 200+r.Intn(200)), nil, true
	case "very-long-path":
		return strings.Repeat("dddddddd/", 300+r.Intn(300)) + "bin", nil, true
	case "unicode":
		return []string{"bïn-ünïcödé-名前", "e\u0301.bin", "\u202Egnp.exe", "a\u200Bb", "．．/evil", "\uFF0E\uFF0E/\uFF0E\uFF0E/evil", "..\u2215evil"}[r.Intn(7)], map[string]string{}, false
	case "invalid-utf8":
		return "bin\xff\xfe\xc0\xaf..\xc0\xafevil", nil, false
	case "backslash":
		return []string{"..\\..\\evil", "a\\..\\..\\evil", "C:\\evil", "\\abs", "..\\" + toDecoy + "x"}[r.Intn(5)], nil, false
	case "case-variants":
		return []string{"BIN", "bin", "Bin"}[r.Intn(3)], nil, false
	case "duplicate":
		return "bin", nil, false
	case "escape-to-registry":
		// extraction dir is <conn>/.registry/staging/install-X/extracted
		return []string{"../../../manifest.json", "../../../index-state.json", "../../../../conduit-connector-planted", "../artifact.tar.gz", "../../install-other/x"}[r.Intn(5)], nil, false
	case "deep-nested":
		return strings.Repeat("d/", 40+r.Intn(40)) + "bin", nil, true
	case "pax-path-override":
		return "innocent", map[string]string{"path": toDecoy + "pax-planted"}, false
	case "gnu-longname-escape":
		return toDecoy + strings.Repeat("x", 120), nil, true
	case "gnu-sparse-name-escape":
		return "innocent", map[string]string{"GNU.sparse.major": "1", "GNU.sparse.minor": "0", "GNU.sparse.name": toDecoy + "sparse-planted", "GNU.sparse.realsize": "4"}, false
	case "prefix-field-escape":
		// >100 chars so that the ustar prefix field carries the dotdots
		return g.up(g.depth) + "decoy/" + strings.Repeat("p", 60) + "/" + strings.Repeat("q", 70), nil, false
	case "control-chars":
		return "bin\n\r\t\x1b[2J", nil, false
	}
	return "bin", nil, false
}

// genArchive builds one archive whose primary feature is (nameClass,
// typeClass) plus PRNG noise. It returns the entries, container options and
// a description usable as Violation.Case.
func (g *genCtx) genArchive(nameClass, typeClass string) ([]tent, tarOpts, map[string]any) {
	r := g.r
	var ents []tent
	var o tarOpts
	data := func(n int) []byte {
		b := make([]byte, n)
		for i := range b {
			b[i] = byte('a' + r.Intn(26))
		}
		return b
	}
	name, pax, long := g.hostileName(nameClass)
	toDecoy := g.up(g.depth) + "decoy"
	mk := func(t byte) tent {
		e := tent{Name: name, Type: t, Data: data(1 + r.Intn(64)), Pax: pax, GNULong: long}
		if pax != nil && len(pax) == 0 {
			e.Pax = map[string]string{"path": name}
		}
		if pax != nil && pax["GNU.sparse.major"] == "1" {
			// PAX sparse 1.0: data starts with the map: "<n>\n<off>\n<len>\n" padded to 512
			m := pad512([]byte("1\n0\n4\n"))
			e.Data = append(m, []byte("DATA")...)
			e.Pax["GNU.sparse.realsize"] = "4"
		}
		return e
	}
	// noise before
	if r.Intn(3) == 0 {
		ents = append(ents, tent{Name: "docs/README", Type: '0', Data: data(10)}, tent{Name: "lib/", Type: '5'}, tent{Name: "lib/x.so", Type: '0', Data: data(20)})
	}
	switch typeClass {
	case "reg":
		ents = append(ents, mk('0'))
	case "regA":
		ents = append(ents, mk(0))
	case "dir":
		e := mk('5')
		e.Data = nil
		ents = append(ents, e, tent{Name: strings.TrimSuffix(name, "/") + "/inner", Type: '0', Data: data(8)})
	case "symlink":
		e := mk('2')
		e.Data = nil
		e.Link = []string{toDecoy, g.decoyAbs, "/etc/passwd", toDecoy + "/canary", ".."}[r.Intn(5)]
		ents = append(ents, e)
	case "hardlink":
		e := mk('1')
		e.Data = nil
		e.Link = []string{toDecoy + "/canary", g.decoyAbs + "/canary", "/etc/passwd"}[r.Intn(3)]
		ents = append(ents, e)
	case "fifo":
		e := mk('6')
		e.Data = nil
		ents = append(ents, e)
	case "char":
		e := mk('3')
		e.Data = nil
		ents = append(ents, e)
	case "block":
		e := mk('4')
		e.Data = nil
		ents = append(ents, e)
	case "contig":
		ents = append(ents, mk('7'))
	case "pax-x":
		e := mk('0')
		if e.Pax == nil {
			e.Pax = map[string]string{}
		}
		e.Pax["path"] = name
		e.Pax["linkpath"] = toDecoy + "/canary"
		e.Pax["size"] = fmt.Sprint(len(e.Data))
		e.Pax["SCHILY.xattr.user.evil"] = "1"
		e.Name = "pax-placeholder"
		ents = append(ents, e)
	case "pax-g":
		e := mk('0')
		e.Global = map[string]string{"path": toDecoy + "/global-planted", "linkpath": toDecoy + "/canary"}
		ents = append(ents, e)
	case "gnu-long":
		e := mk('0')
		e.GNULong = true
		ents = append(ents, e)
	case "old-gnu-sparse":
		e := mk('S')
		e.Pax, e.GNULong = nil, false
		e.Data = []byte("0123456789")
		e.OldGNUSp = &oldSparse{RealSize: 1 << uint(12+r.Intn(10)), Offset: 1024}
		ents = append(ents, e)
	case "pax-sparse":
		// PAX 0.1 sparse: a regular entry whose logical size is large
		e := mk('0')
		e.GNULong = false
		real := int64(1<<20 + r.Intn(1<<20))
		e.Data = []byte("tail")
		e.Pax = map[string]string{"GNU.sparse.size": fmt.Sprint(real), "GNU.sparse.numblocks": "1", "GNU.sparse.map": fmt.Sprintf("%d,4", real-4), "GNU.sparse.name": name}
		e.Name = "GNUSparseFile.0/x"
		ents = append(ents, e)
	case "unknown-type":
		e := mk([]byte{'Z', 'D', 'M', 'N', 'V', 'A', '8', '9'}[r.Intn(8)])
		ents = append(ents, e)
	case "symlink-then-write":
		l := []string{"lnk", "a", "d/l"}[r.Intn(3)]
		ents = append(ents,
			tent{Name: l, Type: '2', Link: []string{toDecoy, g.decoyAbs, toDecoy + "/sub"}[r.Intn(3)]},
			tent{Name: l + "/planted-through-link", Type: '0', Data: data(9)},
			mk('0'))
		if r.Intn(2) == 0 { // order variant: the hostile pair after the payload
			ents[len(ents)-1], ents[len(ents)-3] = ents[len(ents)-3], ents[len(ents)-1]
		}
	case "hardlink-then-write":
		ents = append(ents,
			tent{Name: "h", Type: '1', Link: []string{toDecoy + "/canary", g.decoyAbs + "/canary"}[r.Intn(2)]},
			tent{Name: "h", Type: '0', Data: []byte("OVERWRITTEN-THROUGH-HARDLINK")},
			mk('0'))
	case "dir-then-symlink-swap":
		ents = append(ents,
			tent{Name: "d/", Type: '5'},
			tent{Name: "d/ok", Type: '0', Data: data(5)},
			tent{Name: "d", Type: '2', Link: toDecoy},
			tent{Name: "d/planted-after-swap", Type: '0', Data: data(5)},
			mk('0'))
	case "size-lie":
		e := mk('0')
		e.SizeLie = []int64{-1, 1, 511, 512, 4096, -int64(len(e.Data))}[r.Intn(6)]
		ents = append(ents, e, tent{Name: "after", Type: '0', Data: data(5)})
	case "base256-size":
		e := mk('0')
		e.Base256 = true
		if r.Intn(2) == 0 {
			e.SizeLie = 1 << 40
		}
		ents = append(ents, e)
	case "bad-checksum":
		e := mk('0')
		e.BadSum = true
		ents = append(ents, tent{Name: "first", Type: '0', Data: data(5)}, e)
	case "truncated":
		ents = append(ents, mk('0'), tent{Name: "second", Type: '0', Data: data(2000)})
		o.TruncateAt = 512 + r.Intn(3000)
	case "garbage-tail":
		ents = append(ents, mk('0'))
		o.GarbageTail = true
		o.NoTrailer = r.Intn(2) == 0
	case "multi-member-gzip":
		ents = append(ents, tent{Name: "sub/pad", Type: '0', Data: data(1500)}, mk('0'))
		o.MultiMember = true
	case "bad-gzip-crc":
		ents = append(ents, mk('0'))
		o.CorruptGzCRC = true
	case "not-gzip":
		ents = append(ents, mk('0'))
		o.NotGzip = true
	case "v7":
		e := mk('0')
		e.V7 = true
		e.Pax, e.GNULong = nil, false
		ents = append(ents, e)
	case "many-entries":
		n := 50 + r.Intn(200)
		for i := 0; i < n; i++ {
			ents = append(ents, tent{Name: fmt.Sprintf("m/%d/f%d", i%7, i), Type: '0', Data: data(3)})
		}
		ents = append(ents, mk('0'))
	case "big-file":
		e := mk('0')
		e.Data = bytes.Repeat([]byte{0}, (1+r.Intn(3))<<20)
		ents = append(ents, e)
	case "two-root-candidates":
		ents = append(ents, tent{Name: "first-root", Type: '0', Data: data(5)}, mk('0'))
	case "no-root-candidate":
		e := mk('0')
		if !strings.Contains(e.Name, "/") {
			e.Name = "sub/" + e.Name
		}
		ents = append(ents, e)
	default:
		ents = append(ents, mk('0'))
	}
	if nameClass == "duplicate" || nameClass == "case-variants" {
		// a second entry with the same / case-variant name, possibly of another type
		second := mk('0')
		if nameClass == "case-variants" {
			second.Name = strings.ToUpper(second.Name[:1]) + strings.ToLower(second.Name[1:])
			if second.Name == name {
				second.Name = strings.ToLower(name)
			}
		}
		if r.Intn(3) == 0 {
			second.Type, second.Data, second.Link = '2', nil, toDecoy+"/canary"
		}
		ents = append(ents, second)
	}
	// noise after
	if r.Intn(3) == 0 {
		ents = append(ents, tent{Name: "docs/NOTICE", Type: '0', Data: data(10)})
	}
	for i := range ents {
		ents[i].DataLen = len(ents[i].Data)
	}
	desc := map[string]any{"name_class": nameClass, "type_class": typeClass, "container": o}
	// keep the description small
	if len(ents) <= 8 {
		desc["entries"] = describeEnts(ents)
	} else {
		desc["entries"] = describeEnts(append(append([]tent(nil), ents[:3]...), ents[len(ents)-3:]...))
		desc["entries_total"] = len(ents)
	}
	return ents, o, desc
}

func describeEnts(ents []tent) []map[string]any {
	var out []map[string]any
	for _, e := range ents {
		m := map[string]any{"name": fmt.Sprintf("%q", cut(e.Name, 160)), "type": fmt.Sprintf("%q", string(rune(e.Type))), "data_len": len(e.Data)}
		if e.Link != "" {
			m["link"] = cut(e.Link, 160)
		}
		if e.Pax != nil {
			p := map[string]string{}
			for k, v := range e.Pax {
				p[k] = cut(v, 120)
			}
			m["pax"] = p
		}
		if e.GNULong {
			m["gnu_long"] = true
		}
		if e.SizeLie != 0 {
			m["size_lie"] = e.SizeLie
		}
		out = append(out, m)
	}
	return out
}
