package c19

import (
	"bytes"
	"context"
	"encoding/hex"
	"encoding/json"
	"fmt"
	"math/rand"
	"os"
	"path/filepath"
	"sort"
	"strings"
	"time"

	"verif/internal/vp"

	"github.com/conduitio/conduit/pkg/registry"
	"github.com/conduitio/conduit/pkg/registry/index"
)

// Monitor B: the install gate matrix. A full registry.Install runs against a
// loopback server; the oracle combines the file tree of the install
// directory, the manifest content and the scripted verifier's call log.

const (
	connName    = "widget"
	connVersion = "1.2.3"
	finalName   = "conduit-connector-widget_1.2.3"
)

var digestClasses = []string{
	"match", "match-prefixed", "match-upper", "mismatch-bitflip", "mismatch-other",
	"malformed-short", "malformed-long", "malformed-nonhex", "empty", "path-like",
}

var verifierModes = []verifierMode{vAccept, vReject, vUnsigned, vError}

var fetchScenarios = []string{
	"ok", "artifact:404", "artifact:500", "artifact:truncated-content-length", "artifact:truncated-chunked",
	"artifact:oversize", "artifact:slow-close", "artifact:redirect-ok", "artifact:redirect-loop", "artifact:empty-body",
	"artifact:declared-size-larger", "sig:404", "sig:oversize", "sig:truncated-content-length",
	"prov:404", "prov:oversize", "index:404", "index:oversize", "index:truncated-content-length", "index:slow-close",
}

type policyCtx struct {
	Name                                                          string
	Allow, Operator, TTY, CIEnv, IsMCP, EnvVarSet, TypedConfirmed bool
}

var policyCtxs = []policyCtx{
	{Name: "not-requested"},
	{Name: "not-requested-but-operator-and-all-signals", Operator: true, TTY: true, EnvVarSet: true, TypedConfirmed: true},
	{Name: "requested-operator-forbids", Allow: true, TTY: true, EnvVarSet: true, TypedConfirmed: true},
	{Name: "requested-operator-allows-mcp", Allow: true, Operator: true, IsMCP: true, TTY: true, EnvVarSet: true, TypedConfirmed: true},
	{Name: "requested-operator-allows-noninteractive-envvar", Allow: true, Operator: true, EnvVarSet: true},
	{Name: "requested-operator-allows-noninteractive-no-envvar", Allow: true, Operator: true},
	{Name: "requested-operator-allows-tty-confirmed", Allow: true, Operator: true, TTY: true, TypedConfirmed: true},
	{Name: "requested-operator-allows-tty-declined", Allow: true, Operator: true, TTY: true},
	{Name: "requested-operator-allows-ci-tty-confirmed-no-envvar", Allow: true, Operator: true, TTY: true, CIEnv: true, TypedConfirmed: true},
}

// documented (policy/gate.go) outcome of the unsigned gate, used only for an
// agreement statistic, never for a verdict.
func (p policyCtx) documentedAllows() bool {
	if !p.Allow || !p.Operator || p.IsMCP {
		return false
	}
	if !p.TTY || p.CIEnv {
		return p.EnvVarSet
	}
	return p.TypedConfirmed
}

var prestates = []string{"fresh", "prev-other-installed", "cache-hit", "cache-poisoned"}

type cell struct {
	Digest   string       `json:"digest_class"`
	Verifier verifierMode `json:"verifier"`
	Fetch    string       `json:"fetch"`
	Policy   string       `json:"policy"`
	Pre      string       `json:"prestate"`
}

type cellResult struct {
	err          error
	installed    bool
	outcome      string
	calls        []verifyCall
	viols        []vp.Violation
	observations []string
	files        int64
	declared     string
}

type gateRig struct {
	srv *server
	kr  *keyring
	r   *rand.Rand
}

func newGateRig(r *rand.Rand) *gateRig {
	return &gateRig{srv: newServer(), kr: newKeyring(r), r: r}
}

func (g *gateRig) Close() { g.srv.Close() }

func declaredDigest(class string, archive []byte, r *rand.Rand) string {
	h := sha256hex(archive)
	switch class {
	case "match":
		return h
	case "match-prefixed":
		return "sha256:" + h
	case "match-upper":
		return strings.ToUpper(h)
	case "mismatch-bitflip":
		b, _ := hex.DecodeString(h)
		b[r.Intn(32)] ^= 1 << uint(r.Intn(8))
		return hex.EncodeToString(b)
	case "mismatch-other":
		return sha256hex([]byte("some other artifact"))
	case "malformed-short":
		return h[:63]
	case "malformed-long":
		return h + "00"
	case "malformed-nonhex":
		return "zz" + h[2:]
	case "empty":
		return ""
	case "path-like":
		return "../../../decoy/cachetrap"
	}
	return h
}

func parseDeclared(decl string) (string, bool) {
	d := strings.TrimPrefix(decl, "sha256:")
	raw, err := hex.DecodeString(d)
	if err != nil || len(raw) != 32 {
		return "", false
	}
	return hex.EncodeToString(raw), true
}

// installSpec is everything one Install attempt needs.
type installSpec struct {
	archive     []byte // bytes the artifact route serves
	bin         []byte // content of the one root-level regular entry (nil: unknown/hostile)
	declared    string
	declSize    int64
	verifier    verifierMode
	policy      policyCtx
	fetch       string
	pre         string
	indexVer    int64
	lockTimeout time.Duration
}

func (g *gateRig) prepareRoutes(sp installSpec, a *artifactSpec) error {
	s := g.srv
	s.mu.Lock()
	s.routes = map[string]*route{}
	s.hits = map[string]int{}
	s.mu.Unlock()
	res, mode := "", fetchMode("")
	if i := strings.Index(sp.fetch, ":"); i > 0 {
		res, mode = sp.fetch[:i], fetchMode(sp.fetch[i+1:])
	}
	pick := func(which string) fetchMode {
		if res == which {
			return mode
		}
		return fOK
	}
	a.URL = s.URL("/a/artifact.tar.gz")
	a.SigURL = s.URL("/a/sig")
	a.ProvURL = s.URL("/a/prov")
	am := pick("artifact")
	switch am {
	case fRedirect:
		a.URL = s.URL("/redir/3/a/artifact.tar.gz")
		am = fOK
	case fRedirLoop:
		a.URL = s.URL("/loop")
		am = fOK
	case "declared-size-larger":
		a.Size = sp.declSize + 4096
		am = fOK
	}
	ar := s.set("/a/artifact.tar.gz", sp.archive, am)
	if am == fOversize {
		ar.oversizeTo = sp.declSize + 1 + int64(g.r.Intn(4096))
	}
	sig := []byte(`{"mediaType":"application/vnd.dev.sigstore.bundle+json;version=0.3","scripted":true}`)
	sr := s.set("/a/sig", sig, pick("sig"))
	if sr.mode == fOversize {
		sr.oversizeTo = registry.MaxBundleBytes + 1
	}
	pr := s.set("/a/prov", []byte(`{"scripted-provenance":true}`), pick("prov"))
	if pr.mode == fOversize {
		pr.oversizeTo = registry.MaxBundleBytes + 1
	}
	raw, err := g.kr.signEnvelope(buildPayload(*a), "root")
	if err != nil {
		return err
	}
	ir := s.set("/index.json", raw, pick("index"))
	if ir.mode == fOversize {
		ir.oversizeTo = index.MaxIndexBytes + 1
	}
	return nil
}

func (g *gateRig) opts(sb *sandbox, sp installSpec, v registry.ArtifactVerifier, name string) registry.InstallOptions {
	lt := sp.lockTimeout
	if lt == 0 {
		lt = 10 * time.Second
	}
	p := sp.policy
	return registry.InstallOptions{
		Name: name, ConnectorsPath: sb.Conn, IndexURL: g.srv.URL("/index.json"),
		IndexVerifier:    &registry.TrustedVerifier{Anchors: g.kr.anchors(), StatePath: registry.IndexStatePath(sb.Conn), LockTimeout: lt},
		ArtifactVerifier: v, RunningConduitVersion: "0.14.0", RunningProtocolVersion: "1.0.0",
		InstalledBy: "c19", LockTimeout: lt, GOOS: "linux", GOArch: "amd64",
		AllowUnsigned: p.Allow, OperatorAllowUnsigned: p.Operator, TTY: p.TTY, CIEnv: p.CIEnv, IsMCP: p.IsMCP,
		EnvVarSet: p.EnvVarSet, TypedConfirmation: p.TypedConfirmed,
	}
}

func installPrivate(rel string) bool {
	return under(rel, "conn/.registry") || rel == "conn/"+finalName
}

func ancestorDirs(rel string) bool { return rel == "." || rel == "conn" }

// runInstall performs prestate + one Install and judges it. hostile: the
// archive is a generated hostile one (monitor A through Install): outside
// changes are then extraction escapes.
func (g *gateRig) runInstall(sb *sandbox, sp installSpec, c any, idx int, hostile bool) cellResult {
	var cr cellResult
	cr.declared = sp.declared
	a := artifactSpec{Name: connName, Version: connVersion, SHA256: sp.declared, Size: sp.declSize, IndexVer: sp.indexVer, ExtraNames: []string{"gadget"}}
	mk := func(class, id, detail string, wit any) vp.Violation {
		cs := map[string]any{"index": idx, "monitor": "B", "cell": c, "declared_sha256": cut(sp.declared, 100), "served_sha256": sha256hex(sp.archive), "install_error": fmt.Sprint(cr.err)}
		return vp.Violation{Property: "C19", Class: class, Identity: "C19/" + class + "/" + id, Detail: detail, Case: cs, Witness: wit}
	}
	// ---- prestate
	switch sp.pre {
	case "prev-other-installed":
		good := sp
		good.fetch, good.verifier, good.policy = "ok", vAccept, policyCtxs[0]
		ga := a
		ga.SHA256, ga.Size, ga.IndexVer = sha256hex(sp.archive), int64(len(sp.archive)), sp.indexVer-1
		if err := g.prepareRoutes(good, &ga); err != nil {
			cr.err = err
			cr.outcome = "setup-error"
			return cr
		}
		if _, err := registry.Install(context.Background(), g.opts(sb, good, &scriptedVerifier{mode: vAccept}, "gadget")); err != nil {
			cr.outcome = "setup-error"
			cr.err = fmt.Errorf("prestate install failed: %w", err)
			return cr
		}
		// the prestate legitimately cached the same bytes; drop the cache so the
		// cell's own fetch path is exercised
		os.RemoveAll(filepath.Join(sb.Conn, ".registry", "cache"))
	case "cache-hit":
		if err := registry.CachePopulate(sb.Conn, sha256hex(sp.archive), sp.archive, "prestate"); err != nil {
			cr.outcome = "setup-error"
			cr.err = err
			return cr
		}
	case "cache-poisoned":
		if d, ok := parseDeclared(sp.declared); ok {
			dir := filepath.Join(sb.Conn, ".registry", "cache", d)
			os.MkdirAll(dir, 0o700)
			evil := simpleArchive("conduit-connector-widget", []byte("EVIL-BINARY-FROM-POISONED-CACHE"))
			os.WriteFile(filepath.Join(dir, "artifact"), evil, 0o600)
			os.WriteFile(filepath.Join(dir, "meta.json"), []byte(fmt.Sprintf(`{"sha256":%q,"size":%d}`, d, len(evil))), 0o600)
		}
	}
	if err := g.prepareRoutes(sp, &a); err != nil {
		cr.err = err
		cr.outcome = "setup-error"
		return cr
	}
	manPath := filepath.Join(sb.Conn, ".registry", "manifest.json")
	manBefore, _ := os.ReadFile(manPath)
	existedBefore := map[string]bool{}
	for _, n := range installDirArtifacts(sb.Conn) {
		existedBefore[n] = true
	}
	before := takeSnapshot(sb.Root, installPrivate)
	sv := &scriptedVerifier{mode: sp.verifier, conn: sb.Conn}
	_, err := registry.Install(context.Background(), g.opts(sb, sp, sv, connName))
	cr.err = err
	after := takeSnapshot(sb.Root, installPrivate)
	cr.files = int64(len(before.Nodes) + len(after.Nodes))
	cr.calls = sv.log()

	var newFiles []string
	for _, n := range installDirArtifacts(sb.Conn) {
		if !existedBefore[n] {
			newFiles = append(newFiles, n)
		}
	}
	cr.installed = len(newFiles) > 0
	digestOK := digestDenotes(sp.declared, sp.archive)
	accepted := false
	for _, cl := range cr.calls {
		if cl.Returned == string(vAccept) {
			accepted = true
		}
	}
	unsignedAllowed := sp.policy.Allow && sp.policy.Operator

	// V3: the verifier was handed bytes that had not passed the digest check
	declHex, declOK := parseDeclared(sp.declared)
	for _, cl := range cr.calls {
		if !declOK || cl.Digest != declHex {
			cr.viols = append(cr.viols, mk("verify-before-digest-check", "Install/VerifyArtifact-called-with-digest-not-matching-index",
				fmt.Sprintf("VerifyArtifact was invoked with digest %s although the index declares %q (digest class %s): the corruption check had not passed", cl.Digest, cut(sp.declared, 80), cellDigestClass(c)), cr.calls))
			break
		}
		if cl.ConnFiles > len(existedBefore) {
			cr.viols = append(cr.viols, mk("install-before-verification", "Install/artifact-present-in-install-dir-while-verifier-runs",
				"an artifact file was already present in the install directory while VerifyArtifact was being called", cr.calls))
			break
		}
	}
	if cr.installed && !digestOK {
		cr.viols = append(cr.viols, mk("install-with-digest-mismatch", "Install/digest-class="+cellDigestClass(c),
			fmt.Sprintf("file(s) %v appeared in the install directory although the served bytes do not have the digest the index declares (%q)", newFiles, cut(sp.declared, 80)), newFiles))
	}
	if cr.installed && !accepted && !unsignedAllowed {
		cr.viols = append(cr.viols, mk("install-without-verification", "Install/verifier="+string(sp.verifier)+"/unsigned-requested="+fmt.Sprint(sp.policy.Allow)+"/operator-allows="+fmt.Sprint(sp.policy.Operator),
			fmt.Sprintf("file(s) %v appeared in the install directory although the verifier did not accept (calls: %d, mode %s) and the operator did not allow unsigned installs", newFiles, len(cr.calls), sp.verifier), map[string]any{"calls": cr.calls, "policy": sp.policy}))
	}
	// installed bytes = verified bytes; stray files
	for _, n := range newFiles {
		p := filepath.Join(sb.Conn, n)
		fi, e := os.Lstat(p)
		if n != finalName {
			cr.viols = append(cr.viols, mk("stray-file-in-install-dir", "Install/unexpected-entry",
				fmt.Sprintf("unexpected entry %q appeared in the install directory", n), newFiles))
			continue
		}
		if e != nil || !fi.Mode().IsRegular() {
			ty := "unstatable"
			if e == nil {
				ty = typeOf(fi.Mode())
			}
			cr.viols = append(cr.viols, mk("installed-artifact-not-regular", "Install/final-path-"+ty,
				fmt.Sprintf("installed artifact %q is not a regular file", n), nil))
			continue
		}
		if sp.bin != nil {
			got, _ := os.ReadFile(p)
			if !bytes.Equal(got, sp.bin) {
				cr.viols = append(cr.viols, mk("installed-bytes-differ", "Install/final-artifact-content",
					fmt.Sprintf("installed artifact has %d bytes (sha256 %s), expected the %d bytes of the verified archive's binary (sha256 %s)", len(got), sha256hex(got), len(sp.bin), sha256hex(sp.bin)), nil))
			}
		}
	}
	// manifest: previous or new complete document
	manAfter, _ := os.ReadFile(manPath)
	manState := classifyManifest(manBefore, manAfter, connName+"@"+connVersion, "sha256:"+sha256hex(sp.archive), finalName)
	if manState == "torn" || manState == "foreign" {
		cr.viols = append(cr.viols, mk("manifest-not-old-or-new", "Install/manifest-"+manState,
			"after Install returned, manifest.json is neither the previous document nor the previous document plus the complete new entry", map[string]any{"before": cut(string(manBefore), 600), "after": cut(string(manAfter), 600)}))
	}
	if manState == "new" && !cr.installed {
		cr.viols = append(cr.viols, mk("manifest-lists-missing-artifact", "Install/manifest-new-without-artifact",
			"manifest.json records the install but no artifact file is present", nil))
	}
	if manState == "new" && (!digestOK || (!accepted && !unsignedAllowed)) {
		cr.viols = append(cr.viols, mk("manifest-records-unverified", "Install/manifest-entry-without-gate",
			"manifest.json records an install that did not pass the digest/verification gate", nil))
	}
	// outside the private area
	ch := diffOutside(before, after, installPrivate, ancestorDirs)
	ch = append(ch, linksEscaping(after, installPrivate, filepath.Join(sb.Conn, ".registry"))...)
	if len(ch) > 0 {
		b, _ := json.Marshal(ch)
		if hostile {
			cr.viols = append(cr.viols, mk("extract-escape", "Install/"+ch[0].Kind+"-outside-install-dir",
				fmt.Sprintf("an install of a hostile archive changed %d path(s) outside .registry/ and the final artifact path (first: %s %s)", len(ch), ch[0].Kind, ch[0].Rel), ch))
		} else if os.Getenv("VERIF_C19_STRICT_TREE") == "1" {
			cr.viols = append(cr.viols, mk("install-touches-outside", "Install/"+ch[0].Kind+"-outside-install-dir/digest-class="+cellDigestClass(c),
				fmt.Sprintf("Install changed %d path(s) outside the install directory's private area (first: %s %s %s)", len(ch), ch[0].Kind, ch[0].Rel, ch[0].Note), ch))
		} else {
			cr.observations = append(cr.observations, "outside-change:"+string(b))
		}
	}
	switch {
	case err == nil && cr.installed:
		cr.outcome = "installed"
	case err == nil:
		cr.outcome = "ok-without-install"
	case cr.installed:
		cr.outcome = "error-but-installed:" + errCode(err)
	default:
		cr.outcome = "refused:" + errCode(err)
	}
	return cr
}

func cellDigestClass(c any) string {
	if cl, ok := c.(cell); ok {
		return cl.Digest
	}
	return "n/a"
}

// classifyManifest: "absent" | "old" (byte-identical to before) | "new"
// (before's entries unchanged plus the complete new entry) | "torn" (does
// not parse) | "foreign" (parses but is neither).
func classifyManifest(before, after []byte, key, digest, file string) string {
	if after == nil {
		if before == nil {
			return "absent"
		}
		return "foreign" // manifest vanished
	}
	if before != nil && bytes.Equal(before, after) {
		return "old"
	}
	var ma registry.Manifest
	if err := json.Unmarshal(after, &ma); err != nil {
		return "torn"
	}
	var mb registry.Manifest
	if before != nil {
		if err := json.Unmarshal(before, &mb); err != nil {
			return "foreign"
		}
	}
	e, ok := ma.Installs[key]
	if !ok || e.Digest != digest || e.ArtifactFile != file || e.Name == "" || e.Version == "" || ma.SchemaVersion != registry.ManifestSchemaVersion {
		return "foreign"
	}
	if len(ma.Installs) != len(mb.Installs)+1 {
		if _, had := mb.Installs[key]; !(had && len(ma.Installs) == len(mb.Installs)) {
			return "foreign"
		}
	}
	for k, v := range mb.Installs {
		if k == key {
			continue
		}
		w, ok := ma.Installs[k]
		if !ok || w.Digest != v.Digest || w.ArtifactFile != v.ArtifactFile || !w.InstalledAt.Equal(v.InstalledAt) {
			return "foreign"
		}
	}
	return "new"
}

// runGateCase: one (digest class, verifier mode, fetch scenario) triple over
// the policy contexts and prestates selected for the tier.
func runGateCase(seed int64, tier string, idx int, dIdx, vIdx, fIdx int) vp.CaseResult {
	r := rand.New(rand.NewSource(seed*1_000_000 + int64(idx)))
	res := vp.CaseResult{Stats: map[string]int64{}, Sets: map[string][]string{}}
	g := newGateRig(r)
	defer g.Close()
	dc, vm, fs := digestClasses[dIdx], verifierModes[vIdx], fetchScenarios[fIdx]
	var pres []string
	if tier == "thorough" {
		pres = prestates
	} else {
		pres = []string{prestates[idx%len(prestates)]}
	}
	outcomes := map[string]bool{}
	reachedGate := false
	pcs := policyCtxs
	if strings.HasPrefix(fs, "index:") && fs != "index:slow-close" {
		// the index never arrives: nothing downstream can differ between policy contexts
		pcs = policyCtxs[:2]
		pres = pres[:1]
	}
	for _, pre := range pres {
		for _, pc := range pcs {
			sb, err := newSandbox("B")
			if err != nil {
				res.Inconclusive = "sandbox: " + err.Error()
				return res
			}
			bin := make([]byte, 512+r.Intn(4096))
			r.Read(bin)
			archive := simpleArchive("conduit-connector-widget", bin)
			c := cell{Digest: dc, Verifier: vm, Fetch: fs, Policy: pc.Name, Pre: pre}
			sp := installSpec{archive: archive, bin: bin, declared: declaredDigest(dc, archive, r), declSize: int64(len(archive)),
				verifier: vm, policy: pc, fetch: fs, pre: pre, indexVer: 10 + int64(r.Intn(5))}
			cr := g.runInstall(sb, sp, c, idx, false)
			sb.Close()
			if cr.outcome == "setup-error" {
				res.Inconclusive = "setup: " + fmt.Sprint(cr.err)
				return res
			}
			res.Stats["B_gate_cells"]++
			res.Stats["B_files_snapshotted"] += cr.files
			res.Stats["B_verifier_calls"] += int64(len(cr.calls))
			if cr.installed {
				res.Stats["B_installed"]++
			} else {
				res.Stats["B_refused"]++
			}
			if len(cr.calls) > 0 {
				reachedGate = true
			}
			if pc.Allow && len(cr.calls) == 0 && cr.installed {
				res.Stats["B_installed_via_unsigned_policy"]++
				reachedGate = true
			}
			if pc.Allow && digestDenotes(sp.declared, archive) && (fs == "ok" || strings.HasPrefix(fs, "sig:") || strings.HasPrefix(fs, "prov:")) {
				if pc.documentedAllows() == cr.installed {
					res.Stats["B_unsigned_policy_matrix_agrees_with_doc"]++
				} else {
					res.Stats["B_unsigned_policy_matrix_DISAGREES_with_doc(observation)"]++
				}
			}
			for _, o := range cr.observations {
				res.Stats["B_OBSERVATION_paths_outside_install_dir_changed(not charged to C19)"]++
				res.Sets["B_observations"] = appendUniq(res.Sets["B_observations"], "digest="+dc+" "+cut(o, 300))
			}
			outcomes[cr.outcome] = true
			res.Sets["B_outcomes"] = appendUniq(res.Sets["B_outcomes"], cr.outcome)
			res.Violations = append(res.Violations, cr.viols...)
			if res.Sample == nil && (pc.Name == policyCtxs[4].Name || len(pcs) < 3) {
				res.Sample = map[string]any{"monitor": "B", "cell": c, "outcome": cr.outcome, "verifier_calls": cr.calls, "declared_sha256": cut(sp.declared, 80)}
			}
			if len(res.Violations) > 4 {
				break
			}
		}
	}
	var ocs []string
	for o := range outcomes {
		ocs = append(ocs, o)
	}
	sort.Strings(ocs)
	res.Sig = fmt.Sprintf("B/gate/%s/%s/%s→%s", dc, vm, fs, strings.Join(ocs, "|"))
	// the deciding path (digest check and/or the verification gate) was reached
	// unless every cell died in the index fetch
	res.Nontrivial = reachedGate || !strings.HasPrefix(fs, "index:")
	return res
}

// ---------------------------------------------------------------------------
// processors: the same gate through registry.InstallProcessor, with the real
// WASM fixture of the repository as the artifact (so that the install-time
// validation hook can pass) or garbage bytes.

const (
	procName    = "chaos-processor"
	procVersion = "1.3.5"
)

var procCells = []struct {
	Digest   string
	Verifier verifierMode
	Policy   int
	Garbage  bool
}{
	{"match", vAccept, 0, false},
	{"mismatch-bitflip", vAccept, 0, false},
	{"match", vReject, 0, false},
	{"match", vUnsigned, 0, false},
	{"match", vError, 0, false},
	{"match", vReject, 4, false},
	{"match", vAccept, 0, true},
	{"malformed-nonhex", vAccept, 0, false},
	{"match", vReject, 2, false},
}

func runProcessorCase(seed int64, tier string, idx, k int) vp.CaseResult {
	r := rand.New(rand.NewSource(seed*1_000_000 + int64(idx)))
	res := vp.CaseResult{Stats: map[string]int64{}, Sets: map[string][]string{}}
	pc := procCells[k%len(procCells)]
	repo := os.Getenv("VERIF_REPO")
	if repo == "" {
		repo = "/repo"
	}
	const fixture = "pkg/plugin/processor/standalone/test/wasm_processors/chaos/processor.wasm"
	wasm, err := os.ReadFile(filepath.Join(repo, fixture))
	if err != nil { // a scratch worktree lacks the (git-ignored) built fixture
		wasm, err = os.ReadFile(filepath.Join("/repo", fixture))
	}
	if err != nil {
		res.Inconclusive = "WASM fixture not readable: " + err.Error()
		return res
	}
	if pc.Garbage {
		wasm = []byte("\x00asm-this-is-not-a-module")
	}
	archive := buildTarGz([]tent{{Name: "processor.wasm", Type: '0', Data: wasm, Mode: 0o644}}, tarOpts{})
	g := newGateRig(r)
	defer g.Close()
	sb, err := newSandbox("P")
	if err != nil {
		res.Inconclusive = "sandbox: " + err.Error()
		return res
	}
	defer sb.Close()
	procDir := filepath.Join(sb.Root, "procs")
	os.MkdirAll(procDir, 0o755)
	declared := declaredDigest(pc.Digest, archive, r)
	g.srv.set("/p/artifact.tar.gz", archive, fOK)
	g.srv.set("/p/sig", []byte(`{"scripted":true}`), fOK)
	a := artifactSpec{Name: connName, Version: connVersion, URL: g.srv.URL("/none"), SHA256: sha256hex(nil), Size: 1, SigURL: g.srv.URL("/none"), IndexVer: 5,
		Proc: &procSpec{Name: procName, Version: procVersion, URL: g.srv.URL("/p/artifact.tar.gz"), SHA256: declared, Size: int64(len(archive)), SigURL: g.srv.URL("/p/sig")}}
	raw, err := g.kr.signEnvelope(buildPayload(a), "root")
	if err != nil {
		res.Inconclusive = "sign: " + err.Error()
		return res
	}
	g.srv.set("/index.json", raw, fOK)
	pol := policyCtxs[pc.Policy]
	sv := &scriptedVerifier{mode: pc.Verifier}
	final := registry.ProcessorFileName(procName, procVersion)
	priv := func(rel string) bool { return under(rel, "procs/.registry") || rel == "procs/"+final }
	before := takeSnapshot(sb.Root, priv)
	_, ierr := registry.InstallProcessor(context.Background(), registry.InstallOptions{
		Name: procName, ProcessorsPath: procDir, IndexURL: g.srv.URL("/index.json"),
		IndexVerifier:    &registry.TrustedVerifier{Anchors: g.kr.anchors(), StatePath: registry.IndexStatePath(procDir), LockTimeout: 10 * time.Second},
		ArtifactVerifier: sv, RunningConduitVersion: "0.14.0", RunningProtocolVersion: "1.0.0", InstalledBy: "c19", LockTimeout: 10 * time.Second,
		AllowUnsigned: pol.Allow, OperatorAllowUnsigned: pol.Operator, TTY: pol.TTY, CIEnv: pol.CIEnv, IsMCP: pol.IsMCP, EnvVarSet: pol.EnvVarSet, TypedConfirmation: pol.TypedConfirmed,
	})
	after := takeSnapshot(sb.Root, priv)
	var newFiles []string
	ents, _ := os.ReadDir(procDir)
	for _, e := range ents {
		if e.Name() != ".registry" {
			newFiles = append(newFiles, e.Name())
		}
	}
	installed := len(newFiles) > 0
	calls := sv.log()
	accepted := false
	for _, c := range calls {
		accepted = accepted || c.Returned == string(vAccept)
	}
	digestOK := digestDenotes(declared, archive)
	cell := map[string]any{"index": idx, "monitor": "B(processor)", "digest_class": pc.Digest, "verifier": pc.Verifier, "policy": pol.Name, "garbage_wasm": pc.Garbage, "install_error": fmt.Sprint(ierr)}
	mk := func(class, id, detail string, wit any) vp.Violation {
		return vp.Violation{Property: "C19", Class: class, Identity: "C19/" + class + "/" + id, Detail: detail, Case: cell, Witness: wit}
	}
	declHex, declOK := parseDeclared(declared)
	for _, c := range calls {
		if !declOK || c.Digest != declHex {
			res.Violations = append(res.Violations, mk("verify-before-digest-check", "InstallProcessor/VerifyArtifact-called-with-digest-not-matching-index",
				"VerifyArtifact was invoked with a digest the index does not declare", calls))
			break
		}
	}
	if installed && !digestOK {
		res.Violations = append(res.Violations, mk("install-with-digest-mismatch", "InstallProcessor/digest-class="+pc.Digest, fmt.Sprintf("%v appeared in the processors directory although the digest does not match", newFiles), newFiles))
	}
	if installed && !accepted && !(pol.Allow && pol.Operator) {
		res.Violations = append(res.Violations, mk("install-without-verification", "InstallProcessor/verifier="+string(pc.Verifier), fmt.Sprintf("%v appeared in the processors directory although the verifier did not accept and unsigned installs were not allowed", newFiles), calls))
	}
	for _, n := range newFiles {
		if n != final {
			res.Violations = append(res.Violations, mk("stray-file-in-install-dir", "InstallProcessor/unexpected-entry", "unexpected entry "+n+" in the processors directory", newFiles))
		} else if got, _ := os.ReadFile(filepath.Join(procDir, n)); !bytes.Equal(got, wasm) {
			res.Violations = append(res.Violations, mk("installed-bytes-differ", "InstallProcessor/final-artifact-content", "installed processor bytes differ from the verified archive's module", nil))
		}
	}
	if ch := diffOutside(before, after, priv, func(rel string) bool { return rel == "." || rel == "procs" }); len(ch) > 0 {
		res.Violations = append(res.Violations, mk("extract-escape", "InstallProcessor/"+ch[0].Kind+"-outside-install-dir", "InstallProcessor changed paths outside its private area", ch))
	}
	res.Stats["B_gate_cells"]++
	res.Stats["B_processor_cells"]++
	res.Stats["B_verifier_calls"] += int64(len(calls))
	res.Stats["B_files_snapshotted"] += int64(len(before.Nodes) + len(after.Nodes))
	outcome := "refused:" + errCode(ierr)
	if installed {
		outcome = "installed"
		res.Stats["B_installed"]++
		res.Stats["B_processor_installed"]++
	} else {
		res.Stats["B_refused"]++
	}
	res.Sets["B_outcomes"] = []string{"processor:" + outcome}
	res.Sig = fmt.Sprintf("B/processor/%s/%s/%s/garbage=%v→%s", pc.Digest, pc.Verifier, pol.Name, pc.Garbage, outcome)
	res.Nontrivial = true
	res.Sample = map[string]any{"monitor": "B(processor)", "cell": cell, "outcome": outcome, "verifier_calls": calls}
	return res
}
