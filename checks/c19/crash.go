package c19

import (
	"bufio"
	"bytes"
	"context"
	"crypto/ed25519"
	"encoding/base64"
	"encoding/json"
	"fmt"
	"io"
	"math/rand"
	"net/http"
	"os"
	"os/exec"
	"path/filepath"
	"regexp"
	"runtime"
	"sort"
	"strings"
	"time"

	"verif/internal/vp"

	"github.com/conduitio/conduit/pkg/registry"
	"github.com/conduitio/conduit/pkg/registry/index"
)

// Monitor D: crash atomicity. A child process (this very binary, dispatched
// from init() on VERIF_C19_CHILD) performs ONE registry.Install with its
// goroutine locked to the main OS thread and its HTTP requests answered from
// memory, so that every file-system syscall of the install is issued by the
// main thread. The parent runs it under
//
//	strace -f -y -e trace=<set> -e inject=<syscall>:signal=KILL:when=N
//
// strace counts "when" per thread and per syscall, so (syscall, N) names
// "immediately before the N-th <syscall> of the main thread". A calibration
// run (trace only) lists every such point from the first syscall naming the
// sandbox onwards; each case kills at the points of its stride slice. The
// parent then judges what is on disk and installs again.

var crashScenarios = []string{"fresh", "second-connector", "upgrade-same-name", "over-stale-artifact", "fresh-large-artifact", "second-connector-unsigned"}

const quickCrashScenarios = 4

const traceSet = "openat,write,fsync,fdatasync,ftruncate,renameat,renameat2,rename,unlinkat,unlink,mkdirat,mkdir,fchmodat,fchmod,chmod,flock,linkat,symlinkat"

type childSpec struct {
	Conn     string `json:"conn"`
	IndexURL string `json:"index_url"`
	Name     string `json:"name"`
	RootPub  string `json:"root_pub"`
	FreshPub string `json:"fresh_pub"`
	Out      string `json:"out"`
	// Routes: URL path -> file holding the body (answered from memory).
	Routes   map[string]string `json:"routes"`
	Unsigned bool              `json:"unsigned"`
}

type childResult struct {
	OK   bool   `json:"ok"`
	Err  string `json:"err,omitempty"`
	Code string `json:"code,omitempty"`
}

type memTransport struct{ bodies map[string][]byte }

func (m memTransport) RoundTrip(req *http.Request) (*http.Response, error) {
	b, ok := m.bodies[req.URL.Path]
	code := 200
	if !ok {
		code, b = 404, []byte("not found")
	}
	return &http.Response{StatusCode: code, Status: fmt.Sprint(code), Proto: "HTTP/1.1", ProtoMajor: 1, ProtoMinor: 1,
		Header: http.Header{}, Body: io.NopCloser(bytes.NewReader(b)), ContentLength: int64(len(b)), Request: req}, nil
}

func init() {
	p := os.Getenv("VERIF_C19_CHILD")
	if p == "" {
		return
	}
	runtime.LockOSThread()
	b, err := os.ReadFile(p)
	if err != nil {
		fmt.Fprintln(os.Stderr, "c19 child:", err)
		os.Exit(4)
	}
	var sp childSpec
	if err := json.Unmarshal(b, &sp); err != nil {
		fmt.Fprintln(os.Stderr, "c19 child:", err)
		os.Exit(4)
	}
	rp, _ := base64.StdEncoding.DecodeString(sp.RootPub)
	fp, _ := base64.StdEncoding.DecodeString(sp.FreshPub)
	rid, _ := index.KeyID(ed25519.PublicKey(rp))
	fid, _ := index.KeyID(ed25519.PublicKey(fp))
	anchors := index.TrustAnchors{Roots: map[string]ed25519.PublicKey{rid: rp}, Freshness: map[string]ed25519.PublicKey{fid: fp}}
	mt := memTransport{bodies: map[string][]byte{}}
	for path, file := range sp.Routes {
		mt.bodies[path], _ = os.ReadFile(file)
	}
	http.DefaultClient = &http.Client{Transport: mt}
	o := childOpts(sp.Conn, sp.IndexURL, sp.Name, anchors)
	o.HTTPClient = &http.Client{Transport: mt}
	if sp.Unsigned {
		o.AllowUnsigned, o.OperatorAllowUnsigned, o.EnvVarSet = true, true, true
	}
	_, err = registry.Install(context.Background(), o)
	cr := childResult{OK: err == nil}
	if err != nil {
		cr.Err, cr.Code = err.Error(), errCode(err)
	}
	ob, _ := json.Marshal(cr)
	os.WriteFile(sp.Out, ob, 0o644)
	if err != nil {
		os.Exit(3)
	}
	os.Exit(0)
}

func childOpts(conn, indexURL, name string, anchors index.TrustAnchors) registry.InstallOptions {
	return registry.InstallOptions{
		Name: name, ConnectorsPath: conn, IndexURL: indexURL,
		IndexVerifier:    &registry.TrustedVerifier{Anchors: anchors, StatePath: registry.IndexStatePath(conn), LockTimeout: 10 * time.Second},
		ArtifactVerifier: &scriptedVerifier{mode: vAccept}, RunningConduitVersion: "0.14.0", RunningProtocolVersion: "1.0.0",
		InstalledBy: "c19-child", LockTimeout: 10 * time.Second, GOOS: "linux", GOArch: "amd64",
	}
}

// ---------------------------------------------------------------------------

type crashRig struct {
	g        *gateRig
	scenario string
	archive  []byte
	bin      []byte
	oldBin   []byte
	vNew     int64
	work     string // spec/log/body files, outside every sandbox
	unsigned bool
}

type crashWorld struct {
	sb          *sandbox
	manBefore   []byte
	stateBefore []byte
	artBefore   []byte
	treeBefore  *snapshot
	indexRaw    []byte
}

func newCrashRig(r *rand.Rand, scenario string) (*crashRig, error) {
	c := &crashRig{g: newGateRig(r), scenario: scenario, vNew: 20}
	n := 3000 + r.Intn(3000)
	if scenario == "fresh-large-artifact" {
		n = 600_000 + r.Intn(100_000) // incompressible: several write(2) chunks in download/extract
	}
	c.unsigned = scenario == "second-connector-unsigned"
	c.bin = make([]byte, n)
	r.Read(c.bin)
	c.archive = simpleArchive("conduit-connector-widget", c.bin)
	c.oldBin = []byte("STALE-ARTIFACT-FROM-AN-EARLIER-INTERRUPTED-INSTALL")
	w, err := os.MkdirTemp(workBase(), "c19crash-")
	if err != nil {
		return nil, err
	}
	c.work = w
	return c, nil
}

func (c *crashRig) Close() { c.g.Close(); os.RemoveAll(c.work) }

func (c *crashRig) spec(ver int64) installSpec {
	sp := installSpec{archive: c.archive, bin: c.bin, declared: sha256hex(c.archive), declSize: int64(len(c.archive)),
		verifier: vAccept, policy: policyCtxs[0], fetch: "ok", pre: "fresh", indexVer: ver}
	return sp
}

func (c *crashRig) routes(ver int64, older string) error {
	sp := c.spec(ver)
	a := artifactSpec{Name: connName, Version: connVersion, SHA256: sp.declared, Size: sp.declSize, IndexVer: ver, ExtraNames: []string{"gadget"}, OlderVersion: older}
	return c.g.prepareRoutes(sp, &a)
}

// world builds a sandbox in the scenario's prestate (in-process installs
// against the loopback server) and publishes the new index.
func (c *crashRig) world() (*crashWorld, error) {
	sb, err := newSandbox("D")
	if err != nil {
		return nil, err
	}
	w := &crashWorld{sb: sb}
	inst := func(name, version string) error {
		o := c.g.opts(sb, c.spec(c.vNew-1), &scriptedVerifier{mode: vAccept}, name)
		o.Version = version
		_, err := registry.Install(context.Background(), o)
		return err
	}
	switch c.scenario {
	case "second-connector", "second-connector-unsigned":
		if err = c.routes(c.vNew-1, ""); err == nil {
			err = inst("gadget", "")
		}
	case "upgrade-same-name":
		if err = c.routes(c.vNew-1, "1.0.0"); err == nil {
			err = inst(connName, "1.0.0")
		}
	case "over-stale-artifact":
		if err = c.routes(c.vNew-1, ""); err == nil {
			if err = inst("gadget", ""); err == nil {
				err = os.WriteFile(filepath.Join(sb.Conn, finalName), c.oldBin, 0o755)
			}
		}
	}
	if err != nil {
		sb.Close()
		return nil, fmt.Errorf("prestate %s: %w", c.scenario, err)
	}
	// the prestate cached the same bytes: drop the cache so that the judged
	// install performs its own download + cache populate
	os.RemoveAll(filepath.Join(sb.Conn, ".registry", "cache"))
	older := ""
	if c.scenario == "upgrade-same-name" {
		older = "1.0.0"
	}
	if err := c.routes(c.vNew, older); err != nil {
		sb.Close()
		return nil, err
	}
	c.g.srv.mu.Lock()
	w.indexRaw = c.g.srv.routes["/index.json"].body
	c.g.srv.mu.Unlock()
	w.manBefore, _ = os.ReadFile(filepath.Join(sb.Conn, ".registry", "manifest.json"))
	w.stateBefore, _ = os.ReadFile(registry.IndexStatePath(sb.Conn))
	w.artBefore, _ = os.ReadFile(filepath.Join(sb.Conn, finalName))
	w.treeBefore = takeSnapshot(sb.Root, installPrivate)
	return w, nil
}

type sysEvent struct {
	Syscall string
	N       int // ordinal of this syscall kind on the main thread
	Label   string
	InSB    bool
}

type straceRun struct {
	killed     bool
	killLine   string
	killLabel  string
	killOnMain bool
	mainSeq    []sysEvent
	exit       int
	childRes   *childResult
	stderr     string
}

var (
	reLine   = regexp.MustCompile(`^(\d+)\s+([a-z0-9_]+)\((.*)$`)
	reTmp    = regexp.MustCompile(`(install-|\.atomicfile-|\.tmp-populate-)[0-9]+`)
	reDigest = regexp.MustCompile(`[0-9a-f]{64}`)
)

func sandboxLabel(root, syscall, args string) (string, bool) {
	var paths []string
	rest := args
	for {
		i := strings.Index(rest, root)
		if i < 0 {
			break
		}
		rest = rest[i+len(root):]
		j := strings.IndexAny(rest, "\">")
		if j < 0 {
			j = len(rest)
		}
		p := strings.TrimPrefix(rest[:j], "/")
		p = reTmp.ReplaceAllString(p, "$1*")
		p = reDigest.ReplaceAllString(p, "<digest>")
		if p == "" {
			p = "."
		}
		if len(paths) == 0 || paths[len(paths)-1] != p {
			paths = append(paths, p)
		}
		rest = rest[j:]
	}
	if len(paths) == 0 {
		return syscall + " (elsewhere)", false
	}
	return syscall + " " + strings.Join(paths, " -> "), true
}

// runChild runs the child; under strace when useStrace. injectCall != "":
// SIGKILL before the when-th injectCall of any thread.
func (c *crashRig) runChild(w *crashWorld, injectCall string, when int, useStrace bool, extraEnv []string) (*straceRun, error) {
	sr := &straceRun{}
	out := filepath.Join(c.work, "child.out")
	os.Remove(out)
	body := func(name string, b []byte) string {
		p := filepath.Join(c.work, name)
		os.WriteFile(p, b, 0o644)
		return p
	}
	sp := childSpec{Conn: w.sb.Conn, IndexURL: c.g.srv.URL("/index.json"), Name: connName,
		RootPub: base64.StdEncoding.EncodeToString(c.g.kr.RootPub), FreshPub: base64.StdEncoding.EncodeToString(c.g.kr.FreshPub), Out: out,
		Unsigned: c.unsigned,
		Routes: map[string]string{
			"/index.json":        body("index.body", w.indexRaw),
			"/a/artifact.tar.gz": body("artifact.body", c.archive),
			"/a/sig":             body("sig.body", []byte(`{"scripted":true}`)),
			"/a/prov":            body("prov.body", []byte(`{"scripted-provenance":true}`)),
		}}
	sb, _ := json.Marshal(sp)
	specPath := filepath.Join(c.work, "child.spec")
	if err := os.WriteFile(specPath, sb, 0o644); err != nil {
		return nil, err
	}
	self, err := os.Executable()
	if err != nil {
		return nil, err
	}
	logPath := filepath.Join(c.work, "strace.log")
	os.Remove(logPath)
	ctx, cancel := context.WithTimeout(context.Background(), 120*time.Second)
	defer cancel()
	var cmd *exec.Cmd
	if useStrace {
		args := []string{"-f", "-y", "-q", "-s", "0", "-o", logPath, "-e", "trace=" + traceSet, "-e", "signal=none"}
		if injectCall != "" {
			args = append(args, "-e", fmt.Sprintf("inject=%s:signal=KILL:when=%d", injectCall, when))
		}
		args = append(args, self, "c19child")
		cmd = exec.CommandContext(ctx, "strace", args...)
	} else {
		cmd = exec.CommandContext(ctx, self, "c19child")
	}
	cmd.Env = append(os.Environ(), "VERIF_C19_CHILD="+specPath)
	cmd.Env = append(cmd.Env, extraEnv...)
	var eb bytes.Buffer
	cmd.Stderr = &eb
	cmd.Stdout = &eb
	err = cmd.Run()
	sr.stderr = cut(eb.String(), 800)
	if ctx.Err() != nil {
		return sr, fmt.Errorf("child timed out")
	}
	if ee, ok := err.(*exec.ExitError); ok {
		sr.exit = ee.ExitCode()
	} else if err != nil {
		return sr, err
	}
	if b, e := os.ReadFile(out); e == nil {
		var cr childResult
		if json.Unmarshal(b, &cr) == nil {
			sr.childRes = &cr
		}
	}
	if !useStrace {
		sr.killed = sr.exit == 137
		return sr, nil
	}
	f, e := os.Open(logPath)
	if e != nil {
		return sr, fmt.Errorf("no strace log: %v (stderr: %s)", e, sr.stderr)
	}
	defer f.Close()
	if d := os.Getenv("VERIF_C19_DEBUG"); d != "" {
		b, _ := os.ReadFile(logPath)
		os.WriteFile(filepath.Join(d, fmt.Sprintf("strace-%s-%d.log", injectCall, when)), b, 0o644)
	}
	mainPid := ""
	candLine, candLabel := "", ""
	counts := map[string]int{}
	sc := bufio.NewScanner(f)
	sc.Buffer(make([]byte, 1<<20), 1<<24)
	for sc.Scan() {
		line := sc.Text()
		if strings.Contains(line, "+++ killed by SIGKILL +++") {
			sr.killed = true
			continue
		}
		m := reLine.FindStringSubmatch(line)
		if m == nil {
			continue
		}
		if mainPid == "" {
			mainPid = m[1]
		}
		lab, inSB := sandboxLabel(w.sb.Root, m[2], m[3])
		if m[1] == mainPid {
			counts[m[2]]++
			sr.mainSeq = append(sr.mainSeq, sysEvent{Syscall: m[2], N: counts[m[2]], Label: lab, InSB: inSB})
			if injectCall != "" && m[2] == injectCall && counts[m[2]] == when {
				candLine, candLabel = cut(line, 300), lab // printed as "<unfinished ...>" when another thread's event interleaves
			}
		}
		if strings.HasSuffix(strings.TrimSpace(line), "= ?") {
			sr.killLine, sr.killLabel, sr.killOnMain = cut(line, 300), lab, m[1] == mainPid
			if injectCall != "" && m[2] == injectCall {
				sr.killed = true
			}
		}
	}
	if injectCall != "" && sr.childRes == nil && (sr.exit == 137 || sr.exit == -1) {
		sr.killed = true
	}
	if sr.killed && sr.killLabel == "" && candLabel != "" {
		sr.killLine, sr.killLabel, sr.killOnMain = candLine, candLabel, true
	}
	return sr, nil
}

// postMortem judges the on-disk state after a (possibly killed) install and
// then installs again in-process.
func (c *crashRig) postMortem(w *crashWorld, idx int, point string, caseInfo map[string]any) (state string, viols []vp.Violation) {
	sb := w.sb
	mk := func(class, id, detail string, wit any) vp.Violation {
		ci := map[string]any{"index": idx, "monitor": "D", "scenario": c.scenario, "kill_point": point}
		for k, v := range caseInfo {
			ci[k] = v
		}
		return vp.Violation{Property: "C19", Class: class, Identity: "C19/" + class + "/" + id + "/at=" + point, Detail: detail, Case: ci, Witness: wit}
	}
	key := connName + "@" + connVersion
	digest := "sha256:" + sha256hex(c.archive)
	manAfter, _ := os.ReadFile(filepath.Join(sb.Conn, ".registry", "manifest.json"))
	manState := classifyManifest(w.manBefore, manAfter, key, digest, finalName)
	if manState == "torn" || manState == "foreign" {
		viols = append(viols, mk("crash-manifest-not-old-or-new", "manifest.json-"+manState,
			"after the interruption manifest.json is neither the previous nor the new complete document", map[string]any{"before": cut(string(w.manBefore), 500), "after": cut(string(manAfter), 500)}))
	}
	stAfter, _ := os.ReadFile(registry.IndexStatePath(sb.Conn))
	stState := "old"
	switch {
	case stAfter == nil && w.stateBefore == nil:
		stState = "absent"
	case stAfter == nil:
		stState = "vanished"
	case bytes.Equal(stAfter, w.stateBefore):
		stState = "old"
	default:
		var st index.State
		if err := json.Unmarshal(stAfter, &st); err != nil {
			stState = "torn"
		} else if st.Version == c.vNew && strings.HasPrefix(st.LastVerifiedContentHash, "sha256:") {
			stState = "new"
		} else {
			stState = "foreign"
		}
	}
	if stState == "torn" || stState == "foreign" || stState == "vanished" {
		viols = append(viols, mk("crash-index-state-not-old-or-new", "index-state.json-"+stState,
			"after the interruption index-state.json is neither the previous nor the new complete document", map[string]any{"before": string(w.stateBefore), "after": cut(string(stAfter), 300)}))
	}
	artAfter, aerr := os.ReadFile(filepath.Join(sb.Conn, finalName))
	artState := "absent"
	switch {
	case aerr != nil && w.artBefore == nil:
		artState = "absent"
	case aerr != nil:
		artState = "vanished"
	case bytes.Equal(artAfter, c.bin):
		artState = "new"
	case w.artBefore != nil && bytes.Equal(artAfter, w.artBefore):
		artState = "old"
	default:
		artState = "partial"
	}
	if artState == "partial" {
		viols = append(viols, mk("crash-artifact-partial", "final-artifact",
			fmt.Sprintf("after the interruption the artifact at its final path has %d bytes, neither the previous (%d) nor the verified (%d) content", len(artAfter), len(w.artBefore), len(c.bin)), nil))
	}
	if manState == "new" && artState != "new" {
		viols = append(viols, mk("crash-manifest-ahead-of-artifact", "manifest-new-artifact-"+artState,
			"manifest.json records the install but the artifact at the final path is "+artState, nil))
	}
	// nothing but the final artifact and .registry may have changed
	after := takeSnapshot(sb.Root, installPrivate)
	if ch := diffOutside(w.treeBefore, after, installPrivate, ancestorDirs); len(ch) > 0 {
		viols = append(viols, mk("crash-stray-change", ch[0].Kind+"-outside-private-area",
			fmt.Sprintf("the interrupted install changed %d path(s) outside .registry/ and the final artifact path (first: %s %s)", len(ch), ch[0].Kind, ch[0].Rel), ch))
	}
	state = "manifest=" + manState + ",index-state=" + stState + ",artifact=" + artState

	// a subsequent install must succeed
	o := c.g.opts(sb, c.spec(c.vNew), &scriptedVerifier{mode: vAccept}, connName)
	_, err := registry.Install(context.Background(), o)
	if err != nil {
		viols = append(viols, mk("reinstall-after-crash-fails", "Install/"+errCode(err),
			"the install following the interruption failed: "+cut(err.Error(), 300), state))
		return state, viols
	}
	manFinal, _ := os.ReadFile(filepath.Join(sb.Conn, ".registry", "manifest.json"))
	artFinal, _ := os.ReadFile(filepath.Join(sb.Conn, finalName))
	if ms := classifyManifest(w.manBefore, manFinal, key, digest, finalName); ms != "new" || !bytes.Equal(artFinal, c.bin) {
		viols = append(viols, mk("reinstall-after-crash-incomplete", "Install/state-after-reinstall",
			fmt.Sprintf("the install following the interruption returned success but manifest=%s and artifact-complete=%v", ms, bytes.Equal(artFinal, c.bin)), state))
	}
	return state, viols
}

func haveStrace() bool {
	_, err := exec.LookPath("strace")
	return err == nil
}

func runCrashCase(seed int64, tier string, idx, sIdx, slice, crashSlices int) vp.CaseResult {
	r := rand.New(rand.NewSource(seed*1_000_000 + int64(idx)))
	res := vp.CaseResult{Stats: map[string]int64{}, Sets: map[string][]string{}}
	if !haveStrace() {
		res.Inconclusive = "strace is not available"
		return res
	}
	scenario := crashScenarios[sIdx]
	c, err := newCrashRig(r, scenario)
	if err != nil {
		res.Inconclusive = err.Error()
		return res
	}
	defer c.Close()
	// calibration: trace only
	w, err := c.world()
	if err != nil {
		res.Inconclusive = err.Error()
		return res
	}
	cal, err := c.runChild(w, "", 0, true, nil)
	if err != nil || cal.childRes == nil || !cal.childRes.OK {
		w.sb.Close()
		res.Inconclusive = fmt.Sprintf("calibration install under strace did not succeed: err=%v child=%+v stderr=%s", err, cal.childRes, cal.stderr)
		return res
	}
	_, cv := c.postMortem(w, idx, "none(calibration)", nil)
	res.Violations = append(res.Violations, cv...)
	w.sb.Close()
	res.Stats["D_calibration_runs"]++
	first := -1
	for i, e := range cal.mainSeq {
		if e.InSB {
			first = i
			break
		}
	}
	if first < 0 {
		res.Inconclusive = "calibration saw no file-system syscall naming the sandbox on the main thread"
		return res
	}
	points := cal.mainSeq[first:]
	if slice == 0 {
		res.Stats["D_syscall_points_per_install(scenario="+scenario+")"] = int64(len(points))
	}
	sigStates := map[string]bool{}
	var sample any
	for p := slice; p < len(points); p += crashSlices {
		pt := points[p]
		w, err := c.world()
		if err != nil {
			res.Inconclusive = err.Error()
			return res
		}
		run, err := c.runChild(w, pt.Syscall, pt.N, true, nil)
		if err != nil {
			w.sb.Close()
			res.Inconclusive = "kill run: " + err.Error()
			return res
		}
		point := "not-killed"
		if run.killed {
			point = run.killLabel
			if point == "" {
				point = "killed(unknown syscall)"
			}
			if !run.killOnMain {
				point = "other-thread: " + point
				res.Stats["D_kills_on_other_threads"]++
			}
			res.Stats["D_kill_points_explored"]++
			if point != pt.Label {
				res.Stats["D_kill_point_differs_from_calibration"]++
			}
		} else {
			res.Stats["D_runs_not_killed"]++
		}
		state, v := c.postMortem(w, idx, point, map[string]any{"inject": fmt.Sprintf("%s:when=%d", pt.Syscall, pt.N), "strace_line": run.killLine})
		w.sb.Close()
		res.Violations = append(res.Violations, v...)
		res.Stats["D_postmortems"]++
		res.Stats["D_reinstalls_checked"]++
		res.Sets["D_kill_points"] = appendUniq(res.Sets["D_kill_points"], scenario+": "+point)
		res.Sets["D_postmortem_states"] = appendUniq(res.Sets["D_postmortem_states"], state)
		sigStates[point+"⇒"+state] = true
		if sample == nil && run.killed && p > len(points)/2 {
			sample = map[string]any{"monitor": "D", "scenario": scenario, "inject": fmt.Sprintf("%s:when=%d", pt.Syscall, pt.N), "killed_before": run.killLine, "post_mortem": state}
		}
		if len(res.Violations) > 4 {
			break
		}
	}
	var ss []string
	for s := range sigStates {
		ss = append(ss, s)
	}
	sort.Strings(ss)
	if len(ss) > 0 {
		res.Sig = "D/strace/" + scenario + "/" + ss[len(ss)/2]
	}
	res.Nontrivial = res.Stats["D_kill_points_explored"] > 0
	res.Sample = sample
	return res
}

// runHookCrashCase: kill points at the verifhook sites (needs hooks.patch in
// the repo the harness is built against). Degrades to a recorded skip.
func runHookCrashCase(seed int64, tier string, idx, sIdx int) vp.CaseResult {
	r := rand.New(rand.NewSource(seed*1_000_000 + int64(idx)))
	res := vp.CaseResult{Stats: map[string]int64{}, Sets: map[string][]string{}}
	scenario := crashScenarios[sIdx%len(crashScenarios)]
	c, err := newCrashRig(r, scenario)
	if err != nil {
		res.Inconclusive = err.Error()
		return res
	}
	defer c.Close()
	w, err := c.world()
	if err != nil {
		res.Inconclusive = err.Error()
		return res
	}
	hlog := filepath.Join(c.work, "hooks.log")
	cal, err := c.runChild(w, "", 0, false, []string{"VERIF_HOOK_LOG=" + hlog})
	w.sb.Close()
	if err != nil || cal.childRes == nil || !cal.childRes.OK {
		res.Inconclusive = fmt.Sprintf("plain child install did not succeed: err=%v child=%+v stderr=%s", err, cal.childRes, cal.stderr)
		return res
	}
	hb, _ := os.ReadFile(hlog)
	hits := strings.Fields(string(hb))
	if len(hits) == 0 {
		res.Stats["D_hook_part_SKIPPED(hooks.patch not applied to the repo)"]++
		res.Sig = "D/hooks/not-available"
		res.Sample = map[string]any{"monitor": "D(hooks)", "note": "pkg/foundation/verifhook not present in the repo this binary was built against; apply /verif/checks/c19/hooks.patch to enable"}
		return res
	}
	res.Stats["D_hook_points_per_install(scenario="+scenario+")"] = int64(len(hits))
	for h := 1; h <= len(hits); h++ {
		w, err := c.world()
		if err != nil {
			res.Inconclusive = err.Error()
			return res
		}
		run, err := c.runChild(w, "", 0, false, []string{"VERIF_HOOK_EXIT_AT=" + fmt.Sprint(h)})
		if err != nil {
			w.sb.Close()
			res.Inconclusive = "hook kill run: " + err.Error()
			return res
		}
		occ := 0
		for _, n := range hits[:h] {
			if n == hits[h-1] {
				occ++
			}
		}
		point := fmt.Sprintf("hook:%s#%d", hits[h-1], occ)
		if !run.killed {
			point = "hook-not-reached"
			res.Stats["D_hook_runs_not_killed"]++
		} else {
			res.Stats["D_hook_kill_points_explored"]++
		}
		state, v := c.postMortem(w, idx, point, map[string]any{"hook_hit": h})
		w.sb.Close()
		res.Violations = append(res.Violations, v...)
		res.Stats["D_postmortems"]++
		res.Stats["D_reinstalls_checked"]++
		res.Sets["D_kill_points"] = appendUniq(res.Sets["D_kill_points"], scenario+": "+point)
		res.Sets["D_postmortem_states"] = appendUniq(res.Sets["D_postmortem_states"], state)
		if res.Sample == nil {
			res.Sample = map[string]any{"monitor": "D(hooks)", "scenario": scenario, "hook_sequence": hits}
		}
	}
	res.Sig = "D/hooks/" + scenario
	res.Nontrivial = res.Stats["D_hook_kill_points_explored"] > 0
	return res
}
