package c19

import (
	"context"
	"crypto/ed25519"
	"crypto/sha256"
	"encoding/base64"
	"encoding/hex"
	"encoding/json"
	"errors"
	"fmt"
	"math/rand"
	"net"
	"net/http"
	"net/http/httptest"
	"os"
	"path/filepath"
	"strings"
	"sync"
	"time"

	"github.com/conduitio/conduit/pkg/foundation/cerrors/conduiterr"
	"github.com/conduitio/conduit/pkg/registry"
	"github.com/conduitio/conduit/pkg/registry/index"
	"github.com/conduitio/conduit/pkg/registry/trust"
)

// ---------------------------------------------------------------------------
// sandbox

// sandbox is one private directory tree: root/{conn,decoy,...}. conn is the
// install directory (--connectors.path); decoy is a sibling holding canaries.
type sandbox struct {
	Root  string
	Conn  string
	Decoy string
}

func workBase() string {
	if w := os.Getenv("VERIF_WORKDIR"); w != "" {
		return w
	}
	return os.TempDir()
}

func newSandbox(tag string) (*sandbox, error) {
	base := filepath.Join(workBase(), "c19sb")
	if err := os.MkdirAll(base, 0o755); err != nil {
		return nil, err
	}
	root, err := os.MkdirTemp(base, tag+"-")
	if err != nil {
		return nil, err
	}
	// EvalSymlinks so that lexical containment checks are meaningful.
	if r, err := filepath.EvalSymlinks(root); err == nil {
		root = r
	}
	sb := &sandbox{Root: root, Conn: filepath.Join(root, "conn"), Decoy: filepath.Join(root, "decoy")}
	for _, d := range []string{sb.Conn, sb.Decoy, filepath.Join(sb.Decoy, "sub"), filepath.Join(sb.Decoy, "cachetrap")} {
		if err := os.MkdirAll(d, 0o755); err != nil {
			return nil, err
		}
	}
	canaries := map[string]string{
		filepath.Join(sb.Decoy, "canary"):                 "canary-A\n",
		filepath.Join(sb.Decoy, "sub", "canary2"):         "canary-B\n",
		filepath.Join(sb.Decoy, "cachetrap", "artifact"):  "not-a-cache-entry\n",
		filepath.Join(sb.Root, "rootcanary"):              "canary-R\n",
		filepath.Join(sb.Conn, "conduit-connector-other"): "#!/bin/true\n",
	}
	for p, c := range canaries {
		if err := os.WriteFile(p, []byte(c), 0o644); err != nil {
			return nil, err
		}
	}
	return sb, nil
}

func (s *sandbox) Close() {
	if s == nil || s.Root == "" {
		return
	}
	// directories extracted from archives may be read-only
	filepath.Walk(s.Root, func(p string, fi os.FileInfo, err error) error {
		if err == nil && fi.IsDir() {
			os.Chmod(p, 0o755)
		}
		return nil
	})
	os.RemoveAll(s.Root)
}

// ---------------------------------------------------------------------------
// keys + signed index envelopes

type keyring struct {
	RootPub   ed25519.PublicKey
	RootPriv  ed25519.PrivateKey
	FreshPub  ed25519.PublicKey
	FreshPriv ed25519.PrivateKey
	RootID    string
	FreshID   string
}

type detReader struct{ r *rand.Rand }

func (d detReader) Read(p []byte) (int, error) {
	for i := range p {
		p[i] = byte(d.r.Intn(256))
	}
	return len(p), nil
}

func newKeyring(r *rand.Rand) *keyring {
	seedR := make([]byte, ed25519.SeedSize)
	seedF := make([]byte, ed25519.SeedSize)
	detReader{r}.Read(seedR)
	detReader{r}.Read(seedF)
	k := &keyring{}
	k.RootPriv = ed25519.NewKeyFromSeed(seedR)
	k.RootPub = k.RootPriv.Public().(ed25519.PublicKey)
	k.FreshPriv = ed25519.NewKeyFromSeed(seedF)
	k.FreshPub = k.FreshPriv.Public().(ed25519.PublicKey)
	k.RootID, _ = index.KeyID(k.RootPub)
	k.FreshID, _ = index.KeyID(k.FreshPub)
	return k
}

func (k *keyring) anchors() index.TrustAnchors {
	return index.TrustAnchors{
		Roots:     map[string]ed25519.PublicKey{k.RootID: k.RootPub},
		Freshness: map[string]ed25519.PublicKey{k.FreshID: k.FreshPub},
	}
}

// signEnvelope signs payload with the requested role ("root"|"freshness").
func (k *keyring) signEnvelope(p index.Payload, role string) ([]byte, error) {
	raw, err := json.Marshal(p)
	if err != nil {
		return nil, err
	}
	canon, err := index.Canonicalize(raw)
	if err != nil {
		return nil, err
	}
	priv, id := k.RootPriv, k.RootID
	if role == "freshness" {
		priv, id = k.FreshPriv, k.FreshID
	}
	sig := ed25519.Sign(priv, canon)
	env := map[string]any{
		"payload": json.RawMessage(raw),
		"signatures": []map[string]any{{
			"role": role, "keyId": id, "algorithm": "ed25519",
			"signature": base64.StdEncoding.EncodeToString(sig),
		}},
	}
	return json.Marshal(env)
}

// artifactSpec describes the one artifact of the one version in a generated index.
type artifactSpec struct {
	Name         string
	Version      string
	URL          string
	SHA256       string
	Size         int64
	SigURL       string
	ProvURL      string
	IndexVer     int64
	ExtraNames   []string // further connectors (same artifact) so that other names resolve
	OlderVersion string   // when set, the primary connector also lists this older version (same artifact)
	Proc         *procSpec
}

type procSpec struct {
	Name, Version, URL, SHA256, SigURL string
	Size                               int64
}

func buildPayload(a artifactSpec) index.Payload {
	mk := func(name string) index.Connector {
		art := index.Artifact{
			OS: "linux", Arch: "amd64", Kind: registry.StandaloneArtifactKind,
			URL: a.URL, SHA256: a.SHA256, Size: a.Size,
			Signature: index.SignatureRef{BundleURL: a.SigURL},
		}
		if a.ProvURL != "" {
			art.SLSAProvenance = &index.ProvenanceRef{BundleURL: a.ProvURL, PredicateType: "https://slsa.dev/provenance/v1"}
		}
		return index.Connector{
			Name: name,
			Publisher: index.Publisher{
				ExpectedOIDCIssuer:      "https://token.actions.githubusercontent.com",
				ExpectedIdentityPattern: "^https://github\\.com/example/widget/\\.github/workflows/release\\.yml@refs/tags/v.*$",
			},
			Versions: []index.ConnectorVersion{{
				Version: a.Version, MinConduitVersion: "0.1.0", MinProtocolVersion: "0.1.0",
				Artifacts: []index.Artifact{art},
			}},
		}
	}
	p := index.Payload{
		SchemaVersion: 1,
		Index:         index.IndexMeta{Version: a.IndexVer, Timestamp: time.Now().UTC().Truncate(time.Second)},
		Connectors:    []index.Connector{mk(a.Name)},
	}
	if a.Proc != nil {
		p.Processors = []index.Processor{{
			Name:      a.Proc.Name,
			Publisher: p.Connectors[0].Publisher,
			Versions: []index.ProcessorVersion{{
				Version: a.Proc.Version, MinConduitVersion: "0.1.0", MinProtocolVersion: "0.1.0",
				Artifact: index.Artifact{OS: "wasip1", Arch: "wasm", Kind: registry.WASMProcessorArtifactKind, URL: a.Proc.URL, SHA256: a.Proc.SHA256, Size: a.Proc.Size,
					Signature: index.SignatureRef{BundleURL: a.Proc.SigURL}},
			}},
		}}
	}
	if a.OlderVersion != "" {
		old := p.Connectors[0].Versions[0]
		old.Version = a.OlderVersion
		p.Connectors[0].Versions = append([]index.ConnectorVersion{old}, p.Connectors[0].Versions...)
	}
	for _, n := range a.ExtraNames {
		p.Connectors = append(p.Connectors, mk(n))
	}
	return p
}

// ---------------------------------------------------------------------------
// scripted artifact verifier with a call log

type verifierMode string

const (
	vAccept   verifierMode = "accept"
	vReject   verifierMode = "reject"
	vUnsigned verifierMode = "unsigned-success"
	vError    verifierMode = "error"
)

type verifyCall struct {
	Digest    string `json:"digest"`
	SigLen    int    `json:"sig_len"`
	ProvLen   int    `json:"prov_len"`
	Issuer    string `json:"issuer"`
	Returned  string `json:"returned"`
	ConnFiles int    `json:"conn_files_at_call"` // non-.registry entries in the install dir when called
}

type scriptedVerifier struct {
	mu    sync.Mutex
	mode  verifierMode
	calls []verifyCall
	conn  string // install dir, inspected at call time
}

var errScriptedReject = conduiterr.New(trust.CodeIdentityMismatch, "scripted verifier: signature rejected")

func (v *scriptedVerifier) VerifyArtifact(_ context.Context, ref registry.ArtifactRef, id trust.PinnedIdentity) (registry.VerifyResult, error) {
	c := verifyCall{Digest: hex.EncodeToString(ref.Digest[:]), SigLen: len(ref.SignatureBundle), ProvLen: len(ref.ProvenanceBundle), Issuer: id.OIDCIssuer}
	if v.conn != "" {
		c.ConnFiles = len(installDirArtifacts(v.conn))
	}
	var res registry.VerifyResult
	var err error
	switch v.mode {
	case vAccept:
		res = registry.VerifyResult{Signed: true, VerifiedIdentity: "https://github.com/example/widget/.github/workflows/release.yml@refs/tags/v1"}
	case vReject:
		err = errScriptedReject
	case vUnsigned:
		res = registry.VerifyResult{Signed: false}
	case vError:
		err = errors.New("scripted verifier: transient internal error")
	}
	c.Returned = string(v.mode)
	v.mu.Lock()
	v.calls = append(v.calls, c)
	v.mu.Unlock()
	return res, err
}

func (v *scriptedVerifier) log() []verifyCall {
	v.mu.Lock()
	defer v.mu.Unlock()
	return append([]verifyCall(nil), v.calls...)
}

// installDirArtifacts lists entries of the install directory other than the
// .registry bookkeeping directory and the pre-seeded canary.
func installDirArtifacts(conn string) []string {
	ents, err := os.ReadDir(conn)
	if err != nil {
		return nil
	}
	var out []string
	for _, e := range ents {
		if e.Name() == ".registry" || e.Name() == "conduit-connector-other" {
			continue
		}
		out = append(out, e.Name())
	}
	return out
}

// ---------------------------------------------------------------------------
// loopback server

type fetchMode string

const (
	fOK          fetchMode = "ok"
	f404         fetchMode = "404"
	f500         fetchMode = "500"
	fTruncCL     fetchMode = "truncated-content-length"
	fTruncChunk  fetchMode = "truncated-chunked"
	fOversize    fetchMode = "oversize"
	fSlowClose   fetchMode = "slow-close"
	fRedirect    fetchMode = "redirect-ok"
	fRedirLoop   fetchMode = "redirect-loop"
	fEmpty       fetchMode = "empty-body"
	fGarbageTail fetchMode = "garbage-tail-within-cap"
)

type route struct {
	body []byte
	mode fetchMode
	// oversizeTo: total bytes to send in fOversize mode (body is repeated/padded)
	oversizeTo int64
}

type server struct {
	ts     *httptest.Server
	mu     sync.Mutex
	routes map[string]*route
	hits   map[string]int
}

func newServer() *server {
	s := &server{routes: map[string]*route{}, hits: map[string]int{}}
	s.ts = httptest.NewServer(http.HandlerFunc(s.serve))
	return s
}

func (s *server) URL(path string) string { return s.ts.URL + path }
func (s *server) Close()                 { s.ts.CloseClientConnections(); s.ts.Close() }
func (s *server) set(path string, body []byte, mode fetchMode) *route {
	s.mu.Lock()
	defer s.mu.Unlock()
	r := &route{body: body, mode: mode}
	s.routes[path] = r
	return r
}
func (s *server) hit(path string) int {
	s.mu.Lock()
	defer s.mu.Unlock()
	return s.hits[path]
}

func (s *server) serve(w http.ResponseWriter, req *http.Request) {
	s.mu.Lock()
	p := req.URL.Path
	r := s.routes[p]
	s.hits[p]++
	s.mu.Unlock()
	if strings.HasPrefix(p, "/redir/") {
		// /redir/<n>/<target...>: n more hops
		parts := strings.SplitN(strings.TrimPrefix(p, "/redir/"), "/", 2)
		n := 0
		fmt.Sscanf(parts[0], "%d", &n)
		if n <= 0 {
			http.Redirect(w, req, "/"+parts[1], http.StatusFound)
		} else {
			http.Redirect(w, req, fmt.Sprintf("/redir/%d/%s", n-1, parts[1]), http.StatusFound)
		}
		return
	}
	if p == "/loop" {
		http.Redirect(w, req, "/loop", http.StatusFound)
		return
	}
	if r == nil {
		http.NotFound(w, req)
		return
	}
	switch r.mode {
	case fOK, fRedirect, fGarbageTail:
		w.Header().Set("Content-Length", fmt.Sprint(len(r.body)))
		w.Write(r.body)
	case fEmpty:
		w.Header().Set("Content-Length", "0")
		w.WriteHeader(200)
	case f404:
		http.NotFound(w, req)
	case f500:
		http.Error(w, "boom", 500)
	case fTruncCL:
		// announce the full length, send half, kill the connection
		hj, ok := w.(http.Hijacker)
		if !ok {
			panic(http.ErrAbortHandler)
		}
		c, buf, err := hj.Hijack()
		if err != nil {
			return
		}
		half := len(r.body) / 2
		fmt.Fprintf(buf, "HTTP/1.1 200 OK\r\nContent-Type: application/octet-stream\r\nContent-Length: %d\r\n\r\n", len(r.body))
		buf.Write(r.body[:half])
		buf.Flush()
		if tc, ok := c.(*net.TCPConn); ok {
			tc.SetLinger(0)
		}
		c.Close()
	case fTruncChunk:
		half := len(r.body) / 2
		w.Header().Set("Transfer-Encoding", "chunked")
		w.WriteHeader(200)
		w.Write(r.body[:half])
		if f, ok := w.(http.Flusher); ok {
			f.Flush()
		}
		panic(http.ErrAbortHandler)
	case fOversize:
		total := r.oversizeTo
		if total <= int64(len(r.body)) {
			total = int64(len(r.body)) + 1
		}
		w.Header().Set("Content-Length", fmt.Sprint(total))
		w.Write(r.body)
		pad := make([]byte, 64*1024)
		left := total - int64(len(r.body))
		for left > 0 {
			n := int64(len(pad))
			if n > left {
				n = left
			}
			if _, err := w.Write(pad[:n]); err != nil {
				return
			}
			left -= n
		}
	case fSlowClose:
		// chunked body, complete, but the terminating chunk is delayed
		w.Header().Set("Transfer-Encoding", "chunked")
		w.WriteHeader(200)
		w.Write(r.body)
		if f, ok := w.(http.Flusher); ok {
			f.Flush()
		}
		time.Sleep(150 * time.Millisecond)
	}
}

// ---------------------------------------------------------------------------
// small helpers

func sha256hex(b []byte) string {
	s := sha256.Sum256(b)
	return hex.EncodeToString(s[:])
}

// digestDenotes reports whether the index digest string denotes exactly the
// sha-256 of b: optional "sha256:" prefix, 64 hex digits (either case).
func digestDenotes(decl string, b []byte) bool {
	d := strings.TrimPrefix(decl, "sha256:")
	raw, err := hex.DecodeString(d)
	if err != nil || len(raw) != 32 {
		return false
	}
	s := sha256.Sum256(b)
	return string(raw) == string(s[:])
}

func errCode(err error) string {
	if err == nil {
		return "ok"
	}
	if ce, ok := conduiterr.Get(err); ok && ce != nil {
		return ce.Code.String()
	}
	return "uncoded"
}

func cut(s string, n int) string {
	if len(s) > n {
		return s[:n] + "…"
	}
	return s
}
