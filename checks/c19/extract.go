package c19

import (
	"fmt"
	"math/rand"
	"os"
	"path/filepath"
	"sort"
	"strings"

	"verif/internal/vp"

	"github.com/conduitio/conduit/pkg/registry"
)

// Monitor A: extraction containment. ExtractBinary is handed generated
// hostile archives; the oracle is the file-tree monitor: nothing outside the
// extraction directory may be created, modified, deleted or linked, and no
// link left inside may refer outside.

const extractRel = "conn/.registry/staging"

// absolute paths hostile entries aim at outside any sandbox
var absTargets = []string{"/tmp/c19-abs-evil", "/etc/c19-evil"}

func typeGroup(typeClass string) string {
	switch typeClass {
	case "symlink", "symlink-then-write", "dir-then-symlink-swap":
		return "symlink"
	case "hardlink", "hardlink-then-write":
		return "hardlink"
	case "fifo", "char", "block":
		return "special"
	}
	return "entry-name"
}

type extractOutcome struct {
	refused bool
	err     string
	viols   []vp.Violation
	files   int64
}

// judgeExtract runs ExtractBinary on archive inside sb and judges the tree.
func judgeExtract(sb *sandbox, seq int, archive []byte, desc map[string]any, idx int, nameClass, typeClass string) extractOutcome {
	var out extractOutcome
	inst := filepath.Join(sb.Conn, ".registry", "staging", fmt.Sprintf("install-%d", seq))
	dest := filepath.Join(inst, "extracted")
	if err := os.MkdirAll(dest, 0o700); err != nil {
		out.err = "setup: " + err.Error()
		return out
	}
	defer func() {
		filepath.Walk(inst, func(p string, fi os.FileInfo, err error) error {
			if err == nil && fi.IsDir() {
				os.Chmod(p, 0o700)
			}
			return nil
		})
		os.RemoveAll(inst)
	}()
	arch := filepath.Join(inst, "artifact.tar.gz")
	if err := os.WriteFile(arch, archive, 0o600); err != nil {
		out.err = "setup: " + err.Error()
		return out
	}
	destRel, _ := filepath.Rel(sb.Root, dest)
	destRel = filepath.ToSlash(destRel)
	private := func(rel string) bool { return under(rel, destRel) }
	absBefore := map[string]bool{}
	for _, p := range absTargets {
		_, err := os.Lstat(p)
		absBefore[p] = err == nil
	}
	before := takeSnapshot(sb.Root, private)
	got, err := registry.ExtractBinary(arch, dest)
	after := takeSnapshot(sb.Root, private)
	out.files = int64(len(after.Nodes))
	out.refused = err != nil
	if err != nil {
		out.err = errCode(err)
	}
	changes := diffOutside(before, after, private, func(string) bool { return false })
	links := linksEscaping(after, private, dest)
	for _, p := range absTargets {
		if _, e := os.Lstat(p); e == nil && !absBefore[p] {
			changes = append(changes, change{Rel: p, Kind: "created", Note: "absolute path outside every sandbox"})
			os.Remove(p)
		}
	}
	mk := func(class, id, detail string, wit any) vp.Violation {
		c := map[string]any{"index": idx, "monitor": "A", "archive": desc, "extract_error": out.err}
		return vp.Violation{Property: "C19", Class: class, Identity: "C19/" + class + "/" + id, Detail: detail, Case: c, Witness: wit}
	}
	if len(changes) > 0 {
		out.viols = append(out.viols, mk("extract-escape", "ExtractBinary/"+changes[0].Kind+"-outside-via-"+typeGroup(typeClass),
			fmt.Sprintf("ExtractBinary changed %d path(s) outside its extraction directory (first: %s %s %s)", len(changes), changes[0].Kind, changes[0].Rel, changes[0].Note), changes))
	}
	if len(links) > 0 {
		out.viols = append(out.viols, mk("extract-escape", "ExtractBinary/link-to-outside-via-"+typeGroup(typeClass),
			fmt.Sprintf("ExtractBinary left %d link(s) inside the extraction directory that refer outside it (first: %s %s)", len(links), links[0].Rel, links[0].Note), links))
	}
	if err == nil {
		clean := filepath.Clean(got)
		if clean != dest && !strings.HasPrefix(clean, dest+string(filepath.Separator)) || clean == dest {
			out.viols = append(out.viols, mk("extract-escape", "ExtractBinary/returned-path-outside",
				"ExtractBinary returned a path that is not below its extraction directory: "+got, got))
		} else if fi, e := os.Lstat(got); e != nil || !fi.Mode().IsRegular() {
			out.viols = append(out.viols, mk("extract-escape", "ExtractBinary/returned-path-not-regular",
				fmt.Sprintf("ExtractBinary returned %q which is not a regular file (lstat: %v)", got, e), got))
		}
	}
	return out
}

func runExtractCase(seed int64, tier string, idx, k int) vp.CaseResult {
	r := rand.New(rand.NewSource(seed*1_000_000 + int64(idx)))
	res := vp.CaseResult{Stats: map[string]int64{}, Sets: map[string][]string{}}
	nameClass := nameClasses[k%len(nameClasses)]
	reps := 40
	if tier == "thorough" {
		reps = 120
	}
	sb, err := newSandbox("A")
	if err != nil {
		res.Inconclusive = "sandbox: " + err.Error()
		return res
	}
	defer sb.Close()
	g := &genCtx{r: r, decoyAbs: sb.Decoy, depth: 5}
	outcomes := map[string]bool{}
	pairs := map[string]bool{}
	// every type class at least once per case (deterministic rotation), the rest random
	for i := 0; i < reps; i++ {
		var tc string
		if i < len(typeClasses) {
			tc = typeClasses[(i+k)%len(typeClasses)]
		} else {
			tc = typeClasses[r.Intn(len(typeClasses))]
		}
		ents, o, desc := g.genArchive(nameClass, tc)
		archive := buildTarGz(ents, o)
		oc := judgeExtract(sb, i, archive, desc, idx, nameClass, tc)
		if strings.HasPrefix(oc.err, "setup:") {
			res.Inconclusive = oc.err
			return res
		}
		res.Stats["A_archives_tried"]++
		res.Stats["A_files_snapshotted"] += 2 * oc.files
		word := "extracted"
		if oc.refused {
			word = "refused"
			res.Stats["A_archives_refused"]++
			res.Sets["A_refusal_codes"] = appendUniq(res.Sets["A_refusal_codes"], oc.err)
		} else {
			res.Stats["A_archives_extracted"]++
		}
		res.Stats["A_"+word+"/type="+tc]++
		res.Stats["A_"+word+"/name="+nameClass]++
		outcomes[word] = true
		pairs[nameClass+"×"+tc+"→"+word] = true
		res.Violations = append(res.Violations, oc.viols...)
		if res.Sample == nil && i == 3 {
			res.Sample = map[string]any{"monitor": "A", "archive": desc, "outcome": word, "error": oc.err}
		}
		if len(res.Violations) > 3 {
			break
		}
	}
	for p := range pairs {
		res.Sets["A_feature_pairs"] = append(res.Sets["A_feature_pairs"], p)
	}
	var ocs []string
	for o := range outcomes {
		ocs = append(ocs, o)
	}
	sort.Strings(ocs)
	res.Sig = "A/extract/name=" + nameClass + "/" + strings.Join(ocs, "+")
	res.Nontrivial = res.Stats["A_archives_tried"] > 0
	return res
}

func appendUniq(s []string, v string) []string {
	for _, x := range s {
		if x == v {
			return s
		}
	}
	return append(s, v)
}

// runBombCase: sizes at and over the decompression cap (1 GiB) using PAX
// sparse entries, so that the archive itself stays tiny. variant 0: one
// entry of cap+1 logical bytes; 1: two entries summing to cap+1; 2: exactly
// the cap (thorough only).
func runBombCase(seed int64, tier string, idx, variant int) vp.CaseResult {
	res := vp.CaseResult{Stats: map[string]int64{}, Sets: map[string][]string{}}
	sb, err := newSandbox("Abomb")
	if err != nil {
		res.Inconclusive = "sandbox: " + err.Error()
		return res
	}
	defer sb.Close()
	const cap = int64(1) << 30
	sparse := func(name string, real int64) tent {
		return tent{Name: "GNUSparseFile.0/" + name, Type: '0', Data: []byte("tail"),
			Pax: map[string]string{"GNU.sparse.size": fmt.Sprint(real), "GNU.sparse.numblocks": "1", "GNU.sparse.map": fmt.Sprintf("%d,4", real-4), "GNU.sparse.name": name}}
	}
	var ents []tent
	label := ""
	switch variant {
	case 0:
		ents = []tent{sparse("bin", cap+1)}
		label = "one-entry-cap+1"
	case 1:
		ents = []tent{sparse("sub/a", cap/2), sparse("bin", cap/2+1)}
		label = "two-entries-sum-cap+1"
	default:
		ents = []tent{sparse("bin", cap)}
		label = "one-entry-exactly-cap"
	}
	desc := map[string]any{"name_class": "plain", "type_class": "pax-sparse-bomb", "variant": label, "entries": describeEnts(ents)}
	oc := judgeExtract(sb, 0, buildTarGz(ents, tarOpts{}), desc, idx, "plain", "pax-sparse-bomb")
	if strings.HasPrefix(oc.err, "setup:") {
		res.Inconclusive = oc.err
		return res
	}
	res.Stats["A_archives_tried"]++
	res.Stats["A_bomb_archives"]++
	res.Stats["A_files_snapshotted"] += 2 * oc.files
	word := "extracted"
	if oc.refused {
		word = "refused"
		res.Stats["A_archives_refused"]++
	} else {
		res.Stats["A_archives_extracted"]++
	}
	res.Stats["A_"+word+"/type=size-cap:"+label]++
	res.Violations = oc.viols
	res.Sig = "A/size-cap/" + label + "/" + word
	res.Nontrivial = true
	res.Sample = map[string]any{"monitor": "A", "archive": desc, "outcome": word, "error": oc.err}
	return res
}

// runHostileInstallCase pushes generated hostile archives through the full
// Install (digest matches, verifier accepts): whatever the archive contains,
// nothing outside <conn>/.registry and the final artifact path may change and
// whatever lands at the final path must be a regular file.
func runHostileInstallCase(seed int64, tier string, idx, k int) vp.CaseResult {
	r := rand.New(rand.NewSource(seed*1_000_000 + int64(idx)))
	res := vp.CaseResult{Stats: map[string]int64{}, Sets: map[string][]string{}}
	nameClass := nameClasses[k%len(nameClasses)]
	g := newGateRig(r)
	defer g.Close()
	reps := 6
	if tier == "thorough" {
		reps = 12
	}
	outcomes := map[string]bool{}
	for i := 0; i < reps; i++ {
		sb, err := newSandbox("AI")
		if err != nil {
			res.Inconclusive = "sandbox: " + err.Error()
			return res
		}
		gc := &genCtx{r: r, decoyAbs: sb.Decoy, depth: 5}
		tc := typeClasses[(k*reps+i*7+r.Intn(3))%len(typeClasses)]
		if tc == "big-file" {
			tc = "reg"
		}
		ents, o, desc := gc.genArchive(nameClass, tc)
		archive := buildTarGz(ents, o)
		absBefore := map[string]bool{}
		for _, p := range absTargets {
			_, e := os.Lstat(p)
			absBefore[p] = e == nil
		}
		sp := installSpec{archive: archive, declared: sha256hex(archive), declSize: int64(len(archive)), verifier: vAccept,
			policy: policyCtxs[0], fetch: "ok", pre: "fresh", indexVer: 7}
		cr := g.runInstall(sb, sp, desc, idx, true)
		for _, p := range absTargets {
			if _, e := os.Lstat(p); e == nil && !absBefore[p] {
				cr.viols = append(cr.viols, vp.Violation{Property: "C19", Class: "extract-escape", Identity: "C19/extract-escape/Install/created-absolute-path",
					Detail: "an install of a hostile archive created " + p, Case: map[string]any{"index": idx, "monitor": "A(install)", "archive": desc}})
				os.Remove(p)
			}
		}
		sb.Close()
		if cr.outcome == "setup-error" {
			res.Inconclusive = "setup: " + fmt.Sprint(cr.err)
			return res
		}
		res.Stats["A_archives_tried"]++
		res.Stats["A_archives_through_install"]++
		res.Stats["A_files_snapshotted"] += cr.files
		word := "refused"
		if cr.installed {
			word = "installed"
			res.Stats["A_archives_extracted"]++
		} else {
			res.Stats["A_archives_refused"]++
		}
		outcomes[word] = true
		res.Sets["A_feature_pairs"] = appendUniq(res.Sets["A_feature_pairs"], nameClass+"×"+tc+"→install-"+word)
		res.Violations = append(res.Violations, cr.viols...)
		if res.Sample == nil {
			res.Sample = map[string]any{"monitor": "A(install)", "archive": desc, "outcome": cr.outcome}
		}
	}
	var ocs []string
	for o := range outcomes {
		ocs = append(ocs, o)
	}
	sort.Strings(ocs)
	res.Sig = "A/install/name=" + nameClass + "/" + strings.Join(ocs, "+")
	res.Nontrivial = true
	return res
}
