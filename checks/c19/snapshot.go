package c19

import (
	"crypto/sha256"
	"encoding/hex"
	"fmt"
	"io"
	"os"
	"path/filepath"
	"sort"
	"strings"
	"syscall"
)

// node is what the tree monitor records about one path.
type node struct {
	Rel    string
	Type   string // reg dir symlink fifo char block sock other
	Size   int64
	Hash   string // regular files outside the private area
	Nlink  uint64
	Mode   uint32
	Ino    uint64
	Dev    uint64
	Target string // symlinks
	Mtime  int64
}

type snapshot struct {
	Root  string
	Nodes map[string]node
}

func typeOf(m os.FileMode) string {
	switch {
	case m.IsRegular():
		return "reg"
	case m.IsDir():
		return "dir"
	case m&os.ModeSymlink != 0:
		return "symlink"
	case m&os.ModeNamedPipe != 0:
		return "fifo"
	case m&os.ModeCharDevice != 0:
		return "char"
	case m&os.ModeDevice != 0:
		return "block"
	case m&os.ModeSocket != 0:
		return "sock"
	}
	return "other"
}

func hashFile(p string) string {
	f, err := os.Open(p)
	if err != nil {
		return "unreadable:" + err.Error()
	}
	defer f.Close()
	h := sha256.New()
	io.Copy(h, f)
	return hex.EncodeToString(h.Sum(nil))
}

// takeSnapshot walks root. Files below any of the private prefixes
// (relative, slash-separated) are recorded structurally only (no content
// hash: they may be huge and their content is not judged).
func takeSnapshot(root string, private func(rel string) bool) *snapshot {
	s := &snapshot{Root: root, Nodes: map[string]node{}}
	filepath.Walk(root, func(p string, fi os.FileInfo, err error) error {
		if err != nil {
			return nil
		}
		rel, _ := filepath.Rel(root, p)
		rel = filepath.ToSlash(rel)
		n := node{Rel: rel, Type: typeOf(fi.Mode()), Size: fi.Size(), Mode: uint32(fi.Mode().Perm()), Mtime: fi.ModTime().UnixNano()}
		if st, ok := fi.Sys().(*syscall.Stat_t); ok {
			n.Nlink = uint64(st.Nlink)
			n.Ino = st.Ino
			n.Dev = uint64(st.Dev)
		}
		if n.Type == "symlink" {
			n.Target, _ = os.Readlink(p)
		}
		if n.Type == "reg" && !private(rel) {
			n.Hash = hashFile(p)
		}
		if n.Type == "dir" {
			n.Size = 0
		}
		s.Nodes[rel] = n
		return nil
	})
	return s
}

type change struct {
	Rel  string `json:"path"`
	Kind string `json:"kind"` // created deleted modified linked
	Note string `json:"note,omitempty"`
}

// diffOutside lists the changes between two snapshots restricted to paths for
// which private(rel) is false. ignoreMtime lists directories whose mtime may
// legitimately change (their children inside the private area come and go).
func diffOutside(before, after *snapshot, private func(rel string) bool, ignoreDirMtime func(rel string) bool) []change {
	var out []change
	for rel, b := range before.Nodes {
		if private(rel) {
			continue
		}
		a, ok := after.Nodes[rel]
		if !ok {
			out = append(out, change{Rel: rel, Kind: "deleted", Note: b.Type})
			continue
		}
		var why []string
		if a.Type != b.Type {
			why = append(why, "type "+b.Type+"->"+a.Type)
		}
		if a.Type == "reg" && (a.Hash != b.Hash || a.Size != b.Size) {
			why = append(why, "content")
		}
		if a.Mode != b.Mode {
			why = append(why, fmt.Sprintf("mode %o->%o", b.Mode, a.Mode))
		}
		if a.Nlink != b.Nlink && a.Type != "dir" {
			why = append(why, fmt.Sprintf("nlink %d->%d", b.Nlink, a.Nlink))
		}
		if a.Target != b.Target {
			why = append(why, "symlink target")
		}
		if a.Ino != b.Ino {
			why = append(why, "replaced (inode)")
		}
		if a.Mtime != b.Mtime && !(a.Type == "dir" && ignoreDirMtime(rel)) {
			why = append(why, "mtime")
		}
		if a.Type == "dir" && a.Nlink != b.Nlink && !ignoreDirMtime(rel) {
			why = append(why, fmt.Sprintf("dir nlink %d->%d", b.Nlink, a.Nlink))
		}
		if len(why) > 0 {
			out = append(out, change{Rel: rel, Kind: "modified", Note: strings.Join(why, ",")})
		}
	}
	for rel, a := range after.Nodes {
		if private(rel) {
			continue
		}
		if _, ok := before.Nodes[rel]; !ok {
			out = append(out, change{Rel: rel, Kind: "created", Note: a.Type})
		}
	}
	sort.Slice(out, func(i, j int) bool { return out[i].Rel < out[j].Rel })
	return out
}

// linksEscaping reports links inside the private area that refer outside it:
// symlinks whose target resolves outside privRoot (absolute path), and
// regular files sharing an inode with a file outside.
func linksEscaping(after *snapshot, private func(rel string) bool, privRootAbs string) []change {
	var out []change
	outsideIno := map[[2]uint64]string{}
	for rel, n := range after.Nodes {
		if !private(rel) && n.Type != "dir" {
			outsideIno[[2]uint64{n.Dev, n.Ino}] = rel
		}
	}
	for rel, n := range after.Nodes {
		if !private(rel) {
			continue
		}
		abs := filepath.Join(after.Root, filepath.FromSlash(rel))
		switch n.Type {
		case "symlink":
			t := n.Target
			if !filepath.IsAbs(t) {
				t = filepath.Join(filepath.Dir(abs), t)
			}
			t = filepath.Clean(t)
			if r, err := filepath.EvalSymlinks(t); err == nil {
				t = r
			}
			if t != privRootAbs && !strings.HasPrefix(t, privRootAbs+string(filepath.Separator)) {
				out = append(out, change{Rel: rel, Kind: "linked", Note: "symlink -> " + n.Target})
			}
		default:
			if n.Type != "dir" && n.Nlink > 1 {
				if o, ok := outsideIno[[2]uint64{n.Dev, n.Ino}]; ok {
					out = append(out, change{Rel: rel, Kind: "linked", Note: "hardlink of " + o})
				}
			}
		}
	}
	sort.Slice(out, func(i, j int) bool { return out[i].Rel < out[j].Rel })
	return out
}

func under(rel, prefix string) bool {
	return rel == prefix || strings.HasPrefix(rel, prefix+"/")
}
