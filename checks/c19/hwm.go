package c19

import (
	"context"
	"fmt"
	"math/rand"
	"os"
	"path/filepath"
	"sort"
	"sync"
	"sync/atomic"
	"time"

	"verif/internal/vp"

	"github.com/anishathalye/porcupine"
	"github.com/conduitio/conduit/pkg/foundation/cerrors/conduiterr"
	"github.com/conduitio/conduit/pkg/registry"
	"github.com/conduitio/conduit/pkg/registry/index"
)

// Monitor C: the index rollback high-water mark under concurrency.

type hwmIn struct {
	V    int64
	Role string
	Via  string
}
type hwmOut struct {
	Accepted bool
	Code     string
}

type hwmOp struct {
	Client int    `json:"client"`
	V      int64  `json:"version"`
	Role   string `json:"role"`
	Via    string `json:"via"`
	Call   int64  `json:"call"`
	Ret    int64  `json:"ret"`
	Acc    bool   `json:"accepted"`
	Code   string `json:"code"`
}

type markObs struct {
	Start int64  `json:"start"`
	End   int64  `json:"end"`
	V     int64  `json:"mark"`
	Err   string `json:"err,omitempty"`
}

// lenient register model: exactly what the property states. accept(v) is
// only possible at a point where the recorded mark is <= v and makes the
// mark v; any refusal is always possible and changes nothing.
var hwmLenient = porcupine.Model{
	Init: func() interface{} { return int64(0) },
	Step: func(state, in, out interface{}) (bool, interface{}) {
		m := state.(int64)
		i, o := in.(hwmIn), out.(hwmOut)
		if o.Accepted {
			if i.V < m {
				return false, m
			}
			return true, i.V
		}
		return true, m
	},
	Equal: func(a, b interface{}) bool { return a.(int64) == b.(int64) },
}

// strict register model (informational only): additionally a rollback refusal
// must be justified by a larger mark.
var hwmStrict = porcupine.Model{
	Init: func() interface{} { return int64(0) },
	Step: func(state, in, out interface{}) (bool, interface{}) {
		m := state.(int64)
		i, o := in.(hwmIn), out.(hwmOut)
		if o.Accepted {
			if i.V < m {
				return false, m
			}
			return true, i.V
		}
		if o.Code == index.CodeIndexRollback.String() {
			return i.V < m, m
		}
		return true, m
	},
	Equal: func(a, b interface{}) bool { return a.(int64) == b.(int64) },
}

func runHWMCase(seed int64, tier string, idx, k int) vp.CaseResult {
	r := rand.New(rand.NewSource(seed*1_000_000 + int64(idx)))
	res := vp.CaseResult{Stats: map[string]int64{}, Sets: map[string][]string{}}
	sb, err := newSandbox("C")
	if err != nil {
		res.Inconclusive = "sandbox: " + err.Error()
		return res
	}
	defer sb.Close()
	kr := newKeyring(r)
	statePath := registry.IndexStatePath(sb.Conn)
	nVerifiers := 1 + r.Intn(3)
	var tvs []*registry.TrustedVerifier
	for i := 0; i < nVerifiers; i++ {
		tvs = append(tvs, &registry.TrustedVerifier{Anchors: kr.anchors(), StatePath: statePath, LockTimeout: 60 * time.Second})
	}
	G := 3 + r.Intn(6)
	M := 3 + r.Intn(5)
	maxV := int64(4 + r.Intn(12))
	mode := []string{"verify-only", "mixed-with-dryrun-install", "with-freshness-role"}[k%3]
	// a seeded previous mark in half of the histories
	initial := int64(0)
	if r.Intn(2) == 0 {
		initial = 1 + r.Int63n(maxV/2+1)
		raw, _ := kr.signEnvelope(buildPayload(artifactSpec{Name: connName, Version: connVersion, URL: "http://127.0.0.1:1/a", SHA256: sha256hex(nil), Size: 1, SigURL: "http://127.0.0.1:1/s", IndexVer: initial}), "root")
		if _, err := tvs[0].VerifyIndex(context.Background(), raw); err != nil {
			res.Inconclusive = "seeding the initial mark failed: " + err.Error()
			return res
		}
	}

	// pre-sign the envelopes (deterministic plan)
	type planned struct {
		in  hwmIn
		raw []byte
		tv  int
	}
	plans := make([][]planned, G)
	for g := 0; g < G; g++ {
		for m := 0; m < M; m++ {
			v := 1 + int64(m)*2 + r.Int63n(5) - 2 // roughly increasing in time: many near-equal concurrent versions
			if v < 1 {
				v = 1
			}
			if r.Intn(6) == 0 {
				v = 1 + r.Int63n(maxV)
			}
			role, via := "root", "VerifyIndex"
			if mode == "with-freshness-role" && r.Intn(3) == 0 {
				role = "freshness"
			}
			if mode == "mixed-with-dryrun-install" && r.Intn(2) == 0 {
				via = "Install(DryRun)"
			}
			raw, err := kr.signEnvelope(buildPayload(artifactSpec{Name: connName, Version: connVersion, URL: "http://127.0.0.1:1/a", SHA256: sha256hex(nil), Size: 1, SigURL: "http://127.0.0.1:1/s", IndexVer: v}), role)
			if err != nil {
				res.Inconclusive = "sign: " + err.Error()
				return res
			}
			plans[g] = append(plans[g], planned{in: hwmIn{V: v, Role: role, Via: via}, raw: raw, tv: r.Intn(nVerifiers)})
		}
	}

	var clock atomic.Int64
	var mu sync.Mutex
	var ops []hwmOp
	var wg sync.WaitGroup
	stop := make(chan struct{})
	var obs []markObs
	var owg sync.WaitGroup
	owg.Add(1)
	go func() { // observer: sequential reads of the recorded mark
		defer owg.Done()
		for {
			s := clock.Add(1)
			st, err := index.LoadState(statePath)
			e := clock.Add(1)
			o := markObs{Start: s, End: e, V: st.Version}
			if err != nil {
				o.Err = err.Error()
			}
			obs = append(obs, o)
			select {
			case <-stop:
				return
			default:
			}
			time.Sleep(200 * time.Microsecond)
		}
	}()
	for g := 0; g < G; g++ {
		wg.Add(1)
		go func(g int) {
			defer wg.Done()
			for i, p := range plans[g] {
				var err error
				call := clock.Add(1)
				if p.in.Via == "VerifyIndex" {
					_, err = tvs[p.tv].VerifyIndex(context.Background(), p.raw)
				} else {
					f := filepath.Join(sb.Root, fmt.Sprintf("index-%d-%d.json", g, i))
					os.WriteFile(f, p.raw, 0o644)
					_, err = registry.Install(context.Background(), registry.InstallOptions{
						Name: connName, ConnectorsPath: sb.Conn, IndexFile: f, IndexVerifier: tvs[p.tv],
						ArtifactVerifier: registry.FailClosedVerifier{}, DryRun: true, GOOS: "linux", GOArch: "amd64",
						RunningConduitVersion: "0.14.0", RunningProtocolVersion: "1.0.0",
					})
				}
				ret := clock.Add(1)
				o := hwmOp{Client: g, V: p.in.V, Role: p.in.Role, Via: p.in.Via, Call: call, Ret: ret, Acc: err == nil, Code: errCode(err)}
				mu.Lock()
				ops = append(ops, o)
				mu.Unlock()
			}
		}(g)
	}
	wg.Wait()
	close(stop)
	owg.Wait()
	final, ferr := index.LoadState(statePath)

	// ---- judge
	mk := func(class, id, detail string, wit any) vp.Violation {
		sort.Slice(ops, func(i, j int) bool { return ops[i].Call < ops[j].Call })
		c := map[string]any{"index": idx, "monitor": "C", "mode": mode, "goroutines": G, "ops_each": M, "verifier_instances": nVerifiers, "initial_mark": initial, "history": ops}
		return vp.Violation{Property: "C19", Class: class, Identity: "C19/" + class + "/" + id, Detail: detail, Case: c, Witness: wit}
	}
	res.Stats["C_hwm_histories"]++
	res.Stats["C_hwm_ops"] += int64(len(ops))
	res.Stats["C_mark_observations"] += int64(len(obs))
	maxAcc := initial
	var nAcc, nRollback, nOther int64
	for _, o := range ops {
		switch {
		case o.Acc:
			nAcc++
			if o.V > maxAcc {
				maxAcc = o.V
			}
		case o.Code == index.CodeIndexRollback.String():
			nRollback++
		default:
			nOther++
			res.Sets["C_other_refusal_codes"] = appendUniq(res.Sets["C_other_refusal_codes"], o.Code)
		}
	}
	res.Stats["C_accepted"] += nAcc
	res.Stats["C_refused_rollback"] += nRollback
	res.Stats["C_refused_other"] += nOther
	// (1) pairwise: nothing older than an already accepted (returned-before-call) version is accepted
	pairViol := false
	for _, a := range ops {
		if !a.Acc {
			continue
		}
		if a.V < initial {
			res.Violations = append(res.Violations, mk("rollback-accepted", "TrustedVerifier.VerifyIndex/below-persisted-mark",
				fmt.Sprintf("index version %d was accepted although the persisted mark was already %d before the history started", a.V, initial), a))
			pairViol = true
			break
		}
		for _, b := range ops {
			if b.Acc && b.Ret < a.Call && b.V > a.V {
				res.Violations = append(res.Violations, mk("rollback-accepted", "TrustedVerifier.VerifyIndex/older-than-previously-accepted",
					fmt.Sprintf("index version %d was accepted (call stamp %d) after version %d had been accepted (return stamp %d)", a.V, a.Call, b.V, b.Ret), []hwmOp{b, a}))
				pairViol = true
				break
			}
		}
		if pairViol {
			break
		}
	}
	// (2) observed marks never decrease and are never torn
	last := int64(-1)
	for _, o := range obs {
		if o.Err != "" {
			res.Violations = append(res.Violations, mk("index-state-torn", "index.LoadState/unreadable-during-concurrent-verify",
				"a concurrent reader could not parse index-state.json: "+o.Err, o))
			break
		}
		if o.V < last {
			res.Violations = append(res.Violations, mk("mark-decreased", "index-state/observed-decrease",
				fmt.Sprintf("the recorded high-water mark was observed going from %d down to %d", last, o.V), o))
			break
		}
		last = o.V
	}
	// an observation that started after accept(v) returned sees at least v
	for _, o := range obs {
		bad := false
		for _, a := range ops {
			if a.Acc && a.Ret < o.Start && o.V < a.V && o.Err == "" {
				res.Violations = append(res.Violations, mk("mark-decreased", "index-state/below-returned-accept",
					fmt.Sprintf("the recorded mark read %d after the acceptance of version %d had returned", o.V, a.V), map[string]any{"observation": o, "accept": a}))
				bad = true
				break
			}
		}
		if bad {
			break
		}
	}
	// (3) final mark
	if ferr != nil {
		res.Violations = append(res.Violations, mk("index-state-torn", "index.LoadState/unreadable-after-history", "index-state.json unreadable after the history: "+ferr.Error(), nil))
	} else if final.Version < maxAcc {
		res.Violations = append(res.Violations, mk("mark-decreased", "index-state/final-below-max-accepted",
			fmt.Sprintf("after all calls returned the recorded mark is %d, below the largest accepted version %d (lost update)", final.Version, maxAcc), final))
	}
	// (4) porcupine
	var hist []porcupine.Operation
	if initial > 0 {
		hist = append(hist, porcupine.Operation{ClientId: G, Input: hwmIn{V: initial}, Output: hwmOut{Accepted: true}, Call: -2, Return: -1})
	}
	for _, o := range ops {
		hist = append(hist, porcupine.Operation{ClientId: o.Client, Input: hwmIn{V: o.V, Role: o.Role, Via: o.Via}, Output: hwmOut{Accepted: o.Acc, Code: o.Code}, Call: o.Call, Return: o.Ret})
	}
	switch porcupine.CheckOperationsTimeout(hwmLenient, hist, 20*time.Second) {
	case porcupine.Ok:
		res.Stats["C_porcupine_lenient_ok"]++
	case porcupine.Illegal:
		res.Stats["C_porcupine_lenient_illegal"]++
		if !pairViol {
			res.Violations = append(res.Violations, mk("rollback-accepted", "TrustedVerifier.VerifyIndex/porcupine-register-model",
				"the history is not linearizable against the register model 'accept v only if v >= mark; mark := v'", nil))
		}
	default:
		res.Stats["C_porcupine_lenient_unknown"]++
	}
	switch porcupine.CheckOperationsTimeout(hwmStrict, hist, 20*time.Second) {
	case porcupine.Ok:
		res.Stats["C_porcupine_strict_ok(informational)"]++
	case porcupine.Illegal:
		res.Stats["C_porcupine_strict_illegal(informational)"]++
	default:
		res.Stats["C_porcupine_strict_unknown(informational)"]++
	}
	shape := "ups-only"
	if nRollback > 0 {
		shape = "with-rollback-refusals"
	}
	res.Sig = fmt.Sprintf("C/hwm/%s/verifiers=%d/seeded=%v/%s", mode, nVerifiers, initial > 0, shape)
	res.Nontrivial = nAcc > 0 && len(obs) > 1
	if nAcc == 0 {
		res.Inconclusive = "no index was accepted in this history"
	}
	sort.Slice(ops, func(i, j int) bool { return ops[i].Call < ops[j].Call })
	ex := ops
	if len(ex) > 6 {
		ex = ex[:6]
	}
	res.Sample = map[string]any{"monitor": "C", "mode": mode, "goroutines": G, "ops_each": M, "final_mark": final.Version, "max_accepted": maxAcc, "history_head": ex}
	_ = conduiterr.CodeInternal
	return res
}
