// Package c15 monitors property C15 — "importing a pipeline config converges to
// it, is idempotent, and fails atomically" — on the real pipeline / connector /
// processor / provisioning services of /repo wired as runtime.go createServices
// wires them, over faultdb(inmemory), with fake plugin services at the boundary.
package c15

import (
	"encoding/json"
	"errors"
	"fmt"
	"math/rand"
	"sort"
	"strings"
	"time"

	"github.com/conduitio/conduit/pkg/provisioning"
	"github.com/conduitio/conduit/pkg/provisioning/config"

	"verif/internal/faultdb"
	"verif/internal/vp"
)

type prop struct{}

func init() { vp.Register(&prop{}) }

func (prop) ID() string    { return "C15" }
func (prop) Level() string { return "fault_enumeration" }

func (prop) Rule() string {
	return "Per VERIF_SEED and pool number a pool of 40 valid configs of ONE pipeline id is generated (6 independent " +
		"draws from the grammar: 0-3 connectors source/destination, 0-5 processors on the pipeline and on each connector, " +
		"plugin/settings/workers/condition per processor, DLQ plugin/settings/window/threshold, name, description, status " +
		"stopped; every other member derived from an earlier one by 1-3 mutations: field edits, processor/connector " +
		"add/remove/reorder/rename, type flip, plugin change, condition and workers change); each is config.Enrich-ed and " +
		"must pass config.Validate. A case is ONE ordered pair (old,new) of the pool [thorough: all 1560 per pool and entry " +
		"point; quick: a seeded sample] or ONE chain of 3-6 pool members imported one after another from the empty state, " +
		"through one of two entry points (Service.Import = action rollback only; Service.Plan+ApplyPlan = " +
		"transactionalImport). Every checked import is judged by: (1) returns nil; (2) pipeline/connector/processor " +
		"instances read from the live services AND from fresh services Init-ed on a copy of the store equal the config " +
		"(ids, reference order, settings, plugin, name, workers, condition, parent, DLQ), nothing else of that pipeline is " +
		"stored and the bystander pipeline is untouched; (3) Plan(same config) is empty and a second import returns nil " +
		"and leaves every store byte and the services' view unchanged (the bookkeeping timestamps CreatedAt/UpdatedAt are " +
		"the only tolerated difference, counted in reimport_timestamp_only_changes); (5) every connector present before " +
		"and after with the same id and type has the same State in memory and in the store. (4) Then the number of store " +
		"operations of each kind (set/newtx/commit/get/getkeys) and of plugin-service calls the import performs is " +
		"measured and the same history is REPLAYED once per failing point: the k-th store op of that kind returns an " +
		"injected error / the k-th NewProcessor or NewDispenser call is refused (single fault). If the import then returns " +
		"an error, services' view, fresh-Init view and raw store documents (modulo CreatedAt/UpdatedAt) must equal the " +
		"state before; if it returns nil, clauses 2 and 5 must hold. A case is non-trivial when the plan of its import(s) " +
		"is non-empty and at least one failing point was replayed; its signature is the entry point plus the set of " +
		"distinct action kinds with changed config paths in the plan(s) (the diff class), so distinct_nontrivial counts " +
		"diff classes, not cases."
}

func (prop) Assumptions() []string {
	return []string{
		"conduit-commons database/inmemory implements database.DB faithfully (transactions via context, commit applies all writes or none)",
		"faultdb counts and fails store operations at the database.DB boundary only; a fault is a single returned error, the operation is not performed",
		"fake plugin services: every processor/connector plugin name exists; pipelines never ran (LastActiveConfig empty), so no plugin is dispensed on delete",
		"single writer: imports are sequential, as provisioning documents for the services",
		"CreatedAt/UpdatedAt are bookkeeping timestamps, not configuration; they are the only store content exempt from 'unchanged'",
		"a failing point is a single fault; the rollback's own store operations are not failed a second time",
	}
}

func (prop) CaseTimeout() time.Duration { return 5 * time.Minute }

// ---------------------------------------------------------------------------
// case list

type tierCfg struct {
	pools, pairs, chains int // pairs / chains per pool and entry point
}

const orderedPairs = poolSize * (poolSize - 1)

func tierOf(tier string) tierCfg {
	if tier == "thorough" {
		return tierCfg{pools: 6, pairs: orderedPairs, chains: 160}
	}
	return tierCfg{pools: 1, pairs: 400, chains: 40}
}

var entries = []string{entryImport, entryApplyPlan}

func (prop) NumCases(tier string) int {
	t := tierOf(tier)
	return t.pools * len(entries) * (t.pairs + t.chains)
}

type caseSpec struct {
	pool    int
	entry   string
	isChain bool
	k       int
}

func decode(tier string, idx int) caseSpec {
	t := tierOf(tier)
	block := len(entries) * (t.pairs + t.chains)
	s := caseSpec{pool: idx / block}
	rem := idx % block
	s.entry = entries[rem%len(entries)]
	s.k = rem / len(entries)
	if s.k >= t.pairs {
		s.isChain = true
		s.k -= t.pairs
	}
	return s
}

// ---------------------------------------------------------------------------
// one case

type caseRun struct {
	seed   int64
	idx    int
	entry  string
	byst   config.Pipeline
	stats  map[string]int64
	sets   map[string]map[string]bool
	viols  map[string]vp.Violation
	order  []string
	incon  string
	sample map[string]any
}

func (c *caseRun) set(name, v string) {
	m := c.sets[name]
	if m == nil {
		m = map[string]bool{}
		c.sets[name] = m
	}
	m[v] = true
}

func (c *caseRun) violate(class, identity, detail string, witness map[string]any) {
	c.stats["violations_observed"]++
	if _, ok := c.viols[identity]; ok {
		return
	}
	c.order = append(c.order, identity)
	c.viols[identity] = vp.Violation{
		Property: "C15", Class: class, Identity: identity, Detail: detail,
		Case:    map[string]any{"seed": c.seed, "index": c.idx, "entry": c.entry},
		Witness: witness,
	}
}

func (prop) RunCase(seed int64, tier string, idx int) vp.CaseResult {
	spec := decode(tier, idx)
	c := &caseRun{
		seed: seed, idx: idx, entry: spec.entry, byst: bystanderConfig(),
		stats: map[string]int64{}, sets: map[string]map[string]bool{}, viols: map[string]vp.Violation{},
	}
	pool, err := genPool(seed, spec.pool)
	if err != nil {
		return vp.CaseResult{Inconclusive: err.Error()}
	}
	var sig string
	var nontrivial bool
	if spec.isChain {
		sig, nontrivial = c.runChain(pool, spec)
	} else {
		sig, nontrivial = c.runPair(pool, spec)
	}
	res := vp.CaseResult{Sig: sig, Nontrivial: nontrivial, Inconclusive: c.incon, Stats: c.stats, Sample: c.sample}
	res.Sets = map[string][]string{}
	for k, m := range c.sets {
		for v := range m {
			res.Sets[k] = append(res.Sets[k], v)
		}
		sort.Strings(res.Sets[k])
	}
	for _, id := range c.order {
		res.Violations = append(res.Violations, c.viols[id])
	}
	return res
}

func (c *caseRun) runPair(pool []poolEntry, spec caseSpec) (string, bool) {
	perm := rand.New(rand.NewSource(c.seed*31 + int64(spec.pool)*17 + 5)).Perm(orderedPairs)
	p := perm[spec.k%orderedPairs]
	oi := p / (poolSize - 1)
	ni := p % (poolSize - 1)
	if ni >= oi {
		ni++
	}
	old, nw := pool[oi], pool[ni]
	c.stats["pairs"]++
	for _, m := range nw.mutations {
		c.set("mutations", m)
	}
	c.sample = map[string]any{
		"kind": "pair", "entry": c.entry, "pool": spec.pool, "old": oi, "new": ni,
		"old_shape": shape(old.cfg), "new_shape": shape(nw.cfg),
	}
	// step 0: import old into the empty state (oracles 1,2,3; no fault replay)
	s0 := c.checkStep(nil, old.cfg, false)
	if c.incon != "" {
		return "", false
	}
	_ = s0
	// step 1: old -> new with every failing point
	s1 := c.checkStep([]config.Pipeline{old.cfg}, nw.cfg, true)
	c.sample["plan"] = s1.class
	c.sample["failing_points"] = s1.points
	return c.entry + "|" + s1.class, s1.planned > 0 && s1.points > 0
}

func (c *caseRun) runChain(pool []poolEntry, spec caseSpec) (string, bool) {
	rng := rand.New(rand.NewSource(c.seed*1_000_000 + int64(c.idx)))
	n := 3 + rng.Intn(4)
	// children index for "follow a derivation edge"
	children := map[int][]int{}
	for i, e := range pool {
		if e.parent >= 0 {
			children[e.parent] = append(children[e.parent], i)
		}
	}
	cur := rng.Intn(len(pool))
	members := []int{cur}
	for len(members) < n {
		next := cur
		for tries := 0; next == cur && tries < 20; tries++ {
			if rng.Intn(2) == 0 {
				var rel []int
				if pool[cur].parent >= 0 {
					rel = append(rel, pool[cur].parent)
				}
				rel = append(rel, children[cur]...)
				if len(rel) > 0 {
					next = rel[rng.Intn(len(rel))]
					continue
				}
			}
			next = rng.Intn(len(pool))
		}
		members = append(members, next)
		cur = next
	}
	c.stats["chains"]++
	c.sample = map[string]any{"kind": "chain", "entry": c.entry, "pool": spec.pool, "members": members}
	var chain []config.Pipeline
	classes := map[string]bool{}
	nonEmpty, points := 0, 0
	for i, m := range members {
		for _, l := range pool[m].mutations {
			c.set("mutations", l)
		}
		s := c.checkStep(chain, pool[m].cfg, true)
		if c.incon != "" {
			return "", false
		}
		if s.planned > 0 {
			nonEmpty++
		}
		points += s.points
		if i > 0 {
			for _, k := range strings.Split(s.class, ",") {
				classes[k] = true
			}
		}
		chain = append(chain, pool[m].cfg)
	}
	c.stats["chain_steps"] += int64(len(members))
	ks := make([]string, 0, len(classes))
	for k := range classes {
		ks = append(ks, k)
	}
	sort.Strings(ks)
	c.sample["failing_points"] = points
	return fmt.Sprintf("%s|chain|%s", c.entry, strings.Join(ks, ",")), nonEmpty >= 2 && points > 0
}

// ---------------------------------------------------------------------------
// building a state by (silent) replay

func (c *caseRun) newRigWithBystander() (*rig, error) {
	r := newRig()
	if err := r.prov.Import(ctxBG, c.byst); err != nil {
		return nil, fmt.Errorf("bystander import: %w", err)
	}
	if err := r.ensureStates(bystanderID, 0); err != nil {
		return nil, err
	}
	return r, nil
}

// build replays prefix; a prefix import that fails (judged by the checked step
// that owns it) is replaced by a fresh rig holding that config.
func (c *caseRun) build(prefix []config.Pipeline) (*rig, error) {
	r, err := c.newRigWithBystander()
	if err != nil {
		return nil, err
	}
	for i, cfg := range prefix {
		c.stats["imports_executed"]++
		if err := r.doImport(c.entry, cfg); err != nil {
			c.stats["rig_rebuilds"]++
			if r, err = c.newRigWithBystander(); err != nil {
				return nil, err
			}
			c.stats["imports_executed"]++
			if err := r.doImport(c.entry, cfg); err != nil {
				return nil, fmt.Errorf("import of a prefix config into the empty state failed: %w", err)
			}
		}
		if err := r.ensureStates(pipelineID, i+1); err != nil {
			return nil, err
		}
	}
	r.drainRollbackFailures()
	return r, nil
}

// ---------------------------------------------------------------------------
// plan classification

func normPath(p string) string {
	if strings.HasPrefix(p, "settings.") {
		return "settings"
	}
	return p
}

func changeCode(ch provisioning.Change) string {
	code := strings.TrimPrefix(ch.Code, "provisioning.")
	if len(ch.ConfigPaths) == 0 {
		if ch.Action == provisioning.ChangeActionUpdate {
			return code + "[no-paths]"
		}
		return code
	}
	seen := map[string]bool{}
	var ps []string
	for _, p := range ch.ConfigPaths {
		p = normPath(p)
		if !seen[p] {
			seen[p] = true
			ps = append(ps, p)
		}
	}
	sort.Strings(ps)
	return code + "[" + strings.Join(ps, "+") + "]"
}

func planClass(d provisioning.Diff) string {
	if len(d.Changes) == 0 {
		return "empty"
	}
	seen := map[string]bool{}
	var cs []string
	for _, ch := range d.Changes {
		k := changeCode(ch)
		if !seen[k] {
			seen[k] = true
			cs = append(cs, k)
		}
	}
	sort.Strings(cs)
	return strings.Join(cs, ",")
}

// plannedAction names the action type(s) the plan holds for an entity
// ("processor/<id>"): "deleteConnectorAction+createConnectorAction", or
// "no-action-planned".
func plannedAction(d provisioning.Diff, entity string) string {
	i := strings.IndexByte(entity, '/')
	kind, id := entity[:i], entity[i+1:]
	var as []string
	for _, ch := range d.Changes {
		if string(ch.Resource) == kind && ch.ID == id {
			as = append(as, actionTypeName(string(ch.Action), kind))
		}
	}
	if len(as) == 0 {
		return "no-action-planned"
	}
	return strings.Join(as, "+")
}

// ---------------------------------------------------------------------------
// the checked step

type stepInfo struct {
	class   string
	planned int
	points  int
}

type faultPoint struct {
	Kind string `json:"kind"` // set|newtx|commit|get|getkeys|plugin-newprocessor|plugin-newdispenser
	N    int64  `json:"n"`
}

func cfgJSON(cfg *config.Pipeline) any {
	if cfg == nil {
		return nil
	}
	b, _ := json.Marshal(cfg)
	return json.RawMessage(b)
}

func trunc(ds []fieldDiff, n int) []fieldDiff {
	if len(ds) > n {
		return ds[:n]
	}
	return ds
}

func (c *caseRun) checkStep(prefix []config.Pipeline, next config.Pipeline, enumerate bool) stepInfo {
	var info stepInfo
	r, err := c.build(prefix)
	if err != nil {
		c.incon = err.Error()
		return info
	}
	var prev *config.Pipeline
	if len(prefix) > 0 {
		prev = &prefix[len(prefix)-1]
	}
	plan, err := r.prov.Plan(ctxBG, next)
	if err != nil {
		c.violate("plan-failed", "C15/plan-failed/"+normReason(err.Error()), "Plan of a valid config returned an error: "+squash(err.Error()),
			map[string]any{"prev": cfgJSON(prev), "next": cfgJSON(&next)})
		return info
	}
	info.class = planClass(plan)
	info.planned = len(plan.Changes)
	for _, ch := range plan.Changes {
		c.set("action_kinds", actionTypeName(string(ch.Action), string(ch.Resource)))
		c.set("diff_classes", changeCode(ch))
		for _, p := range ch.ConfigPaths {
			c.set("config_paths", string(ch.Resource)+"."+normPath(p))
		}
	}
	if prev == nil {
		c.set("from_state", "empty")
	} else {
		c.set("from_state", "imported")
	}
	base := func() map[string]any {
		return map[string]any{"entry": c.entry, "prev": cfgJSON(prev), "next": cfgJSON(&next), "plan": info.class}
	}

	// keys of the convergence / state findings of the fault-free run
	refKeys := map[string]bool{}

	before := r.capture()
	c0 := r.script.Counts()
	r.procPlugins.arm(0)
	r.connPlugins.arm(0)
	c.stats["imports_executed"]++
	ierr := r.doImport(c.entry, next)
	c1 := r.script.Counts()
	procCalls, connCalls := r.procPlugins.calls, r.connPlugins.calls
	rbFails, _ := r.drainRollbackFailures()
	after := r.capture()

	if ierr != nil {
		// clause 1
		c.stats["valid_import_failures"]++
		act, reason := splitActionError(ierr.Error())
		w := base()
		w["error"] = squash(ierr.Error())
		c.violate("import-valid-config-failed",
			"C15/import-valid-config-failed/"+act+"/"+reason,
			"importing a valid config from a previously imported state returned an error: "+squash(ierr.Error()), w)
		// the failure must at least be atomic (clause 4, no injected fault)
		c.judgeAtomic(before, after, plan, faultPoint{Kind: "no-fault"}, rbFails, ierr, base)
	} else {
		c.judgeConverged(after, next, plan, "", refKeys, base)
		c.judgeState(before, after, prev, next, plan, "", refKeys, base)
		c.judgeIdempotent(r, after, next, base)
	}

	if !enumerate {
		return info
	}
	var points []faultPoint
	for _, k := range []string{faultdb.OpSet, faultdb.OpNewTx, faultdb.OpCommit, faultdb.OpGet, faultdb.OpGetKeys} {
		for n := int64(1); n <= c1[k]-c0[k]; n++ {
			points = append(points, faultPoint{Kind: k, N: n})
		}
	}
	for n := int64(1); n <= procCalls; n++ {
		points = append(points, faultPoint{Kind: "plugin-newprocessor", N: n})
	}
	for n := int64(1); n <= connCalls; n++ {
		points = append(points, faultPoint{Kind: "plugin-newdispenser", N: n})
	}
	for _, fp := range points {
		c.faultRun(prefix, prev, next, plan, fp, refKeys, base)
		if c.incon != "" {
			return info
		}
	}
	info.points = len(points)
	return info
}

func (c *caseRun) faultRun(prefix []config.Pipeline, prev *config.Pipeline, next config.Pipeline, plan provisioning.Diff, fp faultPoint, refKeys map[string]bool, base func() map[string]any) {
	r, err := c.build(prefix)
	if err != nil {
		c.incon = err.Error()
		return
	}
	before := r.capture()
	var rule *faultdb.Rule
	r.procPlugins.arm(0)
	r.connPlugins.arm(0)
	switch fp.Kind {
	case "plugin-newprocessor":
		r.procPlugins.arm(fp.N)
	case "plugin-newdispenser":
		r.connPlugins.arm(fp.N)
	default:
		rule = r.script.Add(&faultdb.Rule{Kind: fp.Kind, Nth: fp.N, Dec: faultdb.Decision{Err: faultdb.ErrInjected}})
	}
	c.stats["imports_executed"]++
	ierr := r.doImport(c.entry, next)
	fired := r.procPlugins.refused+r.connPlugins.refused > 0
	if rule != nil {
		fired = rule.Fired > 0
		r.script.Clear()
	}
	r.procPlugins.arm(0)
	r.connPlugins.arm(0)
	rbFails, _ := r.drainRollbackFailures()
	after := r.capture()

	c.stats["failing_action_points"]++
	if !fired {
		c.stats["fault_not_reached"]++
		return
	}
	c.set("fault_kinds", fp.Kind)
	if rule != nil {
		c.stats["store_faults_injected"]++
	} else {
		c.stats["plugin_refusals_injected"]++
	}
	wbase := func() map[string]any {
		w := base()
		w["fault"] = fp
		return w
	}
	if ierr == nil {
		// the fault was absorbed: the import claims success, so it must have
		// converged; what the fault-free run already showed is not repeated
		c.stats["faults_absorbed"]++
		c.set("absorbed_fault_kinds", fp.Kind)
		c.judgeConverged(after, next, plan, "/after-absorbed-"+fp.Kind+"-fault", refKeys, wbase)
		c.judgeState(before, after, prev, next, plan, "/after-absorbed-"+fp.Kind+"-fault", refKeys, wbase)
		return
	}
	if !errors.Is(ierr, faultdb.ErrInjected) && !errors.Is(ierr, errPluginRefused) &&
		!strings.Contains(ierr.Error(), faultdb.ErrInjected.Error()) && !strings.Contains(ierr.Error(), errPluginRefused.Error()) {
		// The import failed for its own reasons BEFORE reaching this point (the
		// fault-free run failed too and was judged there); the fault landed in
		// the rollback. A second failure inside the rollback is outside the
		// single-fault quantifier: not judged.
		c.stats["fault_landed_in_rollback_not_judged"]++
		return
	}
	act, _ := splitActionError(ierr.Error())
	c.set("failing_action_kinds", act)
	c.judgeAtomic(before, after, plan, fp, rbFails, ierr, wbase)
}

func splitActionError(msg string) (action, reason string) {
	m := reExecuting.FindStringSubmatch(squash(msg))
	if m == nil {
		return "outside-actions", normReason(msg)
	}
	parts := strings.SplitN(m[1], " ", 2)
	return actionTypeName(parts[0], parts[1]), normReason(m[2])
}

// ---------------------------------------------------------------------------
// oracles

// inScope: everything stored belongs either to the pipeline under test or to
// the bystander; both are fully determined, so every entity is in scope.
func (c *caseRun) expected(next config.Pipeline) view {
	v := expectedView(next)
	for k, e := range expectedView(c.byst) {
		v[k] = e
	}
	return v
}

// clause 2
func (c *caseRun) judgeConverged(after capture, next config.Pipeline, plan provisioning.Diff, suffix string, refKeys map[string]bool, base func() map[string]any) {
	c.stats["converge_checks"]++
	want := c.expected(next)
	memD := diffViews(want, after.mem, true, nil)
	if after.freshErr != "" {
		w := base()
		w["error"] = after.freshErr
		c.violate("store-unloadable", "C15/not-converged/store-unloadable"+suffix, "fresh services could not Init on the store left by a successful import: "+after.freshErr, w)
		return
	}
	storeD := diffViews(want, after.fresh, true, nil)
	type agg struct {
		mem, store bool
		d          fieldDiff
	}
	by := map[string]*agg{}
	var order []string
	add := func(d fieldDiff, mem bool) {
		k := d.class() + "/" + plannedAction(plan, d.Entity)
		a := by[k]
		if a == nil {
			a = &agg{d: d}
			by[k] = a
			order = append(order, k)
		}
		if mem {
			a.mem = true
		} else {
			a.store = true
		}
	}
	for _, d := range memD {
		add(d, true)
	}
	for _, d := range storeD {
		add(d, false)
	}
	for _, k := range order {
		if suffix == "" {
			refKeys["conv:"+k] = true
		} else if refKeys["conv:"+k] {
			continue
		}
		a := by[k]
		where := "services and store"
		if !a.store {
			where = "services only (store has it right)"
		} else if !a.mem {
			where = "store / fresh-Init view only (services have it right)"
		}
		w := base()
		w["diff"] = a.d
		w["where"] = where
		w["all_diffs_services"] = trunc(memD, 8)
		w["all_diffs_store"] = trunc(storeD, 8)
		c.violate("not-converged", "C15/not-converged/"+k+suffix,
			fmt.Sprintf("after a successful import the stored %s differs from the config in %s: %s want %q got %q", a.d.Entity, where, a.d.Field, a.d.Want, a.d.Got), w)
	}
}

// clause 5
func (c *caseRun) judgeState(before, after capture, prev *config.Pipeline, next config.Pipeline, plan provisioning.Diff, suffix string, refKeys map[string]bool, base func() map[string]any) {
	if prev == nil {
		return
	}
	oldType := map[string]string{}
	for _, cn := range prev.Connectors {
		oldType[cn.ID] = cn.Type
	}
	for _, cn := range next.Connectors {
		if oldType[cn.ID] != cn.Type {
			continue
		}
		ent := "connector/" + cn.ID
		b, ok := before.mem[ent]
		if !ok {
			continue
		}
		c.stats["state_preservation_checks"]++
		for _, v := range []struct {
			name string
			vw   view
		}{{"services", after.mem}, {"store", after.fresh}} {
			a, ok := v.vw[ent]
			if !ok {
				continue // reported by the convergence oracle
			}
			if a["state"] != b["state"] {
				k := "state:" + plannedAction(plan, ent)
				if suffix == "" {
					refKeys[k] = true
				} else if refKeys[k] {
					continue
				}
				w := base()
				w["connector"] = cn.ID
				w["state_before"] = b["state"]
				w["state_after"] = a["state"]
				w["view"] = v.name
				c.violate("connector-state-not-kept", "C15/connector-state-not-kept/"+plannedAction(plan, ent)+suffix,
					fmt.Sprintf("connector %s exists before and after a successful import with the same id and type %s but its State changed in the %s view: %s -> %s", cn.ID, cn.Type, v.name, b["state"], a["state"]), w)
			}
		}
	}
}

// clause 3
func (c *caseRun) judgeIdempotent(r *rig, after capture, next config.Pipeline, base func() map[string]any) {
	c.stats["idempotence_checks"]++
	plan2, err := r.prov.Plan(ctxBG, next)
	if err != nil {
		c.violate("not-idempotent", "C15/not-idempotent/plan-failed/"+normReason(err.Error()), "Plan of the config just imported failed: "+squash(err.Error()), base())
	} else if !plan2.Empty() {
		seen := map[string]bool{}
		for _, ch := range plan2.Changes {
			k := strings.ReplaceAll(strings.ReplaceAll(changeCode(ch), ".", "-"), "[", "-")
			k = strings.TrimSuffix(k, "]")
			if seen[k] {
				continue
			}
			seen[k] = true
			w := base()
			w["plan_of_same_config"] = plan2.Changes
			c.violate("not-idempotent", "C15/not-idempotent/plan-nonempty/"+k,
				fmt.Sprintf("Plan of the config that was just imported successfully is not empty: %s %s %s %v", ch.Action, ch.Resource, ch.ID, ch.ConfigPaths), w)
		}
	}
	c.stats["imports_executed"]++
	err = r.doImport(c.entry, next)
	rbFails, _ := r.drainRollbackFailures()
	_ = rbFails
	if err != nil {
		act, reason := splitActionError(err.Error())
		w := base()
		w["error"] = squash(err.Error())
		c.violate("not-idempotent", "C15/not-idempotent/reimport-failed/"+act+"/"+reason, "importing the same config a second time returned an error: "+squash(err.Error()), w)
		return
	}
	after2 := r.capture()
	if !snapEqualBytes(after.snap, after2.snap) {
		raw, tsOnly := diffRaw(after.snap, after2.snap, true)
		if tsOnly {
			c.stats["reimport_timestamp_only_changes"]++
		}
		seen := map[string]bool{}
		for _, d := range raw {
			if seen[d.class()] {
				continue
			}
			seen[d.class()] = true
			w := base()
			w["diff"] = d
			c.violate("not-idempotent", "C15/not-idempotent/store-changed/"+d.class(),
				fmt.Sprintf("a second import of the same config changed the store document of %s: %s %s -> %s", d.Entity, d.Field, d.Want, d.Got), w)
		}
	}
	seen := map[string]bool{}
	for _, d := range diffViews(after.mem, after2.mem, false, nil) {
		if seen[d.class()] {
			continue
		}
		seen[d.class()] = true
		w := base()
		w["diff"] = d
		c.violate("not-idempotent", "C15/not-idempotent/services-changed/"+d.class(),
			fmt.Sprintf("a second import of the same config changed %s in the services: %s %q -> %q", d.Entity, d.Field, d.Want, d.Got), w)
	}
}

func lostOrChanged(d fieldDiff) string {
	switch d.Field {
	case "<missing>", "<unexpected>":
		return d.class()
	}
	switch d.Got {
	case "", "null", "[]", "{}":
		return d.class() + "-lost"
	}
	return d.class() + "-changed"
}

// clause 4
func (c *caseRun) judgeAtomic(before, after capture, plan provisioning.Diff, fp faultPoint, rbFails []rollbackFailure, ierr error, base func() map[string]any) {
	c.stats["atomicity_checks"]++
	memD := diffViews(before.mem, after.mem, false, nil)
	var storeD []fieldDiff
	if after.freshErr != "" {
		storeD = []fieldDiff{{Entity: "key/store", Field: "unloadable", Got: after.freshErr}}
	} else {
		storeD = diffViews(before.fresh, after.fresh, false, nil)
	}
	rawD, _ := diffRaw(before.snap, after.snap, true)
	if len(memD)+len(storeD)+len(rawD) == 0 {
		return
	}
	c.stats["atomicity_failures_observed"]++
	faultName := fp.Kind + "-fault"
	if strings.HasPrefix(fp.Kind, "plugin-") {
		faultName = fp.Kind + "-refused"
	}
	wit := func() map[string]any {
		w := base()
		w["import_error"] = squash(ierr.Error())
		w["diffs_services"] = trunc(memD, 8)
		w["diffs_store_fresh_init"] = trunc(storeD, 8)
		w["diffs_store_raw"] = trunc(rawD, 8)
		w["rollback_failures_logged"] = rbFails
		return w
	}
	// (a) failed commit: the store kept the old content, the services did not
	if fp.Kind == faultdb.OpCommit && len(storeD)+len(rawD) == 0 {
		c.violate("failed-import-not-atomic", "C15/failed-import-not-atomic/commit-fault/memory!=store",
			fmt.Sprintf("the transaction's Commit failed and the import returned an error; the store still holds the previous config but the services hold %d changed fields (first: %s %s %q -> %q)",
				len(memD), memD[0].Entity, memD[0].Field, memD[0].Want, memD[0].Got), wit())
		return
	}
	// (b) a rollback action itself failed: name it, the field diffs are its consequence
	if len(rbFails) > 0 {
		seen := map[string]bool{}
		for _, f := range rbFails {
			k := f.Action + "/" + f.Reason
			if seen[k] {
				continue
			}
			seen[k] = true
			c.violate("failed-import-not-atomic", "C15/failed-import-not-atomic/rollback-failed/"+k,
				fmt.Sprintf("after a failed import (%s) the rollback of %s failed (%s) and the previous state was not restored", faultName, f.Action, f.Reason), wit())
		}
		return
	}
	// (c) every rollback step reported success, yet something differs
	type agg struct {
		mem, store bool
		d          fieldDiff
	}
	by := map[string]*agg{}
	var order []string
	add := func(d fieldDiff, mem bool) {
		// the first action planned for the entity is the one whose rollback
		// runs last and decides what is left behind
		k := lostOrChanged(d) + "/" + strings.SplitN(plannedAction(plan, d.Entity), "+", 2)[0]
		a := by[k]
		if a == nil {
			a = &agg{d: d}
			by[k] = a
			order = append(order, k)
		}
		if mem {
			a.mem = true
		} else {
			a.store = true
		}
	}
	for _, d := range memD {
		add(d, true)
	}
	for _, d := range storeD {
		add(d, false)
	}
	if len(order) == 0 {
		for _, d := range rawD {
			add(fieldDiff{Entity: d.Entity, Field: "store-" + d.Field, Want: d.Want, Got: d.Got}, false)
		}
	}
	for _, k := range order {
		a := by[k]
		where := "services and store"
		if !a.store {
			where = "services only (the store kept the previous value: memory != store)"
		} else if !a.mem {
			where = "store only (the services kept the previous value: memory != store)"
		}
		w := wit()
		w["diff"] = a.d
		w["where"] = where
		c.violate("failed-import-not-atomic", "C15/failed-import-not-atomic/"+k,
			fmt.Sprintf("the import failed (%s #%d: %s) and every rollback step reported success, but %s %s differs from before in %s: %q -> %q",
				faultName, fp.N, trimTo(squash(ierr.Error()), 160), a.d.Entity, a.d.Field, where, a.d.Want, a.d.Got), w)
	}
}

func trimTo(s string, n int) string {
	if len(s) > n {
		return s[:n] + "..."
	}
	return s
}
