package c15

// Hand-written minimal reproductions of what the C15 monitor reports on the
// pinned tree. They never fail: each logs "PRESENT" or "absent" for one defect,
// so they document the finding and double as a quick probe after a fix:
//
//	. /verif/env.sh; cd /verif && go test -tags verif -count=1 -v -run Repro ./checks/c15/

import (
	"testing"

	"github.com/conduitio/conduit/pkg/provisioning/config"

	"verif/internal/faultdb"
)

func procs(ids ...string) []config.Processor {
	var out []config.Processor
	for _, id := range ids {
		out = append(out, config.Processor{ID: id, Plugin: "field.set"})
	}
	return out
}

func pipe(conns []config.Connector, ps []config.Processor) config.Pipeline {
	return config.Enrich(config.Pipeline{ID: "pl", Status: config.StatusStopped, Connectors: conns, Processors: ps})
}

func src(id string, ps ...string) config.Connector {
	return config.Connector{ID: id, Type: config.TypeSource, Plugin: "builtin:generator", Processors: procs(ps...)}
}

func report(t *testing.T, present bool, what string, args ...any) {
	t.Helper()
	if present {
		t.Logf("PRESENT: "+what, args...)
	} else {
		t.Logf("absent: "+what, args...)
	}
}

// (i) import_actions.go updateConnectorAction.update ranges over the live
// c.ProcessorIDs while RemoveProcessor shifts it.
func TestReproUpdateConnectorThreeProcessors(t *testing.T) {
	for _, entry := range entries {
		r := newRig()
		if err := r.doImport(entry, pipe([]config.Connector{src("c1", "pa", "pb", "pc")}, nil)); err != nil {
			t.Fatal(err)
		}
		err := r.doImport(entry, pipe([]config.Connector{src("c1", "pa", "pb")}, nil)) // drop the third processor
		report(t, err != nil, "%s: re-import of connector c1 [pa pb pc] -> [pa pb] fails: %v", entry, err)
	}
}

// (i') the same loop inside the ROLLBACK of a completed updateConnectorAction.
func TestReproRollbackOfUpdateConnectorThreeProcessors(t *testing.T) {
	r := newRig()
	if err := r.prov.Import(ctxBG, pipe([]config.Connector{src("c1", "pa")}, nil)); err != nil {
		t.Fatal(err)
	}
	before := r.capture()
	r.procPlugins.arm(1) // the first processor creation is refused, after the connector update ran
	err := r.prov.Import(ctxBG, pipe([]config.Connector{src("c1", "pa", "pb", "pc")}, nil))
	r.procPlugins.arm(0)
	fails, _ := r.drainRollbackFailures()
	after := r.capture()
	d := diffViews(before.mem, after.mem, false, nil)
	report(t, err != nil && len(fails) > 0 && len(d) > 0, "failed import (%v): rollback failures %v, state differs from before: %v", err, fails, d)
}

// (ii) export.go processorToConfig omits Condition; updateProcessorAction does not write it.
func TestReproProcessorCondition(t *testing.T) {
	mk := func(cond, plugin string) config.Pipeline {
		return pipe(nil, []config.Processor{{ID: "pa", Plugin: plugin, Condition: cond}})
	}
	r := newRig()
	if err := r.prov.Import(ctxBG, mk("true", "field.set")); err != nil {
		t.Fatal(err)
	}
	d, _ := r.prov.Plan(ctxBG, mk("true", "field.set"))
	report(t, !d.Empty(), "Plan of the config just imported has %d change(s): %+v", len(d.Changes), d.Changes)

	err := r.prov.Import(ctxBG, mk("false", "field.set")) // changed condition: an update is planned
	p, _ := r.proc.Get(ctxBG, "pl:pa")
	report(t, err == nil && p.Condition != "false", "import of condition \"false\" returned %v, stored condition is %q", err, p.Condition)

	err = r.prov.Import(ctxBG, mk("", "field.set")) // cleared condition: nothing is planned at all
	p, _ = r.proc.Get(ctxBG, "pl:pa")
	report(t, err == nil && p.Condition != "", "import of condition \"\" returned %v, stored condition is %q", err, p.Condition)
}

// (ii') the rollback of a processor delete re-creates it from the exported
// config, i.e. without its condition.
func TestReproConditionLostOnRollback(t *testing.T) {
	r := newRig()
	old := pipe(nil, []config.Processor{{ID: "pa", Plugin: "field.set", Condition: "true"}})
	if err := r.prov.Import(ctxBG, old); err != nil {
		t.Fatal(err)
	}
	r.procPlugins.arm(1) // creation of pb is refused after pa was deleted
	err := r.prov.Import(ctxBG, pipe(nil, procs("pb")))
	r.procPlugins.arm(0)
	p, gerr := r.proc.Get(ctxBG, "pl:pa")
	report(t, err != nil && gerr == nil && p.Condition != "true", "failed import (%v): processor pa restored with condition %q (was \"true\")", err, p.Condition)
}

// (iii) plan.go transactionalImport: a failed Commit leaves the services changed.
func TestReproFailedCommit(t *testing.T) {
	r := newRig()
	if err := r.doImport(entryApplyPlan, pipe(nil, procs("pa"))); err != nil {
		t.Fatal(err)
	}
	before := r.capture()
	r.script.Add(&faultdb.Rule{Kind: faultdb.OpCommit, Nth: 1, Dec: faultdb.Decision{Err: faultdb.ErrInjected}})
	next := pipe(nil, procs("pa"))
	next.Description = "changed"
	err := r.doImport(entryApplyPlan, next)
	r.script.Clear()
	after := r.capture()
	report(t, err != nil && len(diffViews(before.fresh, after.fresh, false, nil)) == 0 && len(diffViews(before.mem, after.mem, false, nil)) > 0,
		"ApplyPlan returned %v; store unchanged, services differ from before: %v", err, diffViews(before.mem, after.mem, false, nil))
}

// (iv) the rollback of a connector delete re-creates the connector without its State.
func TestReproConnectorStateLostOnRollback(t *testing.T) {
	for _, entry := range entries {
		r := newRig()
		if err := r.doImport(entry, pipe([]config.Connector{src("c1")}, nil)); err != nil {
			t.Fatal(err)
		}
		if err := r.ensureStates("pl", 1); err != nil {
			t.Fatal(err)
		}
		before := r.capture()
		r.procPlugins.arm(1) // c1 is deleted first, then the creation of processor pa is refused
		err := r.doImport(entry, pipe(nil, procs("pa")))
		r.procPlugins.arm(0)
		after := r.capture()
		report(t, err != nil && after.mem["connector/pl:c1"]["state"] != before.mem["connector/pl:c1"]["state"],
			"%s: failed import (%v): connector c1 state %s -> %s (store view: %s)", entry, err,
			before.mem["connector/pl:c1"]["state"], after.mem["connector/pl:c1"]["state"], after.fresh["connector/pl:c1"]["state"])
	}
}
