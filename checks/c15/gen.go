package c15

import (
	"fmt"
	"math/rand"
	"sort"
	"strings"

	"github.com/conduitio/conduit/pkg/provisioning/config"
)

// The grammar draws every id / plugin / setting from small alphabets so that two
// independently generated configs still share most ids: the diff between any
// two pool members is then a mix of updates, renames, reorders, creates and
// deletes rather than "delete everything, create everything".

const (
	pipelineID  = "pl"
	bystanderID = "by"
	maxConns    = 3
	maxProcs    = 5
)

var (
	connIDs      = []string{"c1", "c2", "c3", "c4", "c-5"}
	procIDs      = []string{"pa", "pb", "pc", "pd", "pe", "pf", "p.g", "p_h"}
	connPlugins  = []string{"builtin:generator", "builtin:file", "builtin:log", "standalone:chaos"}
	procPlugins  = []string{"field.set", "field.exclude", "custom.javascript", "standalone:proc"}
	names        = []string{"", "n-one", "n two", "N3"}
	descriptions = []string{"", "first description", "second\ndescription"}
	connNames    = []string{"", "conn-a", "conn b"}
	settingKeys  = []string{"k1", "k2", "k3", "path"}
	settingVals  = []string{"", "v1", "v2", "/tmp/x"}
	conditions   = []string{"", `{{ eq .Metadata.key "v" }}`, `true`, `{{ .Payload.After }}`}
	workersVals  = []int{0, 1, 2, 4}
	dlqPlugins   = []string{"", "builtin:log", "builtin:file", "standalone:dlq"}
)

func pick[T any](rng *rand.Rand, xs []T) T { return xs[rng.Intn(len(xs))] }

func genSettings(rng *rand.Rand) map[string]string {
	if rng.Intn(4) == 0 {
		return nil
	}
	n := rng.Intn(4)
	m := make(map[string]string, n)
	for i := 0; i < n; i++ {
		m[pick(rng, settingKeys)] = pick(rng, settingVals)
	}
	return m
}

func genProcessor(rng *rand.Rand, id string) config.Processor {
	return config.Processor{
		ID:        id,
		Plugin:    pick(rng, procPlugins),
		Settings:  genSettings(rng),
		Workers:   pick(rng, workersVals),
		Condition: pick(rng, conditions),
	}
}

func genProcessors(rng *rand.Rand) []config.Processor {
	// 0..5, biased towards >= 3
	n := []int{0, 1, 2, 3, 3, 4, 4, 5}[rng.Intn(8)]
	if n == 0 {
		return nil
	}
	perm := rng.Perm(len(procIDs))[:n]
	out := make([]config.Processor, n)
	for i, k := range perm {
		out[i] = genProcessor(rng, procIDs[k])
	}
	return out
}

func genConnector(rng *rand.Rand, id string) config.Connector {
	return config.Connector{
		ID:         id,
		Type:       pick(rng, []string{config.TypeSource, config.TypeDestination}),
		Plugin:     pick(rng, connPlugins),
		Name:       pick(rng, connNames),
		Settings:   genSettings(rng),
		Processors: genProcessors(rng),
	}
}

func intp(i int) *int { return &i }

func genDLQ(rng *rand.Rand) config.DLQ {
	d := config.DLQ{Plugin: pick(rng, dlqPlugins)}
	if rng.Intn(2) == 0 {
		d.Settings = genSettings(rng)
	}
	switch rng.Intn(4) {
	case 0: // all defaults (window 1, threshold 0)
	case 1: // window disabled
		d.WindowSize = intp(0)
		if rng.Intn(2) == 0 {
			d.WindowNackThreshold = intp(rng.Intn(4))
		}
	default:
		w := 1 + rng.Intn(5)
		d.WindowSize = intp(w)
		d.WindowNackThreshold = intp(rng.Intn(w))
	}
	return d
}

// genConfig generates a raw (not yet enriched) config.
func genConfig(rng *rand.Rand) config.Pipeline {
	cfg := config.Pipeline{
		ID:          pipelineID,
		Status:      config.StatusStopped,
		Name:        pick(rng, names),
		Description: pick(rng, descriptions),
		DLQ:         genDLQ(rng),
		Processors:  genProcessors(rng),
	}
	n := rng.Intn(maxConns + 1)
	perm := rng.Perm(len(connIDs))[:n]
	for _, k := range perm {
		cfg.Connectors = append(cfg.Connectors, genConnector(rng, connIDs[k]))
	}
	return cfg
}

// ---------------------------------------------------------------------------
// deep copy

func cloneSettings(m map[string]string) map[string]string {
	if m == nil {
		return nil
	}
	o := make(map[string]string, len(m))
	for k, v := range m {
		o[k] = v
	}
	return o
}

func cloneProcs(ps []config.Processor) []config.Processor {
	if ps == nil {
		return nil
	}
	o := make([]config.Processor, len(ps))
	for i, p := range ps {
		p.Settings = cloneSettings(p.Settings)
		o[i] = p
	}
	return o
}

func cloneConfig(c config.Pipeline) config.Pipeline {
	o := c
	o.DLQ.Settings = cloneSettings(c.DLQ.Settings)
	if c.DLQ.WindowSize != nil {
		o.DLQ.WindowSize = intp(*c.DLQ.WindowSize)
	}
	if c.DLQ.WindowNackThreshold != nil {
		o.DLQ.WindowNackThreshold = intp(*c.DLQ.WindowNackThreshold)
	}
	o.Processors = cloneProcs(c.Processors)
	if c.Connectors != nil {
		o.Connectors = make([]config.Connector, len(c.Connectors))
		for i, cn := range c.Connectors {
			cn.Settings = cloneSettings(cn.Settings)
			cn.Processors = cloneProcs(cn.Processors)
			o.Connectors[i] = cn
		}
	}
	return o
}

// ---------------------------------------------------------------------------
// mutations old -> new (on raw configs)

func freeID(rng *rand.Rand, pool []string, used func(string) bool) (string, bool) {
	for _, k := range rng.Perm(len(pool)) {
		if !used(pool[k]) {
			return pool[k], true
		}
	}
	return "", false
}

func mutateSettings(rng *rand.Rand, m map[string]string) map[string]string {
	m = cloneSettings(m)
	if m == nil {
		m = map[string]string{}
	}
	switch rng.Intn(3) {
	case 0:
		m[pick(rng, settingKeys)] = pick(rng, settingVals)
	case 1:
		ks := sortedKeys(m)
		if len(ks) > 0 {
			delete(m, ks[rng.Intn(len(ks))])
		} else {
			m[pick(rng, settingKeys)] = pick(rng, settingVals)
		}
	case 2:
		ks := sortedKeys(m)
		if len(ks) > 0 {
			k := ks[rng.Intn(len(ks))]
			m[k] = m[k] + "x"
		} else {
			m[pick(rng, settingKeys)] = "new"
		}
	}
	return m
}

func sortedKeys(m map[string]string) []string {
	ks := make([]string, 0, len(m))
	for k := range m {
		ks = append(ks, k)
	}
	sort.Strings(ks)
	return ks
}

// mutateProcs applies one processor-list mutation; returns its label ("" = not applicable).
func mutateProcs(rng *rand.Rand, ps *[]config.Processor) string {
	l := *ps
	used := func(id string) bool {
		for _, p := range l {
			if p.ID == id {
				return true
			}
		}
		return false
	}
	switch rng.Intn(11) {
	case 0: // add (anywhere)
		if len(l) >= maxProcs {
			return ""
		}
		id, ok := freeID(rng, procIDs, used)
		if !ok {
			return ""
		}
		at := rng.Intn(len(l) + 1)
		n := append([]config.Processor{}, l[:at]...)
		n = append(n, genProcessor(rng, id))
		n = append(n, l[at:]...)
		*ps = n
		return "proc-add"
	case 1: // remove
		if len(l) == 0 {
			return ""
		}
		at := rng.Intn(len(l))
		n := append([]config.Processor{}, l[:at]...)
		n = append(n, l[at+1:]...)
		*ps = n
		return "proc-remove"
	case 2: // swap two
		if len(l) < 2 {
			return ""
		}
		i := rng.Intn(len(l))
		j := (i + 1 + rng.Intn(len(l)-1)) % len(l)
		l[i], l[j] = l[j], l[i]
		return "proc-reorder"
	case 3: // reverse / rotate
		if len(l) < 3 {
			return ""
		}
		if rng.Intn(2) == 0 {
			for i, j := 0, len(l)-1; i < j; i, j = i+1, j-1 {
				l[i], l[j] = l[j], l[i]
			}
		} else {
			first := l[0]
			copy(l, l[1:])
			l[len(l)-1] = first
		}
		return "proc-reorder"
	case 4: // rename id
		if len(l) == 0 {
			return ""
		}
		id, ok := freeID(rng, procIDs, used)
		if !ok {
			return ""
		}
		l[rng.Intn(len(l))].ID = id
		return "proc-rename"
	case 5:
		if len(l) == 0 {
			return ""
		}
		p := &l[rng.Intn(len(l))]
		old := p.Plugin
		for p.Plugin == old {
			p.Plugin = pick(rng, procPlugins)
		}
		return "proc-plugin"
	case 6:
		if len(l) == 0 {
			return ""
		}
		p := &l[rng.Intn(len(l))]
		p.Settings = mutateSettings(rng, p.Settings)
		return "proc-settings"
	case 7:
		if len(l) == 0 {
			return ""
		}
		p := &l[rng.Intn(len(l))]
		old := p.Workers
		for p.Workers == old {
			p.Workers = pick(rng, workersVals)
		}
		return "proc-workers"
	case 8, 9:
		if len(l) == 0 {
			return ""
		}
		p := &l[rng.Intn(len(l))]
		old := p.Condition
		for p.Condition == old {
			p.Condition = pick(rng, conditions)
		}
		return "proc-condition"
	case 10: // rename + reorder (the shape of the known failure)
		if len(l) < 2 {
			return ""
		}
		id, ok := freeID(rng, procIDs, used)
		if !ok {
			return ""
		}
		l[rng.Intn(len(l))].ID = id
		l[0], l[len(l)-1] = l[len(l)-1], l[0]
		return "proc-rename+reorder"
	}
	return ""
}

// mutate applies one random applicable mutation and returns its label.
func mutate(rng *rand.Rand, cfg *config.Pipeline) string {
	for tries := 0; tries < 50; tries++ {
		usedConn := func(id string) bool {
			for _, c := range cfg.Connectors {
				if c.ID == id {
					return true
				}
			}
			return false
		}
		switch rng.Intn(16) {
		case 0:
			old := cfg.Name
			for cfg.Name == old {
				cfg.Name = pick(rng, names)
			}
			return "pipeline-name"
		case 1:
			old := cfg.Description
			for cfg.Description == old {
				cfg.Description = pick(rng, descriptions)
			}
			return "pipeline-description"
		case 2:
			cfg.DLQ = genDLQ(rng)
			return "dlq"
		case 3:
			cfg.DLQ.Settings = mutateSettings(rng, cfg.DLQ.Settings)
			return "dlq-settings"
		case 4, 5:
			if l := mutateProcs(rng, &cfg.Processors); l != "" {
				return "pipeline-" + l
			}
		case 6, 7, 8:
			if len(cfg.Connectors) == 0 {
				continue
			}
			c := &cfg.Connectors[rng.Intn(len(cfg.Connectors))]
			if l := mutateProcs(rng, &c.Processors); l != "" {
				return "connector-" + l
			}
		case 9: // add connector
			if len(cfg.Connectors) >= maxConns {
				continue
			}
			id, ok := freeID(rng, connIDs, usedConn)
			if !ok {
				continue
			}
			at := rng.Intn(len(cfg.Connectors) + 1)
			n := append([]config.Connector{}, cfg.Connectors[:at]...)
			n = append(n, genConnector(rng, id))
			n = append(n, cfg.Connectors[at:]...)
			cfg.Connectors = n
			return "connector-add"
		case 10: // remove connector
			if len(cfg.Connectors) == 0 {
				continue
			}
			at := rng.Intn(len(cfg.Connectors))
			n := append([]config.Connector{}, cfg.Connectors[:at]...)
			n = append(n, cfg.Connectors[at+1:]...)
			cfg.Connectors = n
			return "connector-remove"
		case 11: // reorder connectors
			if len(cfg.Connectors) < 2 {
				continue
			}
			i := rng.Intn(len(cfg.Connectors))
			j := (i + 1 + rng.Intn(len(cfg.Connectors)-1)) % len(cfg.Connectors)
			cfg.Connectors[i], cfg.Connectors[j] = cfg.Connectors[j], cfg.Connectors[i]
			return "connector-reorder"
		case 12: // rename connector id
			if len(cfg.Connectors) == 0 {
				continue
			}
			id, ok := freeID(rng, connIDs, usedConn)
			if !ok {
				continue
			}
			cfg.Connectors[rng.Intn(len(cfg.Connectors))].ID = id
			return "connector-rename"
		case 13: // flip type (immutable field: delete + create)
			if len(cfg.Connectors) == 0 {
				continue
			}
			c := &cfg.Connectors[rng.Intn(len(cfg.Connectors))]
			if c.Type == config.TypeSource {
				c.Type = config.TypeDestination
			} else {
				c.Type = config.TypeSource
			}
			return "connector-type-flip"
		case 14: // plugin
			if len(cfg.Connectors) == 0 {
				continue
			}
			c := &cfg.Connectors[rng.Intn(len(cfg.Connectors))]
			old := c.Plugin
			for c.Plugin == old {
				c.Plugin = pick(rng, connPlugins)
			}
			return "connector-plugin"
		case 15: // settings / name
			if len(cfg.Connectors) == 0 {
				continue
			}
			c := &cfg.Connectors[rng.Intn(len(cfg.Connectors))]
			if rng.Intn(3) == 0 {
				old := c.Name
				for c.Name == old {
					c.Name = pick(rng, connNames)
				}
				return "connector-name"
			}
			c.Settings = mutateSettings(rng, c.Settings)
			return "connector-settings"
		}
	}
	return "none"
}

// ---------------------------------------------------------------------------
// pool

const poolSize = 40

type poolEntry struct {
	raw       config.Pipeline // as generated
	cfg       config.Pipeline // Enrich-ed, Validate-d
	mutations []string        // labels of the mutations that derived it ("" for a base)
	parent    int             // pool index it was derived from, -1 for a base
}

// genPool builds the pool of a (seed, pool number): a few independent bases,
// every other member derived from an earlier member by 1..3 mutations.
func genPool(seed int64, poolNo int) ([]poolEntry, error) {
	rng := rand.New(rand.NewSource(seed*1_000_003 + int64(poolNo)*7919 + 15))
	pool := make([]poolEntry, 0, poolSize)
	for len(pool) < poolSize {
		var e poolEntry
		if len(pool) < 6 {
			e = poolEntry{raw: genConfig(rng), parent: -1}
		} else {
			par := rng.Intn(len(pool))
			raw := cloneConfig(pool[par].raw)
			n := 1 + rng.Intn(3)
			var labels []string
			for i := 0; i < n; i++ {
				labels = append(labels, mutate(rng, &raw))
			}
			e = poolEntry{raw: raw, parent: par, mutations: labels}
		}
		e.raw = canonical(e.raw)
		e.cfg = config.Enrich(cloneConfig(e.raw))
		if err := config.Validate(e.cfg); err != nil {
			return nil, fmt.Errorf("generated config does not validate: %w", err)
		}
		pool = append(pool, e)
	}
	return pool, nil
}

// canonical brings a raw config into the form the repo's own YAML front end
// (config/yaml/v2 model.go ToConfig) delivers: an empty list or settings map is
// nil, never an empty non-nil value.
func canonical(c config.Pipeline) config.Pipeline {
	canonProcs := func(ps []config.Processor) []config.Processor {
		if len(ps) == 0 {
			return nil
		}
		for i := range ps {
			if len(ps[i].Settings) == 0 {
				ps[i].Settings = nil
			}
		}
		return ps
	}
	c.Processors = canonProcs(c.Processors)
	if len(c.Connectors) == 0 {
		c.Connectors = nil
	}
	for i := range c.Connectors {
		if len(c.Connectors[i].Settings) == 0 {
			c.Connectors[i].Settings = nil
		}
		c.Connectors[i].Processors = canonProcs(c.Connectors[i].Processors)
	}
	if len(c.DLQ.Settings) == 0 {
		c.DLQ.Settings = nil
	}
	return c
}

// bystanderConfig is a second pipeline living in the same store; no import of
// the pipeline under test may touch it.
func bystanderConfig() config.Pipeline {
	return config.Enrich(config.Pipeline{
		ID:     bystanderID,
		Status: config.StatusStopped,
		Name:   "bystander",
		Connectors: []config.Connector{{
			ID: "c1", Type: config.TypeSource, Plugin: "builtin:generator",
			Settings:   map[string]string{"k1": "v1"},
			Processors: []config.Processor{{ID: "pa", Plugin: "field.set", Condition: "true"}},
		}},
		Processors: []config.Processor{{ID: "pa", Plugin: "field.set", Workers: 2}},
	})
}

// shape summarises a config for samples / witnesses.
func shape(cfg config.Pipeline) string {
	var b strings.Builder
	fmt.Fprintf(&b, "procs=%d", len(cfg.Processors))
	for _, c := range cfg.Connectors {
		fmt.Fprintf(&b, " %s(%s,procs=%d)", strings.TrimPrefix(c.ID, cfg.ID+":"), c.Type[:3], len(c.Processors))
	}
	return b.String()
}
