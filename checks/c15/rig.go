package c15

import (
	"bytes"
	"context"
	"encoding/json"
	"errors"
	"fmt"
	"regexp"
	"sort"
	"strings"
	"sync"

	"github.com/conduitio/conduit-commons/database/inmemory"
	"github.com/conduitio/conduit-commons/opencdc"
	sdk "github.com/conduitio/conduit-processor-sdk"
	"github.com/conduitio/conduit/pkg/connector"
	"github.com/conduitio/conduit/pkg/foundation/log"
	"github.com/conduitio/conduit/pkg/pipeline"
	connectorPlugin "github.com/conduitio/conduit/pkg/plugin/connector"
	"github.com/conduitio/conduit/pkg/plugin/processor/egress"
	"github.com/conduitio/conduit/pkg/processor"
	"github.com/conduitio/conduit/pkg/provisioning"
	"github.com/conduitio/conduit/pkg/provisioning/config"
	"github.com/rs/zerolog"

	"verif/internal/faultdb"
)

// ---------------------------------------------------------------------------
// fakes at the plugin boundary

var errPluginRefused = errors.New("c15: plugin service refuses this plugin")

// fakeProcPlugins is the processor.PluginService: every plugin name exists and
// yields a trivial sdk.Processor, except that the refuseNth-th NewProcessor
// call (1-based, counted since arm) is refused.
type fakeProcPlugins struct {
	mu        sync.Mutex
	calls     int64
	refuseNth int64
	refused   int64
}

type nopProcessor struct{ sdk.UnimplementedProcessor }

func (nopProcessor) Specification() (sdk.Specification, error) {
	return sdk.Specification{Name: "c15-nop", Version: "v0"}, nil
}
func (nopProcessor) Teardown(context.Context) error { return nil }

func (f *fakeProcPlugins) NewProcessor(_ context.Context, _ string, _ string, _ egress.Policy) (sdk.Processor, error) {
	f.mu.Lock()
	defer f.mu.Unlock()
	f.calls++
	if f.refuseNth > 0 && f.calls == f.refuseNth {
		f.refused++
		return nil, errPluginRefused
	}
	return nopProcessor{}, nil
}

func (f *fakeProcPlugins) arm(nth int64) {
	f.mu.Lock()
	f.calls, f.refuseNth, f.refused = 0, nth, 0
	f.mu.Unlock()
}

// fakeConnPlugins is provisioning.ConnectorPluginService (and the
// connector.PluginDispenserFetcher handed to connector.Service.Delete). The
// pipelines of C15 never ran, so no plugin is ever dispensed from it.
type fakeConnPlugins struct {
	mu        sync.Mutex
	calls     int64
	refuseNth int64
	refused   int64
}

type nopDispenser struct{}

func (nopDispenser) DispenseSpecifier() (connectorPlugin.SpecifierPlugin, error) {
	return nil, errors.New("c15: nothing to dispense")
}
func (nopDispenser) DispenseSource() (connectorPlugin.SourcePlugin, error) {
	return nil, errors.New("c15: nothing to dispense")
}
func (nopDispenser) DispenseDestination() (connectorPlugin.DestinationPlugin, error) {
	return nil, errors.New("c15: nothing to dispense")
}

func (f *fakeConnPlugins) NewDispenser(_ log.CtxLogger, _ string, _ string) (connectorPlugin.Dispenser, error) {
	f.mu.Lock()
	defer f.mu.Unlock()
	f.calls++
	if f.refuseNth > 0 && f.calls == f.refuseNth {
		f.refused++
		return nil, errPluginRefused
	}
	return nopDispenser{}, nil
}

func (f *fakeConnPlugins) arm(nth int64) {
	f.mu.Lock()
	f.calls, f.refuseNth, f.refused = 0, nth, 0
	f.mu.Unlock()
}

// fakeLifecycle: nothing runs in C15. A call is recorded; the oracle treats a
// lifecycle call as unexpected (status is "stopped" everywhere).
type fakeLifecycle struct{ calls []string }

func (f *fakeLifecycle) Start(_ context.Context, id string) error {
	f.calls = append(f.calls, "start:"+id)
	return nil
}
func (f *fakeLifecycle) Stop(_ context.Context, id string, _ bool) error {
	f.calls = append(f.calls, "stop:"+id)
	return nil
}
func (f *fakeLifecycle) StopAndWait(_ context.Context, id string) error {
	f.calls = append(f.calls, "stopandwait:"+id)
	return nil
}
func (f *fakeLifecycle) ReconfigureProcessor(_ context.Context, id, proc string) error {
	f.calls = append(f.calls, "reconfigure:"+id+":"+proc)
	return nil
}

// ---------------------------------------------------------------------------
// the rig: real services over faultdb(inmemory)

type services struct {
	pl   *pipeline.Service
	conn *connector.Service
	proc *processor.Service
}

type rig struct {
	db     *faultdb.DB
	script *faultdb.Script
	logBuf *bytes.Buffer

	services
	persister   *connector.Persister
	procPlugins *fakeProcPlugins
	connPlugins *fakeConnPlugins
	lifecycle   *fakeLifecycle
	prov        *provisioning.Service
}

var ctxBG = context.Background()

func newRig() *rig {
	r := &rig{
		db:          faultdb.New(&inmemory.DB{}),
		script:      faultdb.NewScript(),
		logBuf:      &bytes.Buffer{},
		procPlugins: &fakeProcPlugins{},
		connPlugins: &fakeConnPlugins{},
		lifecycle:   &fakeLifecycle{},
	}
	r.db.SetController(r.script)
	// Warn and above only: "error rolling back action" is logged at error
	// level with the action's String() in field "action".
	logger := log.New(zerolog.New(r.logBuf).Level(zerolog.WarnLevel))
	// Wiring as in pkg/conduit/runtime.go createServices.
	r.persister = connector.NewPersister(logger, r.db, connector.DefaultPersisterDelayThreshold, 1)
	r.pl = pipeline.NewService(logger, r.db)
	r.conn = connector.NewService(logger, r.db, r.persister)
	r.proc = processor.NewService(logger, r.db, r.procPlugins)
	r.prov = provisioning.NewService(r.db, logger, r.pl, r.conn, r.proc, r.connPlugins, r.lifecycle, "")
	return r
}

// freshServices builds a second set of services on a COPY of the store content
// and Init-s them, i.e. what a restart would load.
func freshServices(snap map[string][]byte) (services, error) {
	db := &inmemory.DB{}
	if err := faultdb.Restore(db, snap); err != nil {
		return services{}, err
	}
	// make sure the inner map exists even for an empty snapshot
	_, _ = db.GetKeys(ctxBG, "")
	logger := log.Nop()
	s := services{
		pl:   pipeline.NewService(logger, db),
		conn: connector.NewService(logger, db, connector.NewPersister(logger, db, connector.DefaultPersisterDelayThreshold, 1)),
		proc: processor.NewService(logger, db, &fakeProcPlugins{}),
	}
	// order as in Runtime.initServices: processors, connectors, pipelines
	if err := s.proc.Init(ctxBG); err != nil {
		return s, fmt.Errorf("processor.Init: %w", err)
	}
	if err := s.conn.Init(ctxBG); err != nil {
		return s, fmt.Errorf("connector.Init: %w", err)
	}
	if err := s.pl.Init(ctxBG); err != nil {
		return s, fmt.Errorf("pipeline.Init: %w", err)
	}
	return s, nil
}

// ---------------------------------------------------------------------------
// entry points of an import

const (
	entryImport    = "Import"    // Service.Import: no transaction, action rollback only
	entryApplyPlan = "ApplyPlan" // Service.Plan + Service.ApplyPlan: transactionalImport
)

// doImport imports cfg through the given entry point.
func (r *rig) doImport(entry string, cfg config.Pipeline) error {
	switch entry {
	case entryImport:
		return r.prov.Import(ctxBG, cfg)
	case entryApplyPlan:
		d, err := r.prov.Plan(ctxBG, cfg)
		if err != nil {
			return fmt.Errorf("Plan: %w", err)
		}
		_, err = r.prov.ApplyPlan(ctxBG, cfg, d.Hash)
		return err
	}
	panic("unknown entry " + entry)
}

// ---------------------------------------------------------------------------
// views: a neutral, comparable rendering of everything that is stored

// view maps "pipeline/<id>" | "connector/<id>" | "processor/<id>" to
// field -> canonical string.
type view map[string]map[string]string

func canonMap(m map[string]string) string {
	if len(m) == 0 {
		return "{}"
	}
	b, _ := json.Marshal(m) // encoding/json sorts map keys
	return string(b)
}

func canonList(l []string) string {
	if len(l) == 0 {
		return "[]"
	}
	b, _ := json.Marshal(l)
	return string(b)
}

func canonState(s any) string {
	if s == nil {
		return "null"
	}
	b, err := json.Marshal(s)
	if err != nil {
		return "unencodable:" + err.Error()
	}
	return string(b)
}

func viewOf(s services) view {
	v := view{}
	for id, p := range s.pl.List(ctxBG) {
		v["pipeline/"+id] = map[string]string{
			"name":            p.Config.Name,
			"description":     p.Config.Description,
			"dlq-plugin":      p.DLQ.Plugin,
			"dlq-settings":    canonMap(p.DLQ.Settings),
			"dlq-window-size": fmt.Sprint(p.DLQ.WindowSize),
			"dlq-threshold":   fmt.Sprint(p.DLQ.WindowNackThreshold),
			"connector-ids":   canonList(p.ConnectorIDs),
			"processor-ids":   canonList(p.ProcessorIDs),
			"provisioned-by":  fmt.Sprint(int(p.ProvisionedBy)),
			"status":          p.GetStatus().String(),
			"error":           p.Error,
		}
	}
	for id, c := range s.conn.List(ctxBG) {
		v["connector/"+id] = map[string]string{
			"type":               strings.ToLower(c.Type.String()),
			"plugin":             c.Plugin,
			"name":               c.Config.Name,
			"settings":           canonMap(c.Config.Settings),
			"pipeline-id":        c.PipelineID,
			"processor-ids":      canonList(c.ProcessorIDs),
			"state":              canonState(c.State),
			"provisioned-by":     fmt.Sprint(int(c.ProvisionedBy)),
			"last-active-config": c.LastActiveConfig.Name + canonMap(c.LastActiveConfig.Settings),
		}
	}
	for id, p := range s.proc.List(ctxBG) {
		v["processor/"+id] = map[string]string{
			"plugin":         p.Plugin,
			"settings":       canonMap(p.Config.Settings),
			"workers":        fmt.Sprint(p.Config.Workers),
			"condition":      p.Condition,
			"parent":         fmt.Sprintf("%s/%s", strings.ToLower(p.Parent.Type.String()), p.Parent.ID),
			"provisioned-by": fmt.Sprint(int(p.ProvisionedBy)),
		}
	}
	return v
}

// expectedView renders what an (enriched) config determines. Fields the config
// does not determine (state, provisioned-by, status, ...) are absent and are not
// compared by the convergence oracle.
func expectedView(cfg config.Pipeline) view {
	v := view{}
	connIDs := make([]string, 0, len(cfg.Connectors))
	addProcs := func(ps []config.Processor, parentType, parentID string) []string {
		ids := make([]string, 0, len(ps))
		for _, p := range ps {
			ids = append(ids, p.ID)
			w := p.Workers
			if w == 0 {
				w = 1
			}
			v["processor/"+p.ID] = map[string]string{
				"plugin":    p.Plugin,
				"settings":  canonMap(p.Settings),
				"workers":   fmt.Sprint(w),
				"condition": p.Condition,
				"parent":    parentType + "/" + parentID,
			}
		}
		return ids
	}
	for _, c := range cfg.Connectors {
		connIDs = append(connIDs, c.ID)
		pids := addProcs(c.Processors, "connector", c.ID)
		v["connector/"+c.ID] = map[string]string{
			"type":          c.Type,
			"plugin":        c.Plugin,
			"name":          c.Name,
			"settings":      canonMap(c.Settings),
			"pipeline-id":   cfg.ID,
			"processor-ids": canonList(pids),
		}
	}
	pids := addProcs(cfg.Processors, "pipeline", cfg.ID)
	v["pipeline/"+cfg.ID] = map[string]string{
		"name":            cfg.Name,
		"description":     cfg.Description,
		"dlq-plugin":      cfg.DLQ.Plugin,
		"dlq-settings":    canonMap(cfg.DLQ.Settings),
		"dlq-window-size": fmt.Sprint(*cfg.DLQ.WindowSize),
		"dlq-threshold":   fmt.Sprint(*cfg.DLQ.WindowNackThreshold),
		"connector-ids":   canonList(connIDs),
		"processor-ids":   canonList(pids),
	}
	return v
}

// fieldDiff is one differing field of one entity.
type fieldDiff struct {
	Entity string `json:"entity"` // "processor/<id>"
	Field  string `json:"field"`  // "condition" | "<missing>" | "<unexpected>"
	Want   string `json:"want"`
	Got    string `json:"got"`
}

func (d fieldDiff) kind() string { return d.Entity[:strings.IndexByte(d.Entity, '/')] }
func (d fieldDiff) id() string   { return d.Entity[strings.IndexByte(d.Entity, '/')+1:] }

// class is the stable part: entity kind + field.
func (d fieldDiff) class() string {
	switch d.Field {
	case "<missing>":
		return d.kind() + "-missing"
	case "<unexpected>":
		return d.kind() + "-unexpected"
	}
	return d.kind() + "-" + d.Field
}

// diffViews compares got against want. If onlyWantFields, only the entities'
// fields present in want are compared (want is a partial rendering), and only
// entities for which scope(entity) holds are considered for "<unexpected>".
func diffViews(want, got view, onlyWantFields bool, scope func(entity string) bool) []fieldDiff {
	var out []fieldDiff
	keys := map[string]bool{}
	for k := range want {
		keys[k] = true
	}
	for k := range got {
		keys[k] = true
	}
	sorted := make([]string, 0, len(keys))
	for k := range keys {
		sorted = append(sorted, k)
	}
	sort.Strings(sorted)
	for _, k := range sorted {
		if scope != nil && !scope(k) {
			continue
		}
		w, wok := want[k]
		g, gok := got[k]
		switch {
		case wok && !gok:
			out = append(out, fieldDiff{Entity: k, Field: "<missing>"})
		case !wok && gok:
			out = append(out, fieldDiff{Entity: k, Field: "<unexpected>"})
		default:
			fields := map[string]bool{}
			for f := range w {
				fields[f] = true
			}
			if !onlyWantFields {
				for f := range g {
					fields[f] = true
				}
			}
			fs := make([]string, 0, len(fields))
			for f := range fields {
				fs = append(fs, f)
			}
			sort.Strings(fs)
			for _, f := range fs {
				if w[f] != g[f] {
					out = append(out, fieldDiff{Entity: k, Field: f, Want: w[f], Got: g[f]})
				}
			}
		}
	}
	return out
}

// ---------------------------------------------------------------------------
// raw store comparison

const (
	pfxPipeline  = "pipeline:instance:"
	pfxConnector = "connector:instance:"
	pfxProcessor = "processor:instance:"
)

func entityOfKey(key string) string {
	switch {
	case strings.HasPrefix(key, pfxPipeline):
		return "pipeline/" + strings.TrimPrefix(key, pfxPipeline)
	case strings.HasPrefix(key, pfxConnector):
		return "connector/" + strings.TrimPrefix(key, pfxConnector)
	case strings.HasPrefix(key, pfxProcessor):
		return "processor/" + strings.TrimPrefix(key, pfxProcessor)
	}
	return "key/" + key
}

// The only store content exempted from "unchanged": the bookkeeping timestamps
// the three services document as creation / last-update times.
var bookkeepingFields = map[string]bool{"CreatedAt": true, "UpdatedAt": true}

// diffRaw compares two store snapshots key by key. Values are the services'
// JSON documents; they are compared per top-level JSON field. With
// ignoreTimestamps the fields CreatedAt/UpdatedAt are skipped.
// timestampOnly reports whether bytes differ somewhere but only in those fields.
func diffRaw(before, after map[string][]byte, ignoreTimestamps bool) (diffs []fieldDiff, timestampOnly bool) {
	keys := map[string]bool{}
	for k := range before {
		keys[k] = true
	}
	for k := range after {
		keys[k] = true
	}
	sorted := make([]string, 0, len(keys))
	for k := range keys {
		sorted = append(sorted, k)
	}
	sort.Strings(sorted)
	tsDiff := false
	for _, k := range sorted {
		b, bok := before[k]
		a, aok := after[k]
		ent := entityOfKey(k)
		switch {
		case bok && !aok:
			diffs = append(diffs, fieldDiff{Entity: ent, Field: "<missing>"})
			continue
		case !bok && aok:
			diffs = append(diffs, fieldDiff{Entity: ent, Field: "<unexpected>"})
			continue
		}
		if bytes.Equal(a, b) {
			continue
		}
		var bm, am map[string]json.RawMessage
		if json.Unmarshal(b, &bm) != nil || json.Unmarshal(a, &am) != nil {
			diffs = append(diffs, fieldDiff{Entity: ent, Field: "raw-bytes", Want: string(b), Got: string(a)})
			continue
		}
		fields := map[string]bool{}
		for f := range bm {
			fields[f] = true
		}
		for f := range am {
			fields[f] = true
		}
		fs := make([]string, 0, len(fields))
		for f := range fields {
			fs = append(fs, f)
		}
		sort.Strings(fs)
		for _, f := range fs {
			if canonJSON(bm[f]) == canonJSON(am[f]) {
				continue
			}
			if bookkeepingFields[f] {
				tsDiff = true
				if ignoreTimestamps {
					continue
				}
			}
			diffs = append(diffs, fieldDiff{Entity: ent, Field: "json." + f, Want: string(bm[f]), Got: string(am[f])})
		}
	}
	return diffs, tsDiff && len(diffs) == 0
}

// canonJSON renders a JSON value with sorted keys; null, [] and {} (at any
// depth) are one value: the services do not distinguish an absent list or map
// from an empty one.
func canonJSON(r json.RawMessage) string {
	if len(r) == 0 {
		return "<empty>"
	}
	var v any
	if json.Unmarshal(r, &v) != nil {
		return string(r)
	}
	v = dropEmpty(v)
	if v == nil {
		return "<empty>"
	}
	b, _ := json.Marshal(v)
	return string(b)
}

func dropEmpty(v any) any {
	switch t := v.(type) {
	case map[string]any:
		if len(t) == 0 {
			return nil
		}
		for k, e := range t {
			t[k] = dropEmpty(e)
		}
		return t
	case []any:
		if len(t) == 0 {
			return nil
		}
		for i, e := range t {
			t[i] = dropEmpty(e)
		}
		return t
	}
	return v
}

func snapEqualBytes(a, b map[string][]byte) bool {
	if len(a) != len(b) {
		return false
	}
	for k, v := range a {
		w, ok := b[k]
		if !ok || !bytes.Equal(v, w) {
			return false
		}
	}
	return true
}

// ---------------------------------------------------------------------------
// capture = everything the oracles look at, at one instant

type capture struct {
	mem      view
	snap     map[string][]byte
	fresh    view
	freshErr string
}

func (r *rig) capture() capture {
	c := capture{mem: viewOf(r.services), snap: r.db.Snapshot()}
	fs, err := freshServices(c.snap)
	if err != nil {
		c.freshErr = err.Error()
		c.fresh = view{}
		return c
	}
	c.fresh = viewOf(fs)
	return c
}

// ---------------------------------------------------------------------------
// connector state (source position / destination positions)

// ensureStates gives every connector of the pipeline that has no State a
// deterministic, distinguishable one through connector.Service.SetState (a
// synchronous store write, the same one the persister's flush performs).
func (r *rig) ensureStates(pipelineID string, gen int) error {
	ids := make([]string, 0)
	for id, c := range r.conn.List(ctxBG) {
		if c.PipelineID == pipelineID && c.State == nil {
			ids = append(ids, id)
		}
	}
	sort.Strings(ids)
	for _, id := range ids {
		c, _ := r.conn.Get(ctxBG, id)
		var st any
		pos := opencdc.Position(fmt.Sprintf("pos-%s-g%d", id, gen))
		switch c.Type {
		case connector.TypeSource:
			st = connector.SourceState{Position: pos}
		case connector.TypeDestination:
			st = connector.DestinationState{Positions: map[string]opencdc.Position{"src": pos}}
		}
		if _, err := r.conn.SetState(ctxBG, id, st); err != nil {
			return err
		}
	}
	return nil
}

// ---------------------------------------------------------------------------
// log scraping: which rollback actions failed

type rollbackFailure struct {
	Action string `json:"action"` // "update connector" ...
	Reason string `json:"reason"` // normalised error text
}

var (
	reActionID  = regexp.MustCompile(`^(create|update|delete) (pipeline|connector|processor) with ID .*$`)
	reQuotedID  = regexp.MustCompile(`"[^"]*"`)
	reParenID   = regexp.MustCompile(`\(ID: [^)]*\)`)
	reBareID    = regexp.MustCompile(`\b(pl|by)(:[A-Za-z0-9_.\-]+)+\b`)
	reWithID    = regexp.MustCompile(`with ID \S+`)
	reSpaces    = regexp.MustCompile(`\s+`)
	reNonIdent  = regexp.MustCompile(`[^a-z0-9]+`)
	reExecuting = regexp.MustCompile(`error executing action "((?:create|update|delete) (?:pipeline|connector|processor)) with ID [^"]*": (.*)$`)
)

func actionKindOf(actionString string) string {
	m := reActionID.FindStringSubmatch(actionString)
	if m == nil {
		return "unknown"
	}
	return actionTypeName(m[1], m[2])
}

// actionTypeName gives the repo's type name of the action ("updateConnectorAction").
func actionTypeName(verb, resource string) string {
	return verb + strings.ToUpper(resource[:1]) + resource[1:] + "Action"
}

// normReason strips every id from an error text, drops repeated segments of
// the wrap chain and slugs it.
func normReason(msg string) string {
	s := reQuotedID.ReplaceAllString(msg, "")
	s = reParenID.ReplaceAllString(s, "")
	s = reWithID.ReplaceAllString(s, "")
	s = reBareID.ReplaceAllString(s, "")
	s = strings.ToLower(s)
	var segs []string
	for _, seg := range strings.Split(s, ": ") {
		seg = strings.Trim(reNonIdent.ReplaceAllString(seg, "-"), "-")
		if seg == "" || (len(segs) > 0 && segs[len(segs)-1] == seg) {
			continue
		}
		segs = append(segs, seg)
	}
	s = strings.Join(segs, ".")
	if len(s) > 100 {
		s = s[:100]
	}
	return s
}

// drainRollbackFailures parses the log lines written since the last drain.
func (r *rig) drainRollbackFailures() (fails []rollbackFailure, corruptWarned bool) {
	defer r.logBuf.Reset()
	for _, line := range bytes.Split(r.logBuf.Bytes(), []byte("\n")) {
		if len(line) == 0 {
			continue
		}
		var m map[string]any
		if json.Unmarshal(line, &m) != nil {
			continue
		}
		msg, _ := m["message"].(string)
		switch {
		case msg == "error rolling back action":
			a, _ := m["action"].(string)
			e, _ := m["error"].(string)
			fails = append(fails, rollbackFailure{Action: actionKindOf(a), Reason: normReason(e)})
		case strings.HasPrefix(msg, "some actions failed to be rolled back"):
			corruptWarned = true
		}
	}
	return fails, corruptWarned
}

func squash(s string) string { return reSpaces.ReplaceAllString(s, " ") }
