// Package c02: source position is durable before the connector is told, and only moves forward.
package c02

import (
	"context"
	"fmt"
	"strconv"
	"strings"
	"sync/atomic"
	"time"

	"verif/internal/pipe"
	"verif/internal/rig"
	"verif/internal/vp"
)

// hooks: the forced-flush-overlap family issues its force stop from a harness
// action at the scheduling point right before the commit of the k-th flush.
func hooks(sc *pipe.Scenario) *pipe.Hooks {
	i := strings.Index(sc.Name, "forced-flush-overlap:")
	if i < 0 {
		return nil
	}
	k, _ := strconv.Atoi(sc.Name[i+len("forced-flush-overlap:"):])
	return &pipe.Hooks{AfterBuild: func(r *rig.Rig, sc *pipe.Scenario) {
		if r.Points == nil {
			return
		}
		var n atomic.Int64
		r.Points.On("connector.persister.before-commit", func() {
			if n.Add(1) != int64(k) {
				return
			}
			// this flush is in flight (its commit has not started). Pacing: let a few
			// more records be confirmed by the destinations and acknowledged, so that
			// newer positions are registered with the persister behind this flush
			base := -1
			r.Log.WaitFor(func(evs []rig.Ev) bool {
				if base < 0 {
					base = len(evs)
				}
				c := 0
				for q := base; q < len(evs); q++ {
					if evs[q].Kind == rig.KDstAck {
						c++
					}
				}
				return c >= 4
			}, 300*time.Millisecond)
			time.Sleep(3 * time.Millisecond)
			r.Log.Append(rig.Ev{Kind: rig.KNote, Note: "force stop issued while a flush is in flight"})
			go func() { _ = r.Stop(context.Background(), sc.Topo.Pipeline, true) }()
			// the commit of this flush stays in flight while the run is torn down
			time.Sleep(30 * time.Millisecond)
		})
	}}
}

func gen(seed int64, tier string, idx int) *pipe.Scenario {
	g := pipe.NewGen(seed, idx)
	o := pipe.GenOpts{
		MaxSources: 3, MaxDests: 2, MaxProcs: 1, MinRecords: 20, MaxRecords: 150,
		AllowFilter: true, AllowDstNack: true, DLQWindows: []int{0},
	}
	sc := g.Scenario(o)
	// persister thresholds so that debounce, bundle and forced flushes all occur
	sc.PersistDelayUs = []int{100, 500, 2000, 8000, 20000}[g.R.Intn(5)]
	sc.PersistBundle = []int{1, 2, 3, 7, 20, 100}[g.R.Intn(6)]
	// store faults / delays on the flush path
	switch g.R.Intn(8) {
	case 0:
		sc.Faults = append(sc.Faults, pipe.Fault{Kind: "set", KeyPrefix: "connector:instance:", Every: int64(3 + g.R.Intn(8)), Action: "fail"})
	case 1:
		sc.Faults = append(sc.Faults, pipe.Fault{Kind: "commit", KeyPrefix: "connector:instance:", Every: int64(3 + g.R.Intn(8)), Action: "fail"})
	case 2:
		sc.Faults = append(sc.Faults, pipe.Fault{Kind: "commit", Every: int64(1 + g.R.Intn(3)), Action: "delay", DelayUs: 200 + g.R.Intn(3000)})
	case 3:
		sc.Faults = append(sc.Faults, pipe.Fault{Kind: "set", KeyPrefix: "connector:instance:", Nth: int64(2 + g.R.Intn(6)), Action: "fail"})
	case 4:
		sc.Faults = append(sc.Faults, pipe.Fault{Kind: "commit", KeyPrefix: "connector:instance:", Nth: int64(2 + g.R.Intn(6)), Action: "fail"})
	case 5:
		// the flush transaction itself cannot be created
		sc.Faults = append(sc.Faults, pipe.Fault{Kind: "newtx", Nth: int64(2 + g.R.Intn(8)), Action: "fail"})
	}
	if g.R.Intn(4) == 0 {
		sc.Steps = append(sc.Steps, pipe.Step{AtEvent: 30 + g.R.Intn(300), Op: "stopwait"})
	}
	if idx%16 == 14 {
		// a slow commit in flight, newer acknowledgments registered behind it, and a
		// force stop right then: the teardown's forced flush (cancelled context) must
		// still queue behind the flush in flight. The force stop is issued by a
		// harness action at the scheduling point before the commit of the k-th flush
		// (see hooks below), which also keeps that commit in flight for 30 ms more.
		sc.Steps, sc.Faults = nil, nil
		sc.Name = fmt.Sprintf("forced-flush-overlap:%d", 1+g.R.Intn(3))
		// records keep flowing while the flush is in flight
		for i := range sc.Topo.Sources {
			sc.Topo.Sources[i].Src.Batches = []int{1, 2, 3}
			sc.Topo.Sources[i].Src.PaceUs = 800 + g.R.Intn(1500)
			if sc.Records[i] < 150 {
				sc.Records[i] = 150
			}
		}
		for i := range sc.Topo.Dests {
			sc.Topo.Dests[i].Dst.NackPermille = 0
			sc.Topo.Dests[i].Dst.NackIdx = nil
		}
		// timer-driven flushes only, with a delay well above the 30 ms window: a
		// bundle-driven flush would make Source.Ack itself wait for the flush in
		// flight, and a timer-driven one that fires inside the window queues behind
		// it holding the persister's lock - either way nothing would be left in the
		// batch for the forced flush to write
		sc.PersistDelayUs = []int{60000, 90000}[g.R.Intn(2)]
		sc.PersistBundle = 1000
		if g.R.Intn(2) == 0 {
			sc.Store = "badger"
		}
	}
	if idx%16 == 6 {
		// the stored position must not pass a record that was neither delivered
		// nor dead-lettered, also when dead-lettering fails inside a fan-out
		sc.Faults, sc.Steps = nil, nil
		g.FanoutUnabsorbed(sc)
	}
	return sc
}

func judge(out *pipe.Outcome, ix *pipe.Index) pipe.Verdict {
	var v pipe.Verdict
	vs, j := pipe.OracleC02(ix)
	v.Violations = vs
	v.AddJudged("", j)
	faults := int64(0)
	commits := int64(0)
	for i := range out.Evs {
		switch out.Evs[i].Kind {
		case "StoreFault":
			faults++
		case "Commit":
			if out.Evs[i].Op == "commit" {
				commits++
			}
		}
	}
	v.Stats["store_faults_injected"] = faults
	v.Stats["flush_commits_observed"] = commits
	v.Nontrivial = j.ByHow["ack-covered-by-commit"] > 0 && commits >= 2
	fk := "nofault"
	for _, f := range out.Sc.Faults {
		fk = f.Kind + "-" + f.Action
	}
	v.SigExtra = fmt.Sprintf("%s|b%d|d%d|f%v", fk, out.Sc.PersistBundle, out.Sc.PersistDelayUs, faults > 0)
	return v
}

func init() {
	vp.Register(&pipe.PropDef{
		PID: "C02", PLevel: "exploration",
		RuleText: "scenario = both engines, 1-3 sources sharing one persister, persister delay 0.1-20 ms and bundle 1-100 (debounce, bundle and forced flushes all occur), injected store faults on the flush path (every k-th / the n-th transactional Set or Commit of a connector key fails; commits delayed), stop at a PRNG-chosen event index. Obligations: every source ack must be preceded by a successful commit whose snapshot holds that position or a later one; every commit snapshot must not move a stored position backwards or to empty; every record at or before a newly stored position must have been handled before that commit. Non-trivial: >=1 ack judged and >=2 flush commits; distinct = distinct (engine, topology, fault kind, thresholds, whether a fault fired).",
		Assume:   []string{"durable = committed to the database.DB handed to the engine (faultdb over the in-memory store); the store's own crash atomicity is trusted", "a commit and its snapshot are logged atomically under the store wrapper's commit lock"},
		Quick:    320, Thorough: 3200,
		PointBias: []string{"connector.persister.before-commit", "connector.persister.after-commit", "connector.persister.callback", "connector.source.ack", "funnel.worker.ack", "funnel.worker.nack", "funnel.multiack.ack", "funnel.multiack.nack"},
		Anchors:   []string{"pkg/connector/source.go", "pkg/connector/persister.go", "pkg/connector/store.go", "pkg/connector/service.go"},
		Gen:       gen, Judge: judge, Hooks: hooks,
	})
}
