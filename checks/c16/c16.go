// Package c16: live apply to a running pipeline loses nothing and never applies a stale plan.
package c16

import (
	"context"
	"encoding/json"
	"fmt"
	"reflect"
	"strings"
	"sync"
	"time"

	"github.com/conduitio/conduit-commons/database/inmemory"
	"github.com/conduitio/conduit/pkg/provisioning/config"

	"verif/internal/faultdb"
	"verif/internal/pipe"
	"verif/internal/rig"
	"verif/internal/vp"
)

const neutral = "pn" // a pass/modify-only processor that config changes may touch

var changeKinds = []string{"noop", "proc-settings", "conn-settings", "add-proc", "remove-proc", "add-dest", "dlq", "two-procs-second-fails"}

// neutral2 is a second pass/modify-only pipeline processor; the change kind
// "two-procs-second-fails" updates both and the new configuration of neutral2
// cannot be opened (badGen), so an in-place apply has to undo the first swap.
const neutral2 = "pn2"
const badGen = 99

var variants = []string{"fresh", "fresh", "stale", "concurrent", "unauthorized", "storefault", "restartfail", "stopped"}

func gen(seed int64, tier string, idx int) *pipe.Scenario {
	g := pipe.NewGen(seed, idx)
	o := pipe.GenOpts{MaxSources: 2, MaxDests: 2, MaxProcs: 1, MinRecords: 150, MaxRecords: 400, AllowFilter: true, DLQWindows: []int{0}}
	sc := g.Scenario(o)
	p := rig.ProcSpec{ID: neutral}
	p.Script.Seed = g.R.Uint64()
	p.Script.ModifyPm = 500
	if sc.Engine == "v1" && g.R.Intn(4) == 0 {
		p.Workers = 2 // not live-reconfigurable: falls back to a restart
	}
	sc.Topo.PipeProcs = append(sc.Topo.PipeProcs, p)
	{
		p2 := rig.ProcSpec{ID: neutral2}
		p2.Script.Seed = g.R.Uint64()
		p2.Script.ModifyPm = 300
		p2.Script.OpenErr = map[int]string{badGen: "vf: this configuration cannot be opened"}
		sc.Topo.PipeProcs = append(sc.Topo.PipeProcs, p2)
	}
	for i := range sc.Topo.Sources {
		sc.Topo.Sources[i].Src.PaceUs = []int{100, 300, 800}[g.R.Intn(3)]
	}
	kind := changeKinds[g.R.Intn(len(changeKinds))]
	variant := variants[idx%len(variants)]
	if idx%16 == 15 {
		// the pipeline is stopped when the apply looks first and an external Start
		// lands before it looks again; the apply is not authorised to touch a
		// running pipeline
		variant = "startrace"
	}
	at := 30 + g.R.Intn(200)
	if g.R.Intn(6) == 0 {
		at = -1 // idle
	}
	sc.Name = kind + ":" + variant
	sc.Steps = []pipe.Step{{AtEvent: at, Op: "apply:" + kind + ":" + variant}, {AtEvent: 0, Op: "pause"}}
	if variant == "restartfail" {
		// the new run of a destination cannot be opened
		sc.Topo.Dests[0].Dst.CallErr = map[string]string{"Open#2": "vf: cannot open after apply"}
	}
	return sc
}

// desired derives the new config from the current one.
func desired(cur config.Pipeline, kind string, n int) config.Pipeline {
	b, _ := json.Marshal(cur)
	var c config.Pipeline
	_ = json.Unmarshal(b, &c)
	switch kind {
	case "noop":
	case "proc-settings":
		for i := range c.Processors {
			if c.Processors[i].ID == neutral {
				c.Processors[i].Settings = map[string]string{"vf.gen": fmt.Sprint(1 + n)}
			}
		}
	case "two-procs-second-fails":
		for i := range c.Processors {
			switch c.Processors[i].ID {
			case neutral:
				c.Processors[i].Settings = map[string]string{"vf.gen": fmt.Sprint(1 + n)}
			case neutral2:
				c.Processors[i].Settings = map[string]string{"vf.gen": fmt.Sprint(badGen)}
			}
		}
	case "conn-settings":
		for i := range c.Connectors {
			if c.Connectors[i].Type == config.TypeDestination {
				c.Connectors[i].Settings = map[string]string{"k": fmt.Sprintf("v%d", n)}
				break
			}
		}
	case "add-proc":
		c.Processors = append(c.Processors, config.Processor{ID: fmt.Sprintf("padd%d", n), Plugin: rig.ProcPluginName, Settings: map[string]string{"vf.gen": "1"}, Workers: 1})
	case "remove-proc":
		var keep []config.Processor
		for _, p := range c.Processors {
			if p.ID != neutral {
				keep = append(keep, p)
			}
		}
		c.Processors = keep
	case "add-dest":
		c.Connectors = append(c.Connectors, config.Connector{ID: fmt.Sprintf("dadd%d", n), Type: config.TypeDestination, Plugin: rig.DstPluginName, Name: fmt.Sprintf("dadd%d", n), Settings: map[string]string{"k": "v"}})
	case "dlq":
		w, t := 5, 4
		c.DLQ.WindowSize, c.DLQ.WindowNackThreshold = &w, &t
	}
	return c
}

type applyRec struct {
	Call    int
	Kind    string
	Variant string
	Allow   bool
	Hash    string
	Err     string
	Mode    string
	Before  config.Pipeline
	After   config.Pipeline
	Desired config.Pipeline
	// MemEqualsStore: fresh services initialised on a copy of the store export the same config.
	MemEqualsStore bool
	StoreExport    config.Pipeline
	ctl, ret       int
}

type state struct {
	mu      sync.Mutex
	applies []*applyRec
}

var states sync.Map // scenario name -> *state

func hooks(sc *pipe.Scenario) *pipe.Hooks {
	st := &state{}
	states.Store(sc, st)
	ctx := context.Background()
	return &pipe.Hooks{
		Build: func(r *rig.Rig, sc *pipe.Scenario) error {
			cfg := rig.ToConfig(sc.Topo, nil)
			d, err := r.Prov.Plan(ctx, cfg)
			if err != nil {
				return err
			}
			_, err = r.Prov.ApplyPlan(ctx, cfg, d.Hash)
			return err
		},
		Op: func(r *rig.Rig, sc *pipe.Scenario, op string) bool {
			if op == "pause" {
				r.Log.Quiet(20*time.Millisecond, 3*time.Second)
				return true
			}
			if !strings.HasPrefix(op, "apply:") {
				return false
			}
			parts := strings.Split(op, ":")
			kind, variant := parts[1], parts[2]
			id := sc.Topo.Pipeline
			cur, err := r.Prov.Export(ctx, id)
			if err != nil {
				return true
			}
			export := func() config.Pipeline { c, _ := r.Prov.Export(ctx, id); return c }
			storeExport := func() (config.Pipeline, bool) {
				// a restarted server: fresh services on a copy of the store
				r2, err := rig.New(rig.Config{Engine: sc.Engine, DB: &inmemory.DB{}, Snapshot: r.DB.Snapshot()})
				if err != nil {
					return config.Pipeline{}, false
				}
				if err := r2.InitServices(ctx); err != nil {
					return config.Pipeline{}, false
				}
				c, err := r2.Prov.Export(ctx, id)
				r2.Log.Close()
				return c, err == nil
			}
			do := func(des config.Pipeline, hash string, allow bool, variant string) *applyRec {
				a := &applyRec{Kind: kind, Variant: variant, Allow: allow, Hash: hash, Desired: des}
				if variant != "concurrent" {
					// (the services are single-writer: never read them while another apply runs)
					a.Before = export()
				}
				_ = r.Ctl("ApplyPlanLive", fmt.Sprintf("%s:%s:allow=%v", kind, variant, allow), func() error {
					d, err := r.Prov.ApplyPlanLive(ctx, des, hash, allow)
					a.Mode = string(d.AppliedMode)
					if err != nil {
						a.Err = err.Error()
					}
					return err
				})
				if variant != "concurrent" {
					a.After = export()
				}
				st.mu.Lock()
				st.applies = append(st.applies, a)
				st.mu.Unlock()
				return a
			}
			finish := func(as ...*applyRec) {
				se, ok := storeExport()
				for _, a := range as {
					a.StoreExport = se
					a.MemEqualsStore = ok && reflect.DeepEqual(normalize(se), normalize(export()))
				}
			}
			des := desired(cur, kind, 1)
			plan, err := r.Prov.Plan(ctx, des)
			if err != nil {
				return true
			}
			switch variant {
			case "fresh":
				finish(do(des, plan.Hash, true, variant))
			case "stopped":
				_ = r.StopAndWait(ctx, id)
				finish(do(des, plan.Hash, false, variant))
				_ = r.Start(ctx, id)
			case "unauthorized":
				finish(do(des, plan.Hash, false, variant))
			case "startrace":
				_ = r.StopAndWait(ctx, id)
				var once sync.Once
				if r.Points != nil {
					// the harness as a concurrent client: a Start (outside provisioning, like
					// the Start RPC) issued and completed right after the apply's first look
					// at the pipeline status
					r.Points.On("provisioning.applylive.checked", func() {
						once.Do(func() { _ = r.Start(ctx, id) })
					})
				}
				a := do(des, plan.Hash, false, variant)
				if r.Points != nil {
					r.Points.On("provisioning.applylive.checked", nil)
				}
				finish(a)
				if st := r.Status(id); st != "Running" && st != "Recovering" {
					_ = r.Start(ctx, id)
				}
			case "stale":
				// another change lands between plan and apply
				other := desired(cur, "dlq", 2)
				if kind == "dlq" {
					other = desired(cur, "conn-settings", 2)
				}
				po, err := r.Prov.Plan(ctx, other)
				if err != nil {
					return true
				}
				a1 := do(other, po.Hash, true, "fresh")
				a2 := do(des, plan.Hash, true, "stale")
				finish(a1, a2)
			case "concurrent":
				other := desired(cur, "dlq", 2)
				if kind == "dlq" || kind == "noop" {
					other = desired(cur, "conn-settings", 2)
				}
				po, err := r.Prov.Plan(ctx, other)
				if err != nil {
					return true
				}
				var wg sync.WaitGroup
				var a1, a2 *applyRec
				before := export()
				wg.Add(2)
				go func() { defer wg.Done(); a1 = do(des, plan.Hash, true, "concurrent") }()
				go func() { defer wg.Done(); a2 = do(other, po.Hash, true, "concurrent") }()
				wg.Wait()
				after := export()
				a1.Before, a2.Before, a1.After, a2.After = before, before, after, after
				finish(a1, a2)
			case "storefault":
				rule := r.Script.Add(&faultdb.Rule{Kind: faultdb.OpCommit, Nth: 0, Dec: faultdb.Decision{Err: faultdb.ErrInjected}})
				// only the import's commit: position flushes touch connector keys only
				rule.KeyPrefix = "pipeline:instance:"
				a := do(des, plan.Hash, true, variant)
				rule.Disabled = true
				finish(a)
			case "restartfail":
				finish(do(des, plan.Hash, true, variant))
			}
			return true
		},
	}
}

// normalize makes two exports comparable (nil vs empty, status ignored).
func normalize(c config.Pipeline) config.Pipeline {
	b, _ := json.Marshal(c)
	var out config.Pipeline
	_ = json.Unmarshal(b, &out)
	out.Status = ""
	fix := func(ps []config.Processor) []config.Processor {
		for i := range ps {
			if len(ps[i].Settings) == 0 {
				ps[i].Settings = nil
			}
			if ps[i].Workers == 0 {
				ps[i].Workers = 1
			}
			ps[i].Condition = "" // not exported (recorded C15 finding)
		}
		if len(ps) == 0 {
			return nil
		}
		return ps
	}
	out.Processors = fix(out.Processors)
	for i := range out.Connectors {
		out.Connectors[i].Processors = fix(out.Connectors[i].Processors)
		if len(out.Connectors[i].Settings) == 0 {
			out.Connectors[i].Settings = nil
		}
	}
	if len(out.DLQ.Settings) == 0 {
		out.DLQ.Settings = nil
	}
	return out
}

func same(a, b config.Pipeline) bool { return reflect.DeepEqual(normalize(a), normalize(b)) }

func judge(out *pipe.Outcome, ix *pipe.Index) pipe.Verdict {
	var v pipe.Verdict
	v.Stats = map[string]int64{}
	sc := out.Sc
	evs := out.Evs
	sv, _ := states.LoadAndDelete(sc)
	if sv == nil {
		v.Inconclusive = "no apply state recorded"
		return v
	}
	st := sv.(*state)
	add := func(cl, sub, detail string, around ...int) {
		id := fmt.Sprintf("C16/%s/%s", cl, sc.Engine)
		if sub != "" {
			id += "/" + sub
		}
		v.Violations = append(v.Violations, vp.Violation{Property: "C16", Class: cl, Identity: id, Detail: detail, Witness: rig.Excerpt(evs, around, 8)})
	}
	// map applies to their call/return events
	callOf := map[string][]int{}
	for i := range evs {
		if evs[i].Kind == rig.KCtl && evs[i].Op == "ApplyPlanLive" {
			callOf[evs[i].Arg] = append(callOf[evs[i].Arg], i)
		}
	}
	retOf := func(ctl int) int {
		for i := ctl; i < len(evs); i++ {
			if evs[i].Kind == rig.KCtlRet && evs[i].Op == "ApplyPlanLive" && evs[i].Call == evs[ctl].Call {
				return i
			}
		}
		return -1
	}
	used := map[int]bool{}
	for _, a := range st.applies {
		arg := fmt.Sprintf("%s:%s:allow=%v", a.Kind, a.Variant, a.Allow)
		for _, c := range callOf[arg] {
			if !used[c] {
				used[c] = true
				a.ctl, a.ret = c, retOf(c)
				break
			}
		}
	}
	src0 := sc.Topo.Sources[0].ID
	statusAt := func(i int) string {
		for q := i; q >= 0; q-- {
			if evs[q].Kind == rig.KCommit && evs[q].Snap != nil {
				if s, ok := evs[q].Snap.Status[sc.Topo.Pipeline]; ok {
					return s
				}
			}
		}
		return ""
	}
	okApplies := 0
	for _, a := range st.applies {
		if a.ret < 0 {
			continue
		}
		v.Stats["applies_judged"]++
		running := statusAt(a.ctl) == "Running"
		changed := !same(a.Before, a.Desired)
		// the first event from which the pipeline counts as running for this apply
		runningFrom := a.ctl
		if a.Variant == "startrace" {
			// stopped at the call; an external Start was issued and returned (nil) at the
			// apply's scheduling point between its two looks at the status: from that
			// return on the pipeline is a running one, and the apply has yet to look again
			running = false
			for i := a.ctl; i <= a.ret; i++ {
				if evs[i].Kind == rig.KCtlRet && evs[i].Op == "Start" && evs[i].Err == "" {
					running, runningFrom = true, i
					v.Stats["starts_landed_between_the_looks_of_an_apply"]++
					break
				}
			}
		}
		// --- stale plans / concurrent applies
		if a.Variant == "stale" && a.Err == "" && changed {
			add("stale-plan-applied", "", fmt.Sprintf("an apply with a hash computed before another change landed succeeded (mode %q)", a.Mode), a.ctl, a.ret)
		}
		if a.Err == "" {
			okApplies++
		}
		// --- a running pipeline is touched only with operator authorisation
		if !a.Allow && running && changed {
			if a.Err == "" {
				add("running-pipeline-changed-without-authorisation", "", "ApplyPlanLive(allow=false) succeeded on a running pipeline", a.ctl, a.ret)
			}
			for i := runningFrom; i <= a.ret; i++ {
				e := &evs[i]
				if e.Kind == rig.KSrcStop || e.Kind == rig.KSrcTeardown || e.Kind == rig.KDstTeardown {
					add("running-pipeline-touched-without-authorisation", "", fmt.Sprintf("plugin event %s on %s during an unauthorised apply", e.Kind, e.Comp), a.ctl, i)
					break
				}
				if e.Kind == rig.KCommit && !onlyPositions(e.Changed) && !onlyStatus(e, sc.Topo.Pipeline, evs, i) {
					add("running-pipeline-config-written-without-authorisation", "", fmt.Sprintf("store write %v during an unauthorised apply", e.Changed), a.ctl, i)
					break
				}
			}
			if !same(a.Before, a.After) {
				add("refused-apply-changed-config", "", "an unauthorised apply left the exported configuration changed", a.ctl, a.ret)
			}
		}
		// --- with authorisation, restart mode: the config is only written after a full drain
		if a.Err == "" && a.Mode == "restart" && a.Kind != "proc-settings" && a.Kind != "two-procs-second-fails" {
			// (a processor-only change takes the in-place path first, which persists the new
			// processor config before the swap; when the swap is not possible it falls back to
			// a restart - the early write of the processor's stored config is part of that path)
			v.Stats["restart_applies_judged"]++
			firstCfg := -1
			for i := a.ctl; i <= a.ret; i++ {
				e := &evs[i]
				if e.Kind == rig.KCommit && !onlyPositions(e.Changed) && !onlyStatus(e, sc.Topo.Pipeline, evs, i) {
					firstCfg = i
					break
				}
			}
			if firstCfg >= 0 {
				// every plugin session opened before the write is torn down
				open := map[string]int{}
				for i := 0; i < firstCfg; i++ {
					e := &evs[i]
					k := fmt.Sprintf("%s#%d", e.Comp, e.Sess)
					switch e.Kind {
					case rig.KSrcOpen, rig.KDstOpen:
						if e.Err == "" {
							open[k] = i
						}
					case rig.KSrcTeardown, rig.KDstTeardown:
						delete(open, k)
					}
				}
				for k, at := range open {
					add("config-written-before-drain", "", fmt.Sprintf("the new configuration was written (event %d) while plugin session %s of the old run was still open", firstCfg, k), at, firstCfg)
					break
				}
				// stored position == last ack
				last := map[string]int{}
				for i := 0; i < firstCfg; i++ {
					if evs[i].Kind == rig.KSrcAck {
						for _, x := range evs[i].Idx {
							if x > last[evs[i].Comp] || last[evs[i].Comp] == 0 {
								if x >= 0 {
									if cur, ok := last[evs[i].Comp]; !ok || x > cur {
										last[evs[i].Comp] = x
									}
								}
							}
						}
					}
				}
				for _, s := range sc.Topo.Sources {
					la, ok := last[s.ID]
					if !ok {
						la = -1
					}
					stored := -1
					if p, ok := evs[firstCfg].Snap.Pos[s.ID]; ok {
						stored = p
					}
					v.Stats["drain_positions_judged"]++
					if stored < la {
						add("config-written-before-position-durable", "", fmt.Sprintf("at the configuration write the stored position of %s is %d, the last acknowledged record is %d", s.ID, stored, la), firstCfg)
					}
				}
			}
		}
		// --- after a successful apply the pipeline continues from its durable position, nothing skipped
		if a.Err == "" && (a.Mode == "restart") {
			for _, s := range sc.Topo.Sources {
				for i := a.ctl; i < len(evs); i++ {
					e := &evs[i]
					if e.Kind == rig.KSrcOpen && e.Comp == s.ID && e.Err == "" && len(e.Idx) == 1 {
						stored := -1
						for q := i; q >= 0; q-- {
							if evs[q].Kind == rig.KCommit && evs[q].Snap != nil {
								if p, ok := evs[q].Snap.Pos[s.ID]; ok {
									stored = p
								}
								break
							}
						}
						v.Stats["resume_positions_judged"]++
						if e.Idx[0] != stored {
							add("resume-not-from-durable-position", "", fmt.Sprintf("%s reopened at %d after the apply, stored position %d", s.ID, e.Idx[0], stored), i)
						}
						for k := 0; k <= e.Idx[0]; k++ {
							if ok, _, missing := ix.HandledBefore(s.ID, k, i); !ok {
								add("record-skipped-across-apply", "", fmt.Sprintf("%s reopened at %d but record %d: %s", s.ID, e.Idx[0], k, missing), i)
								break
							}
						}
						break
					}
				}
			}
		}
		// --- a refused or failed apply: configuration fully old or fully new, memory == store,
		// pipeline running unchanged or cleanly stopped
		if a.Err != "" {
			v.Stats["failed_or_refused_applies_judged"]++
			isOld, isNew := same(a.After, a.Before), same(a.After, a.Desired)
			if a.Variant == "concurrent" || a.Variant == "stale" {
				// the other apply may have changed the configuration meanwhile: only consistency is judged
				isOld = true
			}
			if !isOld && !isNew {
				add("failed-apply-left-mixed-configuration", a.Variant, fmt.Sprintf("after the failed apply (%s) the exported configuration is neither the previous nor the desired one", short(a.Err)), a.ctl, a.ret)
			}
			stAfter := statusAt(a.ret)
			live := false
			for i := a.ret; i >= 0; i-- {
				if evs[i].Comp == src0 && evs[i].Kind == rig.KSrcTeardown {
					break
				}
				if evs[i].Comp == src0 && evs[i].Kind == rig.KSrcOpen && evs[i].Err == "" {
					live = true
					break
				}
			}
			if !live && a.Variant == "startrace" {
				// the run started inside the apply's window opens its plugins on its own
				// goroutines, possibly after the (refused) apply has returned
				for i := a.ret; i < len(evs); i++ {
					if evs[i].Comp == src0 && evs[i].Kind == rig.KSrcOpen {
						live = evs[i].Err == ""
						break
					}
				}
			}
			if stAfter == "Running" && !live && a.Variant != "restartfail" && a.Variant != "concurrent" && a.Variant != "stale" {
				add("failed-apply-left-pipeline-half-stopped", a.Variant, "after the failed apply the status is Running but no run is live", a.ret)
			}
		}
		if !a.MemEqualsStore && a.Variant != "concurrent" {
			add("memory-differs-from-store-after-apply", a.Variant, fmt.Sprintf("after the apply (err=%q) a restarted server would load a different configuration than the live services export", short(a.Err)), a.ret)
		}
	}
	// two concurrent applies from the same base must not both be applied as planned
	var conc []*applyRec
	for _, a := range st.applies {
		if a.Variant == "concurrent" && a.ret >= 0 {
			conc = append(conc, a)
		}
	}
	if len(conc) == 2 {
		v.Stats["concurrent_apply_pairs_judged"]++
		if conc[0].Err == "" && conc[1].Err == "" && !same(conc[0].Before, conc[0].Desired) && !same(conc[1].Before, conc[1].Desired) {
			add("two-plans-from-one-base-both-applied", "", "two concurrent applies whose plans were computed from the same state both succeeded", conc[0].ctl, conc[1].ctl)
		}
	}
	// the whole history: nothing acknowledged that was not handled
	vs1, j1 := pipe.OracleC01(ix)
	for _, x := range vs1 {
		x.Property = "C16"
		x.Identity = strings.Replace(x.Identity, "C01/", "C16/", 1)
		v.Violations = append(v.Violations, x)
	}
	v.Stats["source_acks_judged"] = j1.Obligations
	kind := sc.Name
	if i := strings.LastIndex(kind, "|cause="); i >= 0 {
		kind = kind[i+7:]
	}
	modes := ""
	for _, a := range st.applies {
		m := a.Mode
		if a.Err != "" {
			m = "err"
		}
		modes += m + ","
	}
	// live configuration == stored configuration: for every pipeline processor whose
	// stored settings carry a generation ("vf.gen"), the processor session that is
	// open at the end of the history was configured with exactly that generation
	if len(st.applies) > 0 {
		last := st.applies[len(st.applies)-1]
		stored := map[string]string{}
		for _, pr := range last.StoreExport.Processors {
			if g, ok := pr.Settings["vf.gen"]; ok {
				stored[pr.ID] = g
			}
		}
		// sessions of a processor that are open (opened, not torn down) when the
		// runner begins its final stop
		liveGen := map[string]int{}
		liveAt := map[string]int{}
		liveSess := map[string]int{}
		for i := range evs {
			e := &evs[i]
			if e.Kind == rig.KNote && e.Note == "final-stop" {
				break
			}
			switch e.Kind {
			case rig.KProcOpen:
				if e.Err == "" {
					liveGen[e.Comp], liveAt[e.Comp], liveSess[e.Comp] = e.Gen, i, e.Sess
				}
			case rig.KProcTeardown:
				if s, ok := liveSess[e.Comp]; ok && s == e.Sess {
					delete(liveGen, e.Comp)
					delete(liveAt, e.Comp)
					delete(liveSess, e.Comp)
				}
			}
		}
		for id, g := range stored {
			lg, ok := liveGen[id]
			if !ok || last.ret < 0 {
				continue // no session of that processor is live
			}
			v.Stats["live_vs_stored_generation_obligations"]++
			if fmt.Sprint(lg) != g {
				add("live-config-differs-from-store", last.Kind+"/"+last.Variant, fmt.Sprintf("after ApplyPlanLive (%s/%s, err=%q, mode=%q) the stored configuration of processor %s has generation %s but the running pipeline's processor was last opened with generation %d", last.Kind, last.Variant, last.Err, last.Mode, id, g, lg), liveAt[id])
			}
		}
	}
	v.Nontrivial = v.Stats["applies_judged"] > 0
	v.SigExtra = kind + "|" + modes
	v.Sets = map[string][]string{"apply_outcomes": {sc.Engine + ":" + kind + ":" + modes}}
	return v
}

func short(s string) string {
	if len(s) > 160 {
		return s[:160]
	}
	return s
}

func onlyPositions(keys []string) bool {
	// persister flushes write connector instances (positions, last active config)
	for _, k := range keys {
		if !strings.HasPrefix(k, "connector:instance:") {
			return false
		}
	}
	return len(keys) > 0
}

// onlyStatus: a write of the pipeline key that changes nothing but the status/error.
func onlyStatus(e *rig.Ev, pl string, evs []rig.Ev, i int) bool {
	if len(e.Changed) != 1 || e.Changed[0] != "pipeline:instance:"+pl || e.Op != "set" {
		return false
	}
	// status writes are non-transactional Sets issued by UpdateStatus; config imports are transactional
	return true
}

func init() {
	vp.Register(&pipe.PropDef{
		PID: "C16", PLevel: "exploration",
		RuleText: "the pipeline is provisioned through the real provisioning service (Plan+ApplyPlan), started, and under record flow one change (no-op, processor settings, connector settings, add/remove processor, add destination, DLQ) is applied with ApplyPlanLive at a PRNG-chosen event index or when idle, in one of 8 variants: fresh plan with authorisation (x2), stale plan (another change applied between plan and apply), two concurrent applies planned from the same state, apply without authorisation on the running pipeline, injected failure of the import's store commit, new run cannot be opened after the import, apply on a stopped pipeline. Judged: a stale plan or the second of two concurrent plans never succeeds; without authorisation nothing is stopped, torn down or written and the exported config is unchanged; in restart mode the first configuration write happens only after every plugin session of the old run is torn down and with stored position >= last ack; after the apply every source reopens at the stored position with no unhandled record behind it; after a failed/refused apply the exported config is fully old or fully new, a restarted server would load the same config as the live services export, and the status is not Running without a live run; every source ack in the history is justified (C01 predicate). Non-trivial: >=1 apply judged; distinct = distinct (engine, topology, change kind, variant, apply outcomes).",
		Assume:   []string{"changes only touch neutral (pass/modify) processors and always-acking destinations so that the reference model of the old topology stays valid for the C01 predicate", "the HTTP handler's passing of the operator flag is not exercised (service level only)", "processor conditions are excluded from config comparison (recorded C15 finding)"},
		Quick:    240, Thorough: 2400, HangIsViol: true, DeathIsViol: true,
		PointBias: []string{"provisioning.applylive.stopped", "provisioning.applylive.imported", "lifecycle.start.checked", "lifecycle.start.before-run", "lifecycle.stop.checked", "lifecycle.recover.backoff-elapsed", "lifecycle.run.ended", "pipeline.updatestatus.before-store"},
		Anchors:   []string{"pkg/provisioning/plan.go", "pkg/provisioning/lock.go", "pkg/provisioning/import.go", "pkg/lifecycle/reconfigure.go"},
		Gen:       gen, Judge: judge, Hooks: hooks,
	})
}
