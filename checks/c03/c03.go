// Package c03: a crash at any instant loses no record (at-least-once across restart).
//
// Crash-point enumeration over snapshots: every run records a snapshot of the
// store at every commit. A crash at log prefix k leaves the store at the last
// snapshot committed at or before k. (1) For ALL prefixes: no source ack may
// precede a commit that holds that position (the upstream was never told to
// discard beyond what is durable) — arithmetic over the log. (2) For a sample
// of distinct snapshots per run a FRESH engine is started on the snapshot and
// the position the source plugin is re-opened with is recorded: no record at or
// before it may lack a terminal outcome in the prefix of the original history
// that ends at that commit.
package c03

import (
	"context"
	"fmt"
	"sort"
	"time"

	"verif/internal/pipe"
	"verif/internal/rig"
	"verif/internal/vp"
)

func gen(seed int64, tier string, idx int) *pipe.Scenario {
	g := pipe.NewGen(seed, idx)
	o := pipe.GenOpts{
		MaxSources: 2, MaxDests: 2, MaxProcs: 1, MinRecords: 15, MaxRecords: 90,
		AllowFilter: true, AllowDstNack: true, AllowProcErr: true, AllowMulti: true, DLQWindows: []int{0, 0, 8},
	}
	sc := g.Scenario(o)
	sc.KeepSnaps = true
	sc.PersistDelayUs = []int{100, 500, 2000, 8000}[g.R.Intn(4)]
	sc.PersistBundle = []int{1, 2, 3, 7, 20}[g.R.Intn(5)]
	switch g.R.Intn(5) {
	case 0:
		sc.Steps = append(sc.Steps, pipe.Step{AtEvent: 30 + g.R.Intn(300), Op: "forcestop"})
	case 1:
		sc.Steps = append(sc.Steps, pipe.Step{AtEvent: 30 + g.R.Intn(300), Op: "stopwait"})
	case 2:
		sc.Faults = append(sc.Faults, pipe.Fault{Kind: "commit", KeyPrefix: "connector:instance:", Every: int64(3 + g.R.Intn(6)), Action: "fail"})
	}
	return sc
}

// restart starts a fresh engine on snapshot snap and returns the index each
// source is re-opened with (-1 = from the beginning; -9 = never opened).
func restart(sc *pipe.Scenario, snap map[string][]byte) (map[string]int, string) {
	r, err := rig.New(rig.Config{Engine: sc.Engine, Snapshot: snap, PersistDelay: time.Millisecond, PersistBundle: 5})
	if err != nil {
		return nil, "rig: " + err.Error()
	}
	ctx := context.Background()
	r.ApplyScripts(sc.Topo)
	// the upstream has nothing new: we only observe the position handed to Open
	if err := r.InitServices(ctx); err != nil {
		return nil, "init services on snapshot: " + err.Error()
	}
	status := r.Status(sc.Topo.Pipeline)
	if status == "?" {
		return nil, ""
	}
	_ = r.Ctl("Init", "", func() error { return r.LC.Init(ctx) })
	if st := r.Status(sc.Topo.Pipeline); st != "Running" {
		// a pipeline that was not running at the crash is started by its user
		if err := r.Start(ctx, sc.Topo.Pipeline); err != nil {
			r.Log.Close()
			return nil, "" // e.g. not startable in this state: nothing reopened
		}
	}
	want := len(sc.Topo.Sources)
	r.Log.WaitFor(func(evs []rig.Ev) bool {
		n := 0
		for i := range evs {
			if evs[i].Kind == rig.KSrcOpen {
				n++
			}
		}
		return n >= want
	}, 10*time.Second)
	done := make(chan struct{})
	go func() {
		defer close(done)
		if err := r.Stop(ctx, sc.Topo.Pipeline, true); err == nil {
			_ = r.WaitPipeline(sc.Topo.Pipeline)
		}
	}()
	select {
	case <-done:
	case <-time.After(20 * time.Second):
	}
	evs := r.Log.Close()
	out := map[string]int{}
	for i := range evs {
		e := &evs[i]
		if e.Kind == rig.KSrcOpen && e.Err == "" {
			if _, seen := out[e.Comp]; !seen && len(e.Idx) == 1 {
				out[e.Comp] = e.Idx[0]
			}
			if len(e.Raw) > 0 {
				out[e.Comp] = -8
			}
		}
	}
	return out, ""
}

func judge(out *pipe.Outcome, ix *pipe.Index) pipe.Verdict {
	var v pipe.Verdict
	v.Stats = map[string]int64{}
	// (1) all prefixes: acks never beyond the durable position at that prefix
	vs2, j2 := pipe.OracleC02(ix)
	for _, x := range vs2 {
		if x.Class == "ack-before-durable" || x.Class == "stored-position-regressed" || x.Class == "commit-past-unhandled" {
			x.Property = "C03"
			x.Identity = "C03/" + x.Class + "/" + out.Sc.Engine
			x.Detail = "crash-prefix condition: " + x.Detail
			v.Violations = append(v.Violations, x)
		}
	}
	v.Stats["prefix_ack_obligations"] = j2.ByHow["ack-covered-by-commit"]
	v.Stats["prefix_commit_obligations"] = j2.ByHow["commit-covers-handled"]
	v.Stats["crash_prefixes_covered"] = int64(len(out.Evs))

	// (2) restart on a sample of distinct snapshots
	type cand struct {
		ev   int
		snap int
		key  string
	}
	var cands []cand
	seen := map[string]bool{}
	started := false
	for _, ci := range ix.Commits {
		e := &out.Evs[ci]
		if e.Snap == nil || e.Snap.ID >= len(out.Snaps) {
			continue
		}
		if e.Snap.Status[out.Sc.Topo.Pipeline] == "Running" {
			started = true
		}
		if !started {
			continue
		}
		k := fmt.Sprint(e.Snap.Pos, e.Snap.Status)
		if seen[k] {
			continue
		}
		seen[k] = true
		cands = append(cands, cand{ev: ci, snap: e.Snap.ID, key: k})
	}
	v.Stats["distinct_snapshots"] = int64(len(cands))
	// sample: first, last and up to 4 evenly spread in between
	var pick []cand
	if len(cands) <= 6 {
		pick = cands
	} else {
		for i := 0; i < 6; i++ {
			pick = append(pick, cands[i*(len(cands)-1)/5])
		}
	}
	posClasses := map[string]bool{}
	for _, c := range pick {
		opened, inc := restart(out.Sc, out.Snaps[c.snap])
		if inc != "" {
			v.Violations = append(v.Violations, vp.Violation{
				Property: "C03", Class: "restart-failed",
				Identity: "C03/restart-failed/" + out.Sc.Engine,
				Detail:   fmt.Sprintf("a fresh engine could not be initialised on the snapshot committed at event %d: %s", c.ev, inc),
				Witness:  rig.Excerpt(out.Evs, []int{c.ev}, 6),
			})
			continue
		}
		v.Stats["restarts_on_snapshots"]++
		stored := out.Evs[c.ev].Snap.Pos
		srcs := make([]string, 0, len(opened))
		for s := range opened {
			srcs = append(srcs, s)
		}
		sort.Strings(srcs)
		for _, src := range srcs {
			q := opened[src]
			v.Stats["reopen_positions_judged"]++
			sp, ok := stored[src]
			if !ok {
				sp = -1
			}
			switch {
			case q == sp:
				posClasses["reopen==durable"] = true
			case q < sp:
				posClasses["reopen<durable"] = true
				v.Stats["reopened_before_durable_observed"]++
			default:
				posClasses["reopen>durable"] = true
			}
			if q == -8 {
				v.Violations = append(v.Violations, vp.Violation{
					Property: "C03", Class: "reopen-foreign-position", Identity: "C03/reopen-foreign-position/" + out.Sc.Engine,
					Detail: fmt.Sprintf("source %s reopened with a position it never produced after a crash at event %d", src, c.ev),
				})
				continue
			}
			// no record at or before q may lack a terminal outcome in the prefix
			for k := 0; k <= q; k++ {
				v.Stats["reopen_record_obligations"]++
				if ok, _, missing := ix.HandledBefore(src, k, c.ev+1); !ok {
					v.Violations = append(v.Violations, vp.Violation{
						Property: "C03", Class: "reopened-past-unhandled",
						Identity: "C03/reopened-past-unhandled/" + out.Sc.Engine,
						Detail:   fmt.Sprintf("crash right after the commit at event %d (stored position %d): restarted engine reopens %s at %d, but record %d: %s", c.ev, sp, src, q, k, missing),
						Witness:  rig.Excerpt(out.Evs, []int{c.ev}, 10),
					})
					break
				}
			}
		}
	}
	for k := range posClasses {
		v.Sets = map[string][]string{"reopen_classes": append(v.Sets["reopen_classes"], k)}
	}
	v.Nontrivial = v.Stats["restarts_on_snapshots"] >= 2 && v.Stats["prefix_ack_obligations"] > 0
	ctl := "run"
	for _, s := range out.Sc.Steps {
		ctl = s.Op
	}
	v.SigExtra = fmt.Sprintf("%s|snaps%d", ctl, min(len(cands), 8))
	return v
}

// prop adds the SIGKILL cases on top of the in-process cases.
type prop struct {
	*pipe.PropDef
	skQuick, skThorough int
}

func (p *prop) sk(tier string) int {
	if tier == "thorough" {
		return p.skThorough
	}
	return p.skQuick
}

func (p *prop) NumCases(tier string) int { return p.PropDef.NumCases(tier) + p.sk(tier) }

func (p *prop) RunCase(seed int64, tier string, idx int) vp.CaseResult {
	base := p.PropDef.NumCases(tier)
	if idx >= base {
		return runSigkill(seed, tier, idx-base)
	}
	return p.PropDef.RunCase(seed, tier, idx)
}

func init() {
	vp.Register(&prop{skQuick: 16, skThorough: 120, PropDef: &pipe.PropDef{
		PID: "C03", PLevel: "fault_enumeration",
		RuleText: "scenario = both engines, 1-2 sources x 1-2 destinations with filters/errors/splits/nacks, small persister thresholds, optional failing commits, stop/force-stop mid-flow; the run records a store snapshot at every commit. Crash points: EVERY prefix of the recorded history is judged arithmetically (no source ack beyond the position held by the last commit of the prefix; no commit past an unhandled record); additionally a fresh engine (fresh services, Init, lifecycle Init / user Start) is restarted on up to 6 distinct (position, status) snapshots per run; on top of that a REAL SIGKILL tier (16 cases quick, 240 thorough): a child process runs the scenario on a badger directory, journaling every boundary event as it happens, the parent SIGKILLs it when the journal reaches a PRNG-chosen length (60-560 events), a second child reopens the directory, initialises fresh services and reports the stored and the reopened positions: no journaled source ack may exceed the stored position and no record at or before the reopened position may lack a terminal outcome in the journal and the position handed to the source plugin's Open is judged: no record at or before it may lack a terminal outcome within the prefix. Non-trivial: >=2 restarts and >=1 ack judged; distinct = distinct (engine, topology, control kind, number of distinct snapshots).",
		Assume:   []string{"an in-process snapshot models a crash as 'store = last successful commit'; torn writes inside the store engine are out of scope (the store's own crash atomicity is trusted)", "the restarted engine uses the same plugin scripts; reopen earlier than the durable position is an observation, not a violation"},
		Quick:    160, Thorough: 1600,
		PointBias: []string{"connector.persister.before-commit", "connector.persister.after-commit", "connector.persister.callback", "connector.source.ack"},
		Anchors:   []string{"pkg/connector/source.go", "pkg/connector/persister.go", "pkg/connector/store.go", "pkg/connector/service.go", "pkg/pipeline/service.go", "pkg/pipeline/store.go"},
		Gen:       gen, Judge: judge,
	}})
}
