package c03

import (
	"bufio"
	"context"
	"encoding/json"
	"fmt"
	"os"
	"os/exec"
	"path/filepath"
	"syscall"
	"time"

	"github.com/conduitio/conduit-commons/database/badger"
	"github.com/conduitio/conduit/pkg/lifecycle"
	"github.com/rs/zerolog"

	"verif/internal/pipe"
	"verif/internal/rig"
	"verif/internal/vp"
)

// SIGKILL tier: a child process runs the scenario on a badger directory and
// journals every boundary event to a file as it happens; the parent kills it
// with SIGKILL when the journal reaches a seed-determined length, restarts a
// child on the same directory and judges  journal (+) reopen positions  with the
// same oracle as the in-process tier.

func init() {
	vp.ChildModes["c03run"] = childRun
	vp.ChildModes["c03restart"] = childRestart
}

func loadScenario() *pipe.Scenario {
	b, err := os.ReadFile(os.Getenv("C03_SCENARIO"))
	if err != nil {
		os.Exit(3)
	}
	var sc pipe.Scenario
	if json.Unmarshal(b, &sc) != nil {
		os.Exit(3)
	}
	return &sc
}

func childRun() {
	sc := loadScenario()
	db, err := badger.New(zerolog.Nop(), os.Getenv("C03_DIR"))
	if err != nil {
		fmt.Fprintln(os.Stderr, "badger:", err)
		os.Exit(3)
	}
	jf, err := os.OpenFile(os.Getenv("C03_JOURNAL"), os.O_CREATE|os.O_WRONLY|os.O_APPEND, 0o644)
	if err != nil {
		os.Exit(3)
	}
	r, err := rig.New(rig.Config{Engine: sc.Engine, DB: db, Journal: jf,
		PersistDelay: time.Duration(sc.PersistDelayUs) * time.Microsecond, PersistBundle: sc.PersistBundle,
		Recovery: lifecycle.ErrRecoveryCfg{MinDelay: 5 * time.Millisecond, MaxDelay: 20 * time.Millisecond, BackoffFactor: 2, MaxRetries: 2, MaxRetriesWindow: time.Minute}})
	if err != nil {
		os.Exit(3)
	}
	ctx := context.Background()
	if err := r.Build(ctx, sc.Topo); err != nil {
		fmt.Fprintln(os.Stderr, "build:", err)
		os.Exit(3)
	}
	for i, s := range sc.Topo.Sources {
		r.Plugins.Source(s.ID).Allow(sc.Records[i])
	}
	r.Log.Append(rig.Ev{Kind: rig.KNote, Note: "scenario-start"})
	_ = r.Start(ctx, sc.Topo.Pipeline)
	// run until killed; if everything is acked first, stop gracefully and exit
	deadline := time.Now().Add(40 * time.Second)
	for time.Now().Before(deadline) {
		time.Sleep(5 * time.Millisecond)
	}
}

func childRestart() {
	sc := loadScenario()
	db, err := badger.New(zerolog.Nop(), os.Getenv("C03_DIR"))
	if err != nil {
		fmt.Println(`{"error":"badger reopen: ` + err.Error() + `"}`)
		return
	}
	r, err := rig.New(rig.Config{Engine: sc.Engine, DB: db, PersistDelay: time.Millisecond, PersistBundle: 5})
	if err != nil {
		fmt.Println(`{"error":"rig"}`)
		return
	}
	ctx := context.Background()
	r.ApplyScripts(sc.Topo)
	if err := r.InitServices(ctx); err != nil {
		b, _ := json.Marshal(map[string]any{"error": "init services after SIGKILL: " + err.Error()})
		fmt.Println(string(b))
		return
	}
	stored := rig.DecodeSnap(r.DB.Snapshot())
	statusBefore := r.Status(sc.Topo.Pipeline)
	_ = r.LC.Init(ctx)
	if st := r.Status(sc.Topo.Pipeline); st != "Running" && st != "?" {
		_ = r.Start(ctx, sc.Topo.Pipeline)
	}
	want := len(sc.Topo.Sources)
	r.Log.WaitFor(func(evs []rig.Ev) bool {
		n := 0
		for i := range evs {
			if evs[i].Kind == rig.KSrcOpen {
				n++
			}
		}
		return n >= want
	}, 10*time.Second)
	evs := r.Log.Snapshot()
	opened := map[string]int{}
	for i := range evs {
		e := &evs[i]
		if e.Kind == rig.KSrcOpen && e.Err == "" && len(e.Idx) == 1 {
			if _, ok := opened[e.Comp]; !ok {
				opened[e.Comp] = e.Idx[0]
			}
		}
	}
	b, _ := json.Marshal(map[string]any{"opened": opened, "stored": stored.Pos, "status_after_init": statusBefore})
	fmt.Println(string(b))
	os.Stdout.Sync()
	// the process simply exits: nothing after this point is judged
}

// runSigkill is one SIGKILL case, executed by the worker process.
func runSigkill(seed int64, tier string, idx int) vp.CaseResult {
	res := vp.CaseResult{Stats: map[string]int64{}, Sets: map[string][]string{}}
	g := pipe.NewGen(seed, idx+700000)
	sc := gen(seed, tier, idx+700000)
	sc.Steps, sc.Faults = nil, nil
	for i := range sc.Records {
		sc.Records[i] += 400 // keep the flow going until the kill
	}
	for i := range sc.Topo.Sources {
		sc.Topo.Sources[i].Src.PaceUs = 300
	}
	killAt := 60 + g.R.Intn(500) // journal length at which the child is killed
	work := os.Getenv("VERIF_WORKDIR")
	if work == "" {
		work = filepath.Join(vp.Root(), ".work")
	}
	dir := filepath.Join(work, fmt.Sprintf("sk-%d", idx))
	os.RemoveAll(dir)
	os.MkdirAll(filepath.Join(dir, "db"), 0o755)
	defer os.RemoveAll(dir)
	scFile := filepath.Join(dir, "scenario.json")
	b, _ := json.Marshal(sc)
	os.WriteFile(scFile, b, 0o644)
	journal := filepath.Join(dir, "journal.jsonl")
	self, _ := os.Executable()
	env := append(os.Environ(), "C03_SCENARIO="+scFile, "C03_DIR="+filepath.Join(dir, "db"), "C03_JOURNAL="+journal)
	child := exec.Command(self)
	child.Env = append(env, "VERIF_CHILD=c03run")
	if err := child.Start(); err != nil {
		res.Inconclusive = "cannot start child: " + err.Error()
		return res
	}
	// kill when the journal has killAt lines (or after 30 s)
	deadline := time.Now().Add(30 * time.Second)
	for time.Now().Before(deadline) {
		if countLines(journal) >= killAt {
			break
		}
		time.Sleep(2 * time.Millisecond)
	}
	_ = child.Process.Signal(syscall.SIGKILL)
	_ = child.Wait()
	res.Stats["sigkills_delivered"]++
	evs := readJournal(journal)
	if len(evs) < 20 {
		res.Inconclusive = "child produced too little before the kill"
		return res
	}
	restart := exec.Command(self)
	restart.Env = append(env, "VERIF_CHILD=c03restart")
	outB, err := restart.Output()
	var rr struct {
		Error  string         `json:"error"`
		Opened map[string]int `json:"opened"`
		Stored map[string]int `json:"stored"`
	}
	if err != nil || json.Unmarshal(lastLine(outB), &rr) != nil {
		res.Inconclusive = fmt.Sprintf("restart child failed: %v", err)
		return res
	}
	ix := pipe.NewIndex(sc, evs)
	add := func(cl, detail string) {
		res.Violations = append(res.Violations, vp.Violation{Property: "C03", Class: cl, Identity: "C03/sigkill/" + cl + "/" + sc.Engine, Detail: detail,
			Case: map[string]any{"seed": seed, "tier": tier, "index": idx, "kill_at": killAt}, Witness: rig.Excerpt(evs, []int{len(evs) - 1}, 12)})
	}
	if rr.Error != "" {
		add("restart-failed", rr.Error)
		return res
	}
	// upstream was never told to discard beyond what the store durably holds
	for i := range evs {
		e := &evs[i]
		if e.Kind != rig.KSrcAck {
			continue
		}
		for _, x := range e.Idx {
			res.Stats["acks_judged_against_durable_store"]++
			d, ok := rr.Stored[e.Comp]
			if !ok {
				d = -1
			}
			if x > d {
				add("ack-beyond-durable-store", fmt.Sprintf("before the SIGKILL source %s had been acked record %d, but after the kill the store holds position %d", e.Comp, x, d))
				break
			}
		}
	}
	for src, q := range rr.Opened {
		res.Stats["reopen_positions_judged"]++
		if d, ok := rr.Stored[src]; ok && q != d {
			res.Stats["reopen_differs_from_store_observed"]++
		}
		for k := 0; k <= q; k++ {
			res.Stats["reopen_record_obligations"]++
			if ok, _, missing := ix.HandledBefore(src, k, len(evs)); !ok {
				add("reopened-past-unhandled", fmt.Sprintf("after SIGKILL at journal length %d the restarted engine reopens %s at %d, but record %d: %s", len(evs), src, q, k, missing))
				break
			}
		}
	}
	res.Nontrivial = len(rr.Opened) > 0
	res.Sig = fmt.Sprintf("sigkill|%s|%dx%d|k%d", sc.Engine, len(sc.Topo.Sources), len(sc.Topo.Dests), killAt/100)
	res.Stats["events_observed"] = int64(len(evs))
	res.Sets["kill_points"] = []string{fmt.Sprintf("%s:%d", sc.Engine, killAt/25)}
	return res
}

func countLines(path string) int {
	f, err := os.Open(path)
	if err != nil {
		return 0
	}
	defer f.Close()
	n := 0
	buf := make([]byte, 64*1024)
	for {
		k, err := f.Read(buf)
		for _, c := range buf[:k] {
			if c == '\n' {
				n++
			}
		}
		if err != nil {
			break
		}
	}
	return n
}

func readJournal(path string) []rig.Ev {
	f, err := os.Open(path)
	if err != nil {
		return nil
	}
	defer f.Close()
	var evs []rig.Ev
	sc := bufio.NewScanner(f)
	sc.Buffer(make([]byte, 1<<20), 1<<26)
	for sc.Scan() {
		var e rig.Ev
		if json.Unmarshal(sc.Bytes(), &e) != nil {
			break // torn last line
		}
		evs = append(evs, e)
	}
	return evs
}

func lastLine(b []byte) []byte {
	for len(b) > 0 && (b[len(b)-1] == '\n' || b[len(b)-1] == ' ') {
		b = b[:len(b)-1]
	}
	for i := len(b) - 1; i >= 0; i-- {
		if b[i] == '\n' {
			return b[i+1:]
		}
	}
	return b
}
