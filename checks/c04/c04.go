// Package c04: acks reach each source in exactly read order, no gaps, no repeats.
package c04

import (
	"verif/internal/pipe"
	"verif/internal/rig"
	"verif/internal/vp"
)

func gen(seed int64, tier string, idx int) *pipe.Scenario {
	g := pipe.NewGen(seed, idx)
	o := pipe.GenOpts{
		MaxSources: 2, MaxDests: 3, MaxProcs: 2, MinRecords: 10, MaxRecords: 80,
		AllowMulti: true, AllowCut: true, AllowFilter: true, AllowProcErr: true, AllowDstNack: true,
		AllowWorkers: true, AllowCond: true, DLQWindows: []int{0, 0, 0, 8},
	}
	sc := g.Scenario(o)
	// bias: adversarial latency permutations across destinations, DLQ slower than destinations
	for i := range sc.Topo.Dests {
		switch g.R.Intn(3) {
		case 0:
			sc.Topo.Dests[i].Dst.LatencyUs = []int{0, 0, 0, 900, 2500}
		case 1:
			sc.Topo.Dests[i].Dst.LatencyUs = []int{100 * (i + 1), 0, 1200}
		}
	}
	if g.R.Intn(2) == 0 {
		sc.Topo.DLQ.LatencyUs = []int{1500, 3000, 0}
	}
	if idx%5 == 2 {
		// batching destinations: one response carries the acks of every write that was
		// waiting behind it (no PRNG draw: the other cases stay what they were)
		for i := range sc.Topo.Dests {
			sc.Topo.Dests[i].Dst.CoalesceAcks = true
		}
	}
	// v1: force several workers with per-record latencies on one processor
	if sc.Engine == "v1" && g.R.Intn(2) == 0 {
		for i := range sc.Topo.PipeProcs {
			sc.Topo.PipeProcs[i].Workers = 4
			sc.Topo.PipeProcs[i].Script.LatencyUs = []int{0, 50, 400, 1500}
		}
	}
	if idx%8 == 6 {
		g.FanoutUnabsorbed(sc)
		return sc
	}
	if idx%16 == 13 {
		// a record whose dead-lettering fails while the records behind it are
		// already in flight: none of them may be acknowledged past it
		sc.Topo.Sources = sc.Topo.Sources[:1]
		sc.Records = sc.Records[:1]
		if sc.Records[0] < 20 {
			sc.Records[0] = 20
		}
		sc.Topo.Sources[0].Procs = nil
		sc.Topo.Dests[0].Procs = nil
		sc.Cond = nil
		// ... including records a processor filters out, which are acknowledged by
		// the processor node itself, not by the destination's acker
		pf := rig.ProcSpec{ID: "pf"}
		pf.Script.Seed = g.R.Uint64()
		pf.Script.FilterPm = 400
		sc.Topo.PipeProcs = []rig.ProcSpec{pf}
		g.PartialDLQFailure(sc)
		sc.Topo.Dests[0].Dst.LatencyUs = []int{[]int{0, 2000, 6000}[g.R.Intn(3)]}
		return sc
	}
	switch g.R.Intn(5) {
	case 0:
		sc.Steps = append(sc.Steps, pipe.Step{AtEvent: 20 + g.R.Intn(300), Op: "stopwait"})
	case 1:
		d := &sc.Topo.Dests[g.R.Intn(len(sc.Topo.Dests))]
		d.Dst.Shape = map[int]string{1 + g.R.Intn(20): "streamerr"}
		d.Dst.ShapeSess = 1
	}
	return sc
}

func judge(out *pipe.Outcome, ix *pipe.Index) pipe.Verdict {
	var v pipe.Verdict
	vs, j := pipe.OracleC04(ix)
	v.Violations = vs
	// the stored position is the durable form of the ack sequence: it must not skip
	// a record that was neither delivered, dead-lettered nor filtered
	vs02, _ := pipe.OracleC02(ix)
	for _, x := range vs02 {
		if x.Class == "commit-past-unhandled" {
			x.Property = "C04"
			x.Identity = "C04/stored-position-skips-record/" + out.Sc.Engine
			v.Violations = append(v.Violations, x)
		}
	}
	v.AddJudged("acks_in_order_", j)
	for i := range out.Evs {
		e := &out.Evs[i]
		if e.Kind == rig.KDstAck && e.Role == "dst" && len(e.Acks) > 1 && out.Sc.Engine == "v1" {
			v.Stats["default_engine_destination_responses_carrying_several_acks"]++
		}
	}
	v.Nontrivial = j.Obligations >= 5
	v.SigExtra = pipe.CompletionOrderClass(out.Evs)
	v.Sets = map[string][]string{"completion_orders": {pipe.CompletionOrderSig(out.Evs)}}
	return v
}

func init() {
	vp.Register(&pipe.PropDef{
		PID: "C04", PLevel: "exploration",
		RuleText: "scenario as for C01, biased to 3 destinations with adversarial latency classes, 4 parallel processor workers with per-record latencies (default engine), slow DLQ, mixed ack/nack/filter outcomes, stop and destination stream failure mid-delivery; every ack position received by a source plugin is one obligation (compared with the emit sequence of the same plugin session). Non-trivial: >=5 acks judged; distinct = distinct (engine, topology shape, destination completion-order class).",
		Assume:   []string{"positions are minted by the fake source and decode to the emit index", "an ack is logged after the plugin received it, an emit before it is handed to the engine"},
		Quick:    320, Thorough: 3200,
		PointBias: []string{"funnel.worker.ack", "funnel.worker.nack", "funnel.multiack.ack", "funnel.multiack.nack", "connector.source.ack", "stream.sourceacker.ack", "stream.sourceacker.nack", "stream.fanout.ack", "connector.persister.callback"},
		Anchors:   []string{"pkg/lifecycle/stream/source_acker.go", "pkg/lifecycle/stream/fanout.go", "pkg/lifecycle/stream/parallel.go", "pkg/lifecycle/stream/fanin.go", "pkg/lifecycle-poc/funnel/worker.go", "pkg/lifecycle-poc/funnel/run_ledger.go", "pkg/connector/source.go"},
		Gen:       gen, Judge: judge,
	})
}
