// Package c06: graceful stop drains: nothing half-handled, acks delivered, position persisted.
package c06

import (
	"fmt"
	"strings"
	"sync"
	"time"
	"verif/internal/rig"

	"verif/internal/pipe"
	"verif/internal/vp"
)

// hooks: the family finished-source-callback-held holds, from a harness action at the
// scheduling point in front of the persist callbacks, the callbacks of the flush
// generation that made the LAST position of the finished source s0 durable, while
// the other source keeps flowing (its later flush generations complete meanwhile),
// and requests the graceful stop inside that hold. The stop has to wait for the held
// generation: s0's last acks are delivered before s0 is torn down.
func hooks(sc *pipe.Scenario) *pipe.Hooks {
	if !strings.Contains(sc.Name, "finished-source-callback-held") {
		return nil
	}
	last := sc.Records[0] - 1
	return &pipe.Hooks{
		AfterBuild: func(r *rig.Rig, sc *pipe.Scenario) {
			if r.Points == nil {
				return
			}
			var mu sync.Mutex
			var trig time.Time
			r.Points.On("connector.persister.callback", func() {
				mu.Lock()
				if trig.IsZero() {
					// has a commit made s0's last position durable, its ack still undelivered?
					durable, acked := false, false
					for _, e := range r.Log.Snapshot() {
						if e.Kind == rig.KCommit && e.Snap != nil && e.Snap.Pos["s0"] == last {
							durable = true
						}
						if e.Kind == rig.KSrcAck && e.Comp == "s0" {
							for _, x := range e.Idx {
								if x == last {
									acked = true
								}
							}
						}
					}
					if !durable || acked {
						mu.Unlock()
						return
					}
					trig = time.Now()
					r.Log.Append(rig.Ev{Kind: rig.KNote, Note: "persist callbacks held"})
				}
				held := time.Since(trig) < time.Millisecond // the callbacks of one generation start together
				mu.Unlock()
				if held {
					time.Sleep(80 * time.Millisecond)
				}
			})
		},
		Op: func(r *rig.Rig, sc *pipe.Scenario, op string) bool {
			if op != "await-held" {
				return false
			}
			r.Log.WaitFor(func(evs []rig.Ev) bool {
				for i := len(evs) - 1; i >= 0; i-- {
					if evs[i].Kind == rig.KNote && evs[i].Note == "persist callbacks held" {
						return true
					}
				}
				return false
			}, 10*time.Second)
			return true
		},
	}
}

func gen(seed int64, tier string, idx int) *pipe.Scenario {
	g := pipe.NewGen(seed, idx)
	o := pipe.GenOpts{
		MaxSources: 3, MaxDests: 3, MaxProcs: 2, MinRecords: 20, MaxRecords: 200,
		AllowFilter: true, AllowWorkers: true, AllowCond: true, AllowMulti: true, // no cut-short: combined with a split before the fan-out the engine refuses the batch (documented), the pipeline would not be healthy

		DLQWindows: []int{0}, Healthy: true,
	}
	sc := g.Scenario(o)
	if idx%5 == 1 {
		// batching destinations: one response carries the acks of every write that
		// was waiting (with a latency class, several writes pile up behind a response)
		for i := range sc.Topo.Dests {
			sc.Topo.Dests[i].Dst.CoalesceAcks = true
			if len(sc.Topo.Dests[i].Dst.LatencyUs) == 0 {
				sc.Topo.Dests[i].Dst.LatencyUs = []int{0, 50, 300}
			}
		}
	}
	// the stop request arrives at every class of instant: during start-up, mid-read,
	// batch in flight, destination acks pending (latency), debounce timer armed, idle
	at := 0
	switch g.R.Intn(5) {
	case 0:
		at = g.R.Intn(12) // start-up
	case 1, 2:
		at = 20 + g.R.Intn(200) // mid-flow
	case 3:
		at = 100 + g.R.Intn(600)
	case 4:
		at = -1 // idle (everything acked)
	}
	if idx%10 == 7 {
		// a first stop request is abandoned by its caller (deadline of a few ms)
		// while the source node is busy handing a record to a slow (healthy)
		// processor; the stop is then repeated without deadline and has to complete
		// like any other
		slow := rig.ProcSpec{ID: "pslow"}
		slow.Script.LatencyUs = []int{[]int{120000, 200000}[g.R.Intn(2)]}
		sc.Topo.Sources = sc.Topo.Sources[:1]
		sc.Records = []int{12 + g.R.Intn(10)}
		sc.Topo.Sources[0].Src.Batches = []int{1, 2}
		sc.Topo.Sources[0].Src.PaceUs = 0
		sc.Topo.Sources[0].Procs = append([]rig.ProcSpec{slow}, sc.Topo.Sources[0].Procs...)
		sc.Steps = append(sc.Steps,
			pipe.Step{AtEvent: 20 + g.R.Intn(30), Op: "stopdl:" + []string{"30", "45", "60"}[g.R.Intn(3)]},
			pipe.Step{AtEvent: 0, Op: "stopandwait", AfterPrevUs: []int{0, 2000, 50000, 120000}[g.R.Intn(4)]})
		sc.Name = "abandoned-stop-then-stop"
		return sc
	}
	if idx%10 == 3 {
		// two sources on the one persister: s0 finishes early, s1 keeps flowing; the
		// stop arrives while the callbacks of the generation holding s0's last
		// position are held (see hooks) and later generations of s1 complete
		s0 := rig.ConnSpec{ID: "s0"}
		s0.Src.Batches = []int{1, 2}
		s1 := rig.ConnSpec{ID: "s1"}
		s1.Src.Batches = []int{1}
		s1.Src.PaceUs = []int{300, 600, 1000}[g.R.Intn(3)]
		sc.Topo.Sources = []rig.ConnSpec{s0, s1}
		sc.Records = []int{4 + g.R.Intn(8), 2000}
		sc.Topo.PipeProcs = nil
		sc.Cond = nil
		sc.Topo.Dests = sc.Topo.Dests[:1]
		sc.Topo.Dests[0].Procs = nil
		sc.Topo.Dests[0].Dst.LatencyUs = nil
		sc.PersistDelayUs = []int{200, 500}[g.R.Intn(2)]
		sc.PersistBundle = []int{1, 2, 3}[g.R.Intn(3)]
		sc.Points = map[string]int{} // no pseudo-random sleeps: the hold is the schedule
		sc.Steps = append(sc.Steps,
			pipe.Step{AtEvent: 0, Op: "await-held"},
			pipe.Step{AtEvent: 0, Op: "stopandwait", AfterPrevUs: []int{8000, 15000, 30000}[g.R.Intn(3)]})
		sc.Name = "finished-source-callback-held"
		return sc
	}
	sc.Steps = append(sc.Steps, pipe.Step{AtEvent: at, Op: "stopandwait", AfterPrevUs: []int{0, 0, 200, 3000}[g.R.Intn(4)]})
	if g.R.Intn(3) == 0 {
		// stop again after a restart
		sc.Steps = append(sc.Steps, pipe.Step{AtEvent: 0, Op: "start"}, pipe.Step{AtEvent: at + 30 + g.R.Intn(200), Op: "stopandwait"})
	}
	return sc
}

func judge(out *pipe.Outcome, ix *pipe.Index) pipe.Verdict {
	var v pipe.Verdict
	vs, j, inc := pipe.OracleC06(ix)
	v.Violations = vs
	v.AddJudged("", j)
	v.Inconclusive = inc
	v.Nontrivial = j.ByHow["stopandwait-returns-judged"] > 0 && j.Obligations > 3
	// what the two round-4 input classes actually produced in this history
	for i := range out.Evs {
		e := &out.Evs[i]
		if e.Kind == rig.KNote && e.Note == "persist callbacks held" {
			v.Stats["stops_requested_while_a_finished_sources_persist_callbacks_were_held"]++
		}
		if e.Kind == rig.KDstAck && e.Role == "dst" && len(e.Acks) > 1 && out.Sc.Engine == "v1" {
			v.Stats["default_engine_destination_responses_carrying_several_acks"]++
		}
	}
	// class of instant: how much was in flight when the stop was requested
	inflight := "idle"
	for i := range out.Evs {
		e := &out.Evs[i]
		if e.Kind == "Ctl" && e.Op == "StopAndWait" {
			emitted, acked := 0, 0
			for k := 0; k < i; k++ {
				switch out.Evs[k].Kind {
				case "SrcEmit":
					emitted += len(out.Evs[k].Idx)
				case "SrcAck":
					acked += len(out.Evs[k].Idx)
				}
			}
			switch {
			case emitted == 0:
				inflight = "before-first-read"
			case emitted-acked == 0:
				inflight = "idle"
			case emitted-acked < 5:
				inflight = "few-in-flight"
			default:
				inflight = "many-in-flight"
			}
			break
		}
	}
	v.SigExtra = fmt.Sprintf("%s|steps%d", inflight, len(out.Sc.Steps))
	v.Sets = map[string][]string{"stop_instant_class": {out.Sc.Engine + ":" + inflight}}
	return v
}

func init() {
	vp.Register(&pipe.PropDef{
		PID: "C06", PLevel: "exploration",
		RuleText: "scenario = HEALTHY pipeline (no rejections, no failures, responsive plugins and store), both engines, up to 3x3 with processors (filters, splits, parallel workers), stop-and-wait requested when the event log reaches a PRNG-chosen length (start-up, mid-read, batches in flight, acks pending behind destination latency, debounce timer armed, idle), optionally restarted and stopped again. At every StopAndWait that returns nil the state at that instant is judged: every written record has its outcome and its source ack before source teardown, acks form a prefix, stored position == last ack, every opened plugin torn down as often as opened, no plugin activity after the return. Non-trivial: a successful StopAndWait was judged with >3 obligations; distinct = distinct (engine, topology, in-flight class at the stop instant, number of stops).",
		Assume:   []string{"'the stop always completes' is only observed as bounded progress: a case exceeding its 120 s watchdog twice (second time alone) is reported as a wedge", "if the engine logged one of its deliberate bounded-wait fallbacks (10 s teardown flush / 30 s stop-and-wait) the drained-state clauses are inconclusive, not violated"},
		Quick:    320, Thorough: 3200, HangIsViol: true,
		PointBias: []string{"connector.persister.before-commit", "connector.persister.after-commit", "connector.persister.callback", "connector.source.ack", "lifecycle.stop.checked", "lifecycle.recover.backoff-elapsed", "lifecycle.run.ended"},
		Anchors:   []string{"pkg/lifecycle/stream/source.go", "pkg/lifecycle/stream/destination.go", "pkg/lifecycle/stream/destination_acker.go", "pkg/lifecycle/stream/dlq.go", "pkg/lifecycle/stream/base.go", "pkg/lifecycle-poc/funnel/worker.go", "pkg/connector/source.go", "pkg/connector/destination.go", "pkg/connector/persister.go"},
		Gen:       gen, Hooks: hooks, Judge: judge,
	})
}
