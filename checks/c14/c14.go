// Package c14 checks property C14 — "API changes are all-or-nothing and keep
// memory, store and references consistent" — by runtime monitoring with
// exhaustive single-fault enumeration.
//
// A case is one random sequence of management-API calls (the orchestrator's
// mutating methods, valid and invalid arguments) interleaved with environment
// steps (file-provisioned pipelines created directly through the services,
// pipelines marked running/stopped through a fake lifecycle service). The REAL
// pipeline/connector/processor services and the real orchestrator run over
// faultdb(inmemory). Every API call is first executed fault-free on the main
// line (which also measures the store operations it performs); then, for every
// single store operation j of that call, the whole history is replayed on a
// fresh rig and the call is repeated with the j-th store operation failing.
// After every call the oracle compares List() before/after, a reference model
// of the call's effect, freshly initialised services on a copy of the store,
// and the closure of cross references.
package c14

import (
	"context"
	"fmt"
	"math/rand"
	"sort"
	"strings"
	"sync"
	"sync/atomic"
	"time"

	"github.com/conduitio/conduit-commons/database/inmemory"

	"verif/internal/faultdb"
	"verif/internal/svcrig"
	"verif/internal/vp"
)

type prop struct{}

func init() { vp.Register(&prop{}) }

func (*prop) ID() string    { return "C14" }
func (*prop) Level() string { return "fault_enumeration" }
func (*prop) Rule() string {
	return "case = one PRNG-determined sequence (rand.NewSource(seed*1e6+idx)) of orchestrator Create/Update/Delete/UpdateDLQ calls " +
		"on pipelines, connectors and processors (valid ids, unknown/empty/wrong-kind ids, duplicate and empty names, unknown plugins, " +
		"invalid settings, invalid types/parents/workers/DLQ windows) interleaved with file-provisioned pipelines and start/stop of pipelines; " +
		"each API call is executed fault-free and then once per store operation it performs (newtx/set/delete/commit) with exactly that " +
		"operation failing, each time on a fresh rig after replaying the history. Distinct = the case's coverage class " +
		"(number of API methods faulted, guards refused, bucketed number of (method, faulted store op) cells); " +
		"non-trivial = at least one injected fault made a call fail and was judged AND at least one successful mutating call was judged against the model."
}
func (*prop) Assumptions() []string {
	return []string{
		"the management API is taken to be the orchestrator's exported methods (the gRPC/HTTP layer on top is not exercised)",
		"connector/processor plugins and the pipeline lifecycle are fakes: 'running' is pipeline.Service.UpdateStatus(Running) plus connector State/LastActiveConfig written through the real connector.Persister; no pipeline actually runs",
		"store = conduit-commons inmemory DB behind faultdb; a fault is the store call returning an error without effect (no partial writes, no crashes)",
		"calls are sequential (the property's own quantifier); exactly one store fault per faulted call",
		"google/uuid is fed a deterministic reader so that replayed histories generate the same ids",
		"CreatedAt/UpdatedAt differences after a FAILED call are tolerated (counted, not flagged), as DESIGN.md C14 excludes bookkeeping timestamps",
	}
}
func (*prop) CaseTimeout() time.Duration { return 10 * time.Minute }

func (*prop) NumCases(tier string) int {
	if tier == "thorough" {
		return 60000
	}
	return 2400
}

func seqLen(tier string) int {
	if tier == "thorough" {
		return 40
	}
	return 32
}

// ---------------------------------------------------------------------------
// store controller

var keyClasses = []string{"pipeline:instance:", "connector:instance:", "processor:instance:", "connector:connector:"}

func keyClass(key string) string {
	for _, p := range keyClasses {
		if strings.HasPrefix(key, p) {
			return strings.TrimSuffix(p, ":")
		}
	}
	if key == "" {
		return ""
	}
	return "other"
}

// tagDB sits in front of faultdb only to tell the controller whether the Set
// about to be decided is a delete (nil value); faultdb.Op does not carry that.
type tagDB struct {
	*faultdb.DB
	nilValue atomic.Bool
}

func (t *tagDB) Set(ctx context.Context, key string, value []byte) error {
	t.nilValue.Store(value == nil)
	return t.DB.Set(ctx, key, value)
}

type storeOp struct {
	Kind  string `json:"kind"`
	Key   string `json:"key,omitempty"`
	Label string `json:"label"`
}

// ctl logs the store operations of the call being recorded and delegates the
// decision (fault rules, counts) to a faultdb.Script.
type ctl struct {
	*faultdb.Script
	tag *tagDB

	mu     sync.Mutex
	rec    bool
	log    []storeOp
	labels map[string]int
	fired  []storeOp
}

func (c *ctl) Decide(op faultdb.Op) faultdb.Decision {
	dec := c.Script.Decide(op)
	c.mu.Lock()
	defer c.mu.Unlock()
	if !c.rec {
		return dec
	}
	kind := op.Kind
	if kind == faultdb.OpSet && c.tag.nilValue.Load() {
		kind = "delete"
	}
	label := kind
	if cl := keyClass(op.Key); cl != "" {
		label += "@" + cl
	}
	c.labels[label]++
	if n := c.labels[label]; n > 1 {
		label = fmt.Sprintf("%s#%d", label, n)
	}
	so := storeOp{Kind: kind, Key: op.Key, Label: label}
	c.log = append(c.log, so)
	if dec.Err != nil {
		c.fired = append(c.fired, so)
	}
	return dec
}

// begin starts recording one call; failAt > 0 makes the failAt-th store
// operation from now on fail with faultdb.ErrInjected.
func (c *ctl) begin(failAt int) {
	c.mu.Lock()
	c.rec, c.log, c.fired, c.labels = true, nil, nil, map[string]int{}
	c.mu.Unlock()
	if failAt > 0 {
		c.Script.Add(&faultdb.Rule{Nth: int64(failAt), Dec: faultdb.Decision{Err: faultdb.ErrInjected}})
	}
}

func (c *ctl) end() (log, fired []storeOp) {
	c.Script.Clear()
	c.mu.Lock()
	defer c.mu.Unlock()
	c.rec = false
	return c.log, c.fired
}

// ---------------------------------------------------------------------------
// one rig over one store

type run struct {
	ctx context.Context
	fdb *faultdb.DB
	ctl *ctl
	rig *svcrig.Rig
}

func newRun(ctx context.Context) (*run, error) {
	fdb := faultdb.New(&inmemory.DB{})
	tag := &tagDB{DB: fdb}
	c := &ctl{Script: faultdb.NewScript(), tag: tag, labels: map[string]int{}}
	fdb.SetController(c)
	r := &run{ctx: ctx, fdb: fdb, ctl: c, rig: svcrig.New(tag, svcrig.Options{})}
	if err := r.rig.Init(ctx); err != nil {
		return nil, err
	}
	return r, nil
}

// reload initialises FRESH services on a copy of the committed store content
// ("restarted server") and lists them.
func (r *run) reload() (st svcrig.State, strayKeys []string, err error) {
	snap := r.fdb.Snapshot()
	db := &inmemory.DB{}
	if err := faultdb.Restore(db, snap); err != nil {
		return st, nil, err
	}
	for k := range snap {
		if cl := keyClass(k); cl == "other" || cl == "connector:connector" {
			strayKeys = append(strayKeys, k)
		}
	}
	sort.Strings(strayKeys)
	fresh := svcrig.New(db, svcrig.Options{})
	if err := fresh.Init(r.ctx); err != nil {
		return st, strayKeys, err
	}
	// services directly: the restarted server's services, not its API facade
	return svcrig.ObserveFrom(r.ctx, fresh.Pipelines, fresh.Connectors, fresh.Processors), strayKeys, nil
}

// ---------------------------------------------------------------------------
// case bookkeeping

type faultInfo struct {
	Step  int    `json:"step"`
	J     int    `json:"j"`
	Of    int    `json:"of"`
	Label string `json:"label"`
	Key   string `json:"key,omitempty"`
}

type caseState struct {
	seed    int64
	tier    string
	idx     int
	history []Op
	results []Result

	stats map[string]int64
	sets  map[string]map[string]struct{}
	viol  []vp.Violation
	seen  map[string]bool

	methodsFaulted map[string]bool
	guardsRefused  map[string]bool
	cells          map[string]bool
	faultFailures  int
	modelSuccesses int
	raw            int // violations raised (before de-duplication by identity)
}

func (cs *caseState) set(name, v string) {
	m := cs.sets[name]
	if m == nil {
		m = map[string]struct{}{}
		cs.sets[name] = m
	}
	m[v] = struct{}{}
}

// reportedInProcess remembers the identities this worker process (= one batch
// of cases) already reported. A later case of the same batch that hits the same
// identity only counts it (Stats violation_observations.<class>,
// violation_repeats_not_rereported): on a tree with open findings every case
// re-finds them, and hundreds of thousands of copies of the same witness would
// only bloat the journals and the driver. The verdict is unaffected: every
// identity a batch observes is reported once by that batch. `vcheck one` /
// `vcheck.sh replay` run in a fresh process and always print the full detail.
var (
	reportedMu        sync.Mutex
	reportedInProcess = map[string]bool{}
)

func (cs *caseState) violation(class, identity, detail string, op Op, step int, fi *faultInfo, witness any) {
	cs.raw++
	if cs.seen[identity] {
		return
	}
	cs.seen[identity] = true
	c := map[string]any{"seed": cs.seed, "tier": cs.tier, "index": cs.idx, "step": step}
	if fi != nil {
		c["fault"] = fi
	}
	reportedMu.Lock()
	slim := reportedInProcess[identity]
	reportedInProcess[identity] = true
	reportedMu.Unlock()
	cs.stats["violation_observations."+class]++
	if slim {
		cs.stats["violation_repeats_not_rereported"]++
		return
	}
	c["call"] = op
	c["relevant_history"] = cs.relevantHistory(op, step)
	c["history_steps"] = step
	cs.viol = append(cs.viol, vp.Violation{
		Property: "C14", Class: class, Identity: identity, Detail: detail, Case: c, Witness: witness,
	})
}

// relevantHistory is the slice of the executed history that touched the
// entities the judged call touches (transitively through parents), successful
// steps only — a readable scenario; the case is re-executed from (seed, index).
func (cs *caseState) relevantHistory(op Op, step int) []string {
	ids := map[string]bool{}
	add := func(id string) bool {
		if id == "" || ids[id] {
			return false
		}
		ids[id] = true
		return true
	}
	add(op.ID)
	add(op.Parent)
	n := step
	if n > len(cs.history) {
		n = len(cs.history)
	}
	for changed := true; changed; {
		changed = false
		for i := 0; i < n; i++ {
			h, r := cs.history[i], cs.results[i]
			if r.failed() {
				continue
			}
			if ids[h.ID] || ids[h.Parent] || ids[r.ID] {
				for _, id := range []string{h.ID, h.Parent, r.ID} {
					if add(id) {
						changed = true
					}
				}
			}
		}
	}
	var out []string
	for i := 0; i < n; i++ {
		h, r := cs.history[i], cs.results[i]
		if r.failed() || !(ids[h.ID] || ids[h.Parent] || ids[r.ID]) {
			continue
		}
		line := fmt.Sprintf("%02d %s", i, h.String())
		if r.ID != "" {
			line += " -> " + r.ID
		}
		out = append(out, line)
	}
	if len(out) > 16 {
		out = append([]string{fmt.Sprintf("... %d earlier relevant steps omitted", len(out)-16)}, out[len(out)-16:]...)
	}
	return append(out, fmt.Sprintf("%02d %s   <-- judged call", step, op.String()))
}

func faultLabel(fi *faultInfo) string {
	if fi == nil {
		return "none"
	}
	return fi.Label
}

// judge applies the whole oracle to one executed call: (e) guards, (a) a failed
// call changed nothing / (b) a successful call has exactly the requested effect,
// (c) memory == restarted-from-store, (d) references closed. standing: see
// checkStoreAndRefs. clean = nothing was flagged for this call.
func (cs *caseState) judge(r *run, pre, post svcrig.State, op Op, res Result, step int, fi *faultInfo, standing map[string]bool) (clean bool, now map[string]bool) {
	fl := faultLabel(fi)
	rawBefore := cs.raw
	witness := func(d []svcrig.Difference) any {
		return map[string]any{"result": res, "differences": d}
	}

	if res.Panic != "" {
		// The call neither returned an error nor nil: it took the goroutine
		// (in the server: the process — there is no recover between the gRPC
		// handler and the orchestrator) down. Nothing after it is judged: the
		// in-memory state died with the process.
		cs.stats["calls_panicked"]++
		cs.violation("api-call-panicked",
			fmt.Sprintf("C14/api-call-panicked/%s/fault=%s/%s", op.Method, fl, panicClass(res.Panic)),
			"the API call panicked: "+res.Panic, op, step, fi, witness(nil))
		return false, standing
	}

	// (e) guards
	if g := guardOf(pre, op); g != "" {
		cs.stats["guarded_ops"]++
		if res.failed() {
			cs.stats["guarded_ops_refused"]++
			cs.guardsRefused[g] = true
			cs.set("guards_refused", op.Method+"|"+g)
		} else {
			cs.violation("guard-bypassed",
				fmt.Sprintf("C14/guard-bypassed/%s/%s", op.Method, g),
				fmt.Sprintf("%s succeeded although its target belongs to a %s pipeline/entity", op.Method, g), op, step, fi, witness(nil))
		}
	}

	// differences already attributed to this call by clause (a)/(b); clause (c)
	// does not report the very same field of the very same entity a second time
	callDiffs := map[string]bool{}
	if res.failed() {
		// (a) a failed call leaves everything as it was
		cs.stats["failed_calls_judged"]++
		for _, d := range svcrig.Diff(pre, post) {
			if d.IsTime {
				cs.stats["timestamp_changes_by_failed_calls_tolerated"]++
				continue
			}
			callDiffs[d.Kind+"|"+d.ID] = true
			cs.violation("failed-call-changed-state",
				fmt.Sprintf("C14/failed-call-changed-state/%s/fault=%s/%s", op.Method, fl, d.Kind),
				fmt.Sprintf("%s returned an error (%s) but the listed state changed: %s", op.Method, res.Err, d), op, step, fi, witness([]svcrig.Difference{d}))
		}
	} else {
		// (b) a successful call has exactly the requested effect
		cs.stats["successful_calls_judged"]++
		cs.modelSuccesses++
		exp, impossible := expected(pre, post, op, res)
		if impossible != "" {
			cs.violation("success-effect-mismatch",
				fmt.Sprintf("C14/success-effect-mismatch/%s/fault=%s/%s", op.Method, fl, impossible),
				fmt.Sprintf("%s returned nil but %s", op.Method, impossible), op, step, fi, witness(nil))
		} else {
			for _, d := range svcrig.Diff(exp, post) {
				if d.IsTime {
					continue
				}
				callDiffs[d.Kind+"|"+d.ID] = true
				cs.violation("success-effect-mismatch",
					fmt.Sprintf("C14/success-effect-mismatch/%s/fault=%s/%s", op.Method, fl, d.Kind),
					fmt.Sprintf("%s returned nil but the listed state is not the requested effect: %s", op.Method, d), op, step, fi, witness([]svcrig.Difference{d}))
			}
		}
	}
	now = cs.checkStoreAndRefs(r, post, op, step, fi, res.failed(), res, callDiffs, standing)
	return cs.raw == rawBefore, now
}

// checkStoreAndRefs: clauses (c) memory == freshly loaded store and (d) closed
// cross references.
//
// standing holds the (c)/(d) findings that already existed before this call (on
// the same history): a difference is attributed to the call that introduced it,
// not to every later call. The findings present now are returned.
func (cs *caseState) checkStoreAndRefs(r *run, live svcrig.State, op Op, step int, fi *faultInfo, tolerateTimes bool, res Result, callDiffs, standing map[string]bool) map[string]bool {
	now := map[string]bool{}
	fl := faultLabel(fi)
	cs.stats["reload_comparisons"]++
	loaded, stray, err := r.reload()
	if err != nil {
		cs.violation("store-unloadable",
			fmt.Sprintf("C14/store-unloadable/%s/fault=%s", op.Method, fl),
			"fresh services fail to initialise from the store: "+err.Error(), op, step, fi, nil)
	} else {
		for _, d := range svcrig.Diff(loaded, live.AsRestarted()) {
			if d.IsTime && tolerateTimes {
				cs.stats["reload_timestamp_diffs_tolerated_after_failed_call"]++
				continue
			}
			now["c|"+d.Kind+"|"+d.ID] = true
			if callDiffs[d.Kind+"|"+d.ID] {
				cs.stats["memory_store_diffs_already_reported_as_call_diff"]++
				continue
			}
			if standing["c|"+d.Kind+"|"+d.ID] {
				cs.stats["standing_differences_not_reattributed"]++
				continue
			}
			cs.violation("memory-differs-from-store",
				fmt.Sprintf("C14/memory-differs-from-store/%s/fault=%s/%s", op.Method, fl, d.Kind),
				fmt.Sprintf("after %s (err=%q) the live services differ from services freshly initialised on the same store (want = restarted, got = live): %s", op.Method, res.Err, d),
				op, step, fi, map[string]any{"result": res, "differences": []svcrig.Difference{d}})
		}
	}
	for _, k := range stray {
		cs.violation("stray-store-key",
			fmt.Sprintf("C14/stray-store-key/%s/fault=%s/%s", op.Method, fl, keyClass(k)),
			"unexpected key in the store: "+k, op, step, fi, nil)
	}
	// the service's derived index of reserved pipeline names (a restarted server
	// rebuilds it from the stored pipelines): must be exactly the names in use
	cs.stats["reserved_name_index_checks"]++
	{
		want := map[string]bool{}
		for _, p := range live.Pipelines {
			want[p.Name] = true
		}
		got := map[string]bool{}
		for _, n := range r.rig.Pipelines.VerifReservedNames() {
			got[n] = true
		}
		var diffs []string
		for n := range want {
			if !got[n] {
				diffs = append(diffs, "missing:"+trunc(n))
			}
		}
		for n := range got {
			if !want[n] {
				diffs = append(diffs, "stale:"+trunc(n))
			}
		}
		sort.Strings(diffs)
		if len(diffs) > 0 {
			key := "n|" + strings.Join(diffs, ",")
			now[key] = true
			if !standing[key] {
				kind := "missing"
				if strings.HasPrefix(diffs[len(diffs)-1], "stale:") {
					kind = "stale"
				}
				cs.violation("memory-differs-from-store",
					fmt.Sprintf("C14/memory-differs-from-store/%s/fault=%s/pipeline.reserved-names:%s", op.Method, fl, kind),
					fmt.Sprintf("after %s (err=%q) the live pipeline service's reserved-names index differs from the names of the existing pipelines (which is what a restarted server reserves): %v", op.Method, res.Err, diffs),
					op, step, fi, map[string]any{"result": res, "index_differences": diffs})
			} else {
				cs.stats["standing_differences_not_reattributed"]++
			}
		}
	}
	cs.stats["reference_closure_checks"]++
	for _, d := range svcrig.Closure(live) {
		key := "d|" + d.Kind + "|" + d.ID + "|" + d.Got
		now[key] = true
		if standing[key] {
			cs.stats["standing_differences_not_reattributed"]++
			continue
		}
		cs.violation("reference-not-closed",
			fmt.Sprintf("C14/reference-not-closed/%s/fault=%s/%s", op.Method, fl, d.Kind),
			fmt.Sprintf("after %s (err=%q): %s of %s -> %s", op.Method, res.Err, d.Kind, d.ID, d.Got), op, step, fi,
			map[string]any{"result": res, "differences": []svcrig.Difference{d}})
	}
	return now
}

// panicClass keeps the leading clause of a panic message ("rollback failed")
// so that the same defect reached through different inputs keeps one identity.
func panicClass(m string) string {
	if i := strings.Index(m, ":"); i > 0 {
		m = m[:i]
	}
	return normalize(m)
}

func normalize(m string) string {
	var b strings.Builder
	prevDigit := false
	for _, r := range m {
		if r >= '0' && r <= '9' || r >= 'a' && r <= 'f' && prevDigit {
			if !prevDigit {
				b.WriteByte('N')
			}
			prevDigit = true
			continue
		}
		prevDigit = false
		if r == ' ' || r == '/' {
			r = '_'
		}
		b.WriteRune(r)
	}
	s := b.String()
	if len(s) > 80 {
		s = s[:80]
	}
	return s
}

// ---------------------------------------------------------------------------

func (p *prop) RunCase(seed int64, tier string, idx int) vp.CaseResult {
	ctx := context.Background()
	rng := rand.New(rand.NewSource(seed*1000000 + int64(idx)))
	cs := &caseState{
		seed: seed, tier: tier, idx: idx,
		stats: map[string]int64{}, sets: map[string]map[string]struct{}{}, seen: map[string]bool{},
		methodsFaulted: map[string]bool{}, guardsRefused: map[string]bool{}, cells: map[string]bool{},
	}
	out := vp.CaseResult{}
	inconclusive := func(format string, a ...any) vp.CaseResult {
		out.Inconclusive = fmt.Sprintf(format, a...)
		out.Stats = cs.stats
		return out
	}

	main, err := newRun(ctx)
	if err != nil {
		return inconclusive("rig construction failed: %v", err)
	}
	g := &gen{rng: rng}
	L := seqLen(tier)
	standing := map[string]bool{} // (c)/(d) findings present on the main line so far

	for step := 0; step < L; step++ {
		pre := main.rig.Observe(ctx)
		op := g.next(pre, step)

		main.ctl.begin(0)
		res := execOp(ctx, main.rig, op, step)
		oplog, _ := main.ctl.end()
		post := main.rig.Observe(ctx)
		cs.stats["ops_executed"]++

		if !op.isAPI() {
			cs.stats["env_steps"]++
			cs.set("env_steps", op.Method+"|"+okStr(!res.failed()))
			// environment steps are not judged for atomicity, but the
			// standing clauses (store == memory, closure) hold after them too
			standing = cs.checkStoreAndRefs(main, post, op, step, nil, false, res, nil, standing)
			cs.history = append(cs.history, op)
			cs.results = append(cs.results, res)
			continue
		}

		cs.stats["api_calls"]++
		cs.set("methods", op.Method)
		cs.set("arg_shapes", op.Method+"|"+op.Shape)
		cs.set("cells", op.Method+"|fault=none|"+okStr(!res.failed()))
		standingBefore := standing
		_, standing = cs.judge(main, pre, post, op, res, step, nil, standingBefore)

		// single-fault enumeration over the m store operations of this call
		m := len(oplog)
		cs.stats["store_ops_measured"] += int64(m)
		for j := 1; j <= m; j++ {
			fork, err := newRun(ctx)
			if err != nil {
				return inconclusive("rig construction failed: %v", err)
			}
			for i, hop := range cs.history {
				hres := execOp(ctx, fork.rig, hop, i)
				cs.stats["replayed_ops"]++
				if hres.Err != cs.results[i].Err || hres.ID != cs.results[i].ID || hres.Panic != cs.results[i].Panic {
					return inconclusive("non-deterministic replay at step %d (%s): main %+v, replay %+v", i, hop.String(), cs.results[i], hres)
				}
			}
			fpre := fork.rig.Observe(ctx)
			for _, d := range svcrig.Diff(pre, fpre) {
				if !d.IsTime {
					return inconclusive("replayed state differs from the main line before step %d: %s", step, d)
				}
			}
			fork.ctl.begin(j)
			fres := execOp(ctx, fork.rig, op, step)
			flog, fired := fork.ctl.end()
			fpost := fork.rig.Observe(ctx)
			want := oplog[j-1]
			if len(fired) != 1 || len(flog) < j || flog[j-1].Label != want.Label {
				return inconclusive("fault %d of step %d (%s) did not hit the measured store op %q (fired %v)", j, step, op.Method, want.Label, fired)
			}
			fi := &faultInfo{Step: step, J: j, Of: m, Label: want.Label, Key: want.Key}
			cs.stats["faults_injected"]++
			cs.stats["faults_injected."+want.Kind]++
			cs.methodsFaulted[op.Method] = true
			cell := op.Method + "|fault=" + want.Label
			cs.cells[cell] = true
			cs.set("cells", cell+"|"+okStr(!fres.failed()))
			cs.set("fault_labels", want.Label)
			if fres.failed() {
				cs.stats["faulted_calls_failed"]++
				cs.faultFailures++
			} else {
				cs.stats["faulted_calls_succeeded"]++
			}
			clean, fstanding := cs.judge(fork, fpre, fpost, op, fres, step, fi, standingBefore)

			// hidden state: a failed call that left the listed state alone must
			// also leave the API's behaviour alone — repeating it fault-free has
			// to do exactly what the fault-free main line did.
			if clean && fres.failed() && fres.Panic == "" {
				cs.stats["retry_probes"]++
				rres := execOp(ctx, fork.rig, op, step)
				rpost := fork.rig.Observe(ctx)
				if rres.failed() != res.failed() {
					cs.violation("failed-call-left-hidden-state",
						fmt.Sprintf("C14/failed-call-left-hidden-state/%s/fault=%s/retry-outcome-differs", op.Method, fi.Label),
						fmt.Sprintf("%s failed under the fault and left the listed state alone, but repeating it fault-free gave err=%q where the unfaulted call gave err=%q", op.Method, rres.Err, res.Err),
						op, step, fi, map[string]any{"faulted": fres, "retry": rres, "unfaulted": res})
				} else {
					for _, d := range svcrig.Diff(post, rpost) {
						if d.IsTime {
							continue
						}
						cs.violation("failed-call-left-hidden-state",
							fmt.Sprintf("C14/failed-call-left-hidden-state/%s/fault=%s/%s", op.Method, fi.Label, d.Kind),
							fmt.Sprintf("repeating %s fault-free after the failed faulted call does not give the state of the unfaulted call: %s", op.Method, d),
							op, step, fi, map[string]any{"faulted": fres, "retry": rres, "differences": []svcrig.Difference{d}})
					}
					cs.checkStoreAndRefs(fork, rpost, op, step, fi, true, rres, nil, fstanding)
				}
			}
		}

		cs.history = append(cs.history, op)
		cs.results = append(cs.results, res)
	}

	// result
	guards := make([]string, 0, 2)
	for gname := range cs.guardsRefused {
		guards = append(guards, gname)
	}
	sort.Strings(guards)
	out.Sig = fmt.Sprintf("methods-faulted=%d guards=%s cells~%d", len(cs.methodsFaulted), strings.Join(guards, "+"), len(cs.cells)/4*4)
	out.Nontrivial = cs.faultFailures > 0 && cs.modelSuccesses > 0
	out.Violations = cs.viol
	out.Stats = cs.stats
	out.Sets = map[string][]string{}
	for k, m := range cs.sets {
		for v := range m {
			out.Sets[k] = append(out.Sets[k], v)
		}
		sort.Strings(out.Sets[k])
	}
	sample := []string{}
	for i, op := range cs.history {
		if i >= 10 {
			break
		}
		sample = append(sample, fmt.Sprintf("%s -> %s", op.String(), errOrOK(cs.results[i])))
	}
	out.Sample = map[string]any{"index": idx, "first_steps": sample, "steps": len(cs.history), "faults_injected": cs.stats["faults_injected"]}
	return out
}

func okStr(ok bool) string {
	if ok {
		return "ok"
	}
	return "failed"
}

func errOrOK(r Result) string {
	if r.Panic != "" {
		return "PANIC " + r.Panic
	}
	if r.Err != "" {
		e := r.Err
		if len(e) > 60 {
			e = e[:60] + "..."
		}
		return "err: " + e
	}
	if r.ID != "" {
		return "ok id=" + r.ID
	}
	return "ok"
}
