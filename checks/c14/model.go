package c14

import (
	"github.com/conduitio/conduit/pkg/connector"
	"github.com/conduitio/conduit/pkg/pipeline"
	"github.com/conduitio/conduit/pkg/processor"

	"verif/internal/svcrig"
)

// guardOf tells whether the property forbids op in state pre: the op targets a
// resource of a running pipeline ("running") or a file-provisioned entity /
// pipeline ("config"). "" = not guarded (or the target does not exist, in
// which case the op has to fail for another reason).
func guardOf(pre svcrig.State, op Op) string {
	plGuard := func(plID string) string {
		p, ok := pre.Pipelines[plID]
		if !ok {
			return ""
		}
		if p.ProvisionedBy == int(pipeline.ProvisionTypeConfig) {
			return "config"
		}
		if p.Status == pipeline.StatusRunning.String() {
			return "running"
		}
		return ""
	}
	connGuard := func(connID string) string {
		c, ok := pre.Connectors[connID]
		if !ok {
			return ""
		}
		if c.ProvisionedBy == int(connector.ProvisionTypeConfig) {
			return "config"
		}
		return plGuard(c.PipelineID)
	}
	parentGuard := func(parentType int, parentID string) string {
		switch parentType {
		case int(processor.ParentTypePipeline):
			return plGuard(parentID)
		case int(processor.ParentTypeConnector):
			return connGuard(parentID)
		}
		return ""
	}
	switch op.Method {
	case mPlUpdate, mPlDelete, mPlUpdateDLQ:
		return plGuard(op.ID)
	case mConnCreate:
		return plGuard(op.Parent)
	case mConnUpdate, mConnDelete:
		return connGuard(op.ID)
	case mProcCreate:
		return parentGuard(op.ParentType, op.Parent)
	case mProcUpdate, mProcDelete:
		pr, ok := pre.Processors[op.ID]
		if !ok {
			return ""
		}
		if pr.ProvisionedBy == int(processor.ProvisionTypeConfig) {
			return "config"
		}
		return parentGuard(pr.ParentType, pr.ParentID)
	}
	return ""
}

func removeID(ids []string, id string) []string {
	var out []string
	removed := false
	for _, x := range ids {
		if x == id && !removed {
			removed = true
			continue
		}
		out = append(out, x)
	}
	return out
}

// expected computes the state a SUCCESSFUL op must leave behind, from the
// state before it: the requested change and nothing else. Fields of a newly
// created entity the request does not determine (a new pipeline's status, DLQ
// and error; a new processor's defaulted worker count) are taken from post.
// impossible != "" means there is no state in which the op could have
// succeeded meaningfully (its target does not exist).
func expected(pre, post svcrig.State, op Op, res Result) (exp svcrig.State, impossible string) {
	exp = pre.Clone()
	switch op.Method {
	case mPlCreate:
		if res.ID == "" {
			return exp, "created-entity-has-no-id"
		}
		if _, dup := pre.Pipelines[res.ID]; dup {
			return exp, "created-entity-reuses-existing-id"
		}
		v := svcrig.PipelineView{ID: res.ID, Name: op.Name, Description: op.Desc, ProvisionedBy: int(pipeline.ProvisionTypeAPI)}
		if got, ok := post.Pipelines[res.ID]; ok {
			v.Status, v.Error = got.Status, got.Error
			v.DLQPlugin, v.DLQSettings, v.DLQWindow, v.DLQNack = got.DLQPlugin, got.DLQSettings, got.DLQWindow, got.DLQNack
		}
		exp.Pipelines[res.ID] = v
	case mPlUpdate:
		v, ok := exp.Pipelines[op.ID]
		if !ok {
			return exp, "target-does-not-exist"
		}
		v.Name, v.Description = op.Name, op.Desc
		exp.Pipelines[op.ID] = v
	case mPlDelete:
		if _, ok := exp.Pipelines[op.ID]; !ok {
			return exp, "target-does-not-exist"
		}
		delete(exp.Pipelines, op.ID)
	case mPlUpdateDLQ:
		v, ok := exp.Pipelines[op.ID]
		if !ok {
			return exp, "target-does-not-exist"
		}
		v.DLQPlugin, v.DLQSettings, v.DLQWindow, v.DLQNack = op.Plugin, cloneMap(op.Settings), op.DLQWindow, op.DLQNack
		exp.Pipelines[op.ID] = v
	case mConnCreate:
		p, ok := exp.Pipelines[op.Parent]
		if !ok {
			return exp, "parent-does-not-exist"
		}
		if res.ID == "" {
			return exp, "created-entity-has-no-id"
		}
		if _, dup := pre.Connectors[res.ID]; dup {
			return exp, "created-entity-reuses-existing-id"
		}
		exp.Connectors[res.ID] = svcrig.ConnectorView{
			ID: res.ID, Type: op.ConnType, Name: op.Name, Settings: cloneMap(op.Settings),
			PipelineID: op.Parent, Plugin: op.Plugin, ProvisionedBy: int(connector.ProvisionTypeAPI),
		}
		p.ConnectorIDs = append(append([]string(nil), p.ConnectorIDs...), res.ID)
		exp.Pipelines[op.Parent] = p
	case mConnUpdate:
		v, ok := exp.Connectors[op.ID]
		if !ok {
			return exp, "target-does-not-exist"
		}
		v.Plugin, v.Name, v.Settings = op.Plugin, op.Name, cloneMap(op.Settings)
		exp.Connectors[op.ID] = v
	case mConnDelete:
		v, ok := exp.Connectors[op.ID]
		if !ok {
			return exp, "target-does-not-exist"
		}
		delete(exp.Connectors, op.ID)
		if p, ok := exp.Pipelines[v.PipelineID]; ok {
			p.ConnectorIDs = removeID(p.ConnectorIDs, op.ID)
			exp.Pipelines[v.PipelineID] = p
		}
	case mProcCreate:
		if res.ID == "" {
			return exp, "created-entity-has-no-id"
		}
		if _, dup := pre.Processors[res.ID]; dup {
			return exp, "created-entity-reuses-existing-id"
		}
		workers := op.Workers
		if got, ok := post.Processors[res.ID]; ok && op.Workers == 0 && got.Workers == 1 {
			workers = 1 // documented default
		}
		exp.Processors[res.ID] = svcrig.ProcessorView{
			ID: res.ID, Plugin: op.Plugin, Condition: op.Cond, ParentID: op.Parent, ParentType: op.ParentType,
			Settings: cloneMap(op.Settings), Workers: workers, ProvisionedBy: int(processor.ProvisionTypeAPI),
		}
		switch op.ParentType {
		case int(processor.ParentTypePipeline):
			p, ok := exp.Pipelines[op.Parent]
			if !ok {
				return exp, "parent-does-not-exist"
			}
			p.ProcessorIDs = append(append([]string(nil), p.ProcessorIDs...), res.ID)
			exp.Pipelines[op.Parent] = p
		case int(processor.ParentTypeConnector):
			c, ok := exp.Connectors[op.Parent]
			if !ok {
				return exp, "parent-does-not-exist"
			}
			c.ProcessorIDs = append(append([]string(nil), c.ProcessorIDs...), res.ID)
			exp.Connectors[op.Parent] = c
		default:
			return exp, "invalid-parent-type"
		}
	case mProcUpdate:
		v, ok := exp.Processors[op.ID]
		if !ok {
			return exp, "target-does-not-exist"
		}
		v.Plugin, v.Settings, v.Workers = op.Plugin, cloneMap(op.Settings), op.Workers
		if got, ok := post.Processors[op.ID]; ok && op.Workers == 0 && got.Workers == 1 {
			v.Workers = 1 // defaulting is acceptable either way
		}
		exp.Processors[op.ID] = v
	case mProcDelete:
		v, ok := exp.Processors[op.ID]
		if !ok {
			return exp, "target-does-not-exist"
		}
		delete(exp.Processors, op.ID)
		switch v.ParentType {
		case int(processor.ParentTypePipeline):
			if p, ok := exp.Pipelines[v.ParentID]; ok {
				p.ProcessorIDs = removeID(p.ProcessorIDs, op.ID)
				exp.Pipelines[v.ParentID] = p
			}
		case int(processor.ParentTypeConnector):
			if c, ok := exp.Connectors[v.ParentID]; ok {
				c.ProcessorIDs = removeID(c.ProcessorIDs, op.ID)
				exp.Connectors[v.ParentID] = c
			}
		}
	}
	return exp, ""
}
