package c14

import (
	"context"
	"fmt"
	"math/rand"
	"strings"

	"github.com/conduitio/conduit/pkg/connector"
	"github.com/conduitio/conduit/pkg/pipeline"
	"github.com/conduitio/conduit/pkg/processor"
	"github.com/google/uuid"

	"verif/internal/svcrig"
)

// Management API methods under test (the orchestrator's mutating methods).
const (
	mPlCreate    = "Pipelines.Create"
	mPlUpdate    = "Pipelines.Update"
	mPlDelete    = "Pipelines.Delete"
	mPlUpdateDLQ = "Pipelines.UpdateDLQ"
	mConnCreate  = "Connectors.Create"
	mConnUpdate  = "Connectors.Update"
	mConnDelete  = "Connectors.Delete"
	mProcCreate  = "Processors.Create"
	mProcUpdate  = "Processors.Update"
	mProcDelete  = "Processors.Delete"

	// environment steps: not judged for atomicity, never faulted
	eStart     = "env.Start"           // orc.Pipelines.Start through the fake lifecycle
	eStop      = "env.Stop"            // orc.Pipelines.Stop through the fake lifecycle
	eProvision = "env.ProvisionConfig" // a file-provisioned pipeline created directly through the services
)

var apiMethods = []string{mPlCreate, mPlUpdate, mPlDelete, mPlUpdateDLQ, mConnCreate, mConnUpdate, mConnDelete, mProcCreate, mProcUpdate, mProcDelete}

// Op is one step of a case. All ids are literal (ids the API generates are made
// deterministic per step, see detRand).
type Op struct {
	Method string `json:"m"`
	// ID is the target entity (Update/Delete/UpdateDLQ/env.*) or, for
	// env.ProvisionConfig, the id of the pipeline to provision.
	ID string `json:"id,omitempty"`
	// Parent: pipeline id (Connectors.Create) or processor parent id.
	Parent     string `json:"parent,omitempty"`
	ParentType int    `json:"parent_type,omitempty"`

	Name     string            `json:"name,omitempty"`
	Desc     string            `json:"desc,omitempty"`
	Plugin   string            `json:"plugin,omitempty"`
	ConnType int               `json:"conn_type,omitempty"`
	Settings map[string]string `json:"settings,omitempty"`
	Workers  int               `json:"workers,omitempty"`
	Cond     string            `json:"cond,omitempty"`

	DLQWindow int `json:"dlq_window,omitempty"`
	DLQNack   int `json:"dlq_nack,omitempty"`

	// Shape classifies how the arguments were chosen (for coverage only).
	Shape string `json:"shape,omitempty"`
}

func (o Op) isAPI() bool { return !strings.HasPrefix(o.Method, "env.") }

func (o Op) String() string {
	var b strings.Builder
	b.WriteString(o.Method)
	b.WriteByte('(')
	parts := []string{}
	add := func(k, v string) {
		parts = append(parts, k+"="+v)
	}
	if o.ID != "" || o.Method == mPlUpdate || o.Method == mPlDelete {
		add("id", o.ID)
	}
	switch o.Method {
	case mPlCreate, mPlUpdate:
		add("name", fmt.Sprintf("%q", trunc(o.Name)))
	case mPlUpdateDLQ:
		add("plugin", o.Plugin)
		add("win", fmt.Sprintf("%d/%d", o.DLQWindow, o.DLQNack))
	case mConnCreate:
		add("type", fmt.Sprint(o.ConnType))
		add("plugin", o.Plugin)
		add("pipeline", o.Parent)
		add("name", fmt.Sprintf("%q", trunc(o.Name)))
	case mConnUpdate:
		add("plugin", o.Plugin)
		add("name", fmt.Sprintf("%q", trunc(o.Name)))
	case mProcCreate:
		add("plugin", o.Plugin)
		add("parent", fmt.Sprintf("%d:%s", o.ParentType, o.Parent))
		add("workers", fmt.Sprint(o.Workers))
	case mProcUpdate:
		add("plugin", o.Plugin)
		add("workers", fmt.Sprint(o.Workers))
	}
	if len(o.Settings) > 0 {
		add("settings", fmt.Sprint(o.Settings))
	}
	b.WriteString(strings.Join(parts, " "))
	b.WriteByte(')')
	return b.String()
}

func trunc(s string) string {
	if len(s) > 12 {
		return s[:12] + "..."
	}
	return s
}

// Result of executing one Op.
type Result struct {
	ID    string `json:"id,omitempty"` // id of the created entity (Create methods)
	Err   string `json:"err,omitempty"`
	Panic string `json:"panic,omitempty"`
	err   error
}

func (r Result) failed() bool { return r.err != nil || r.Panic != "" }

// detRand feeds google/uuid so that the k-th step of a case always generates
// the same, readable ids: 00000000-0000-4000-8000-0000000000kk (n-th uuid drawn
// within a step goes into the byte before).
type detRand struct {
	step int
	n    int
}

func (d *detRand) Read(p []byte) (int, error) {
	for i := range p {
		p[i] = 0
	}
	if len(p) >= 16 {
		p[15] = byte(d.step)
		p[14] = byte(d.step >> 8)
		p[13] = byte(d.n)
		d.n++
	}
	return len(p), nil
}

// execOp runs one step against the rig. API methods go through the
// orchestrator only.
func execOp(ctx context.Context, rig *svcrig.Rig, op Op, step int) (res Result) {
	uuid.SetRand(&detRand{step: step + 1})
	defer uuid.SetRand(nil)
	defer func() {
		if r := recover(); r != nil {
			res.Panic = fmt.Sprint(r)
		}
	}()
	var err error
	switch op.Method {
	case mPlCreate:
		var p *pipeline.Instance
		p, err = rig.Orc.Pipelines.Create(ctx, pipeline.Config{Name: op.Name, Description: op.Desc})
		if p != nil {
			res.ID = p.ID
		}
	case mPlUpdate:
		_, err = rig.Orc.Pipelines.Update(ctx, op.ID, pipeline.Config{Name: op.Name, Description: op.Desc})
	case mPlDelete:
		err = rig.Orc.Pipelines.Delete(ctx, op.ID)
	case mPlUpdateDLQ:
		_, err = rig.Orc.Pipelines.UpdateDLQ(ctx, op.ID, pipeline.DLQ{
			Plugin: op.Plugin, Settings: cloneMap(op.Settings), WindowSize: op.DLQWindow, WindowNackThreshold: op.DLQNack,
		})
	case mConnCreate:
		var c *connector.Instance
		c, err = rig.Orc.Connectors.Create(ctx, connector.Type(op.ConnType), op.Plugin, op.Parent,
			connector.Config{Name: op.Name, Settings: cloneMap(op.Settings)})
		if c != nil {
			res.ID = c.ID
		}
	case mConnUpdate:
		_, err = rig.Orc.Connectors.Update(ctx, op.ID, op.Plugin, connector.Config{Name: op.Name, Settings: cloneMap(op.Settings)})
	case mConnDelete:
		err = rig.Orc.Connectors.Delete(ctx, op.ID)
	case mProcCreate:
		var p *processor.Instance
		p, err = rig.Orc.Processors.Create(ctx, op.Plugin,
			processor.Parent{ID: op.Parent, Type: processor.ParentType(op.ParentType)},
			processor.Config{Settings: cloneMap(op.Settings), Workers: op.Workers}, op.Cond)
		if p != nil {
			res.ID = p.ID
		}
	case mProcUpdate:
		_, err = rig.Orc.Processors.Update(ctx, op.ID, op.Plugin, processor.Config{Settings: cloneMap(op.Settings), Workers: op.Workers})
	case mProcDelete:
		err = rig.Orc.Processors.Delete(ctx, op.ID)
	case eStart:
		err = rig.Orc.Pipelines.Start(ctx, op.ID)
	case eStop:
		err = rig.Orc.Pipelines.Stop(ctx, op.ID, false)
	case eProvision:
		err = provisionConfig(ctx, rig, op)
	default:
		err = fmt.Errorf("c14: unknown method %q", op.Method)
	}
	if err != nil {
		res.err = err
		res.Err = err.Error()
		if len(res.Err) > 200 {
			res.Err = res.Err[:200]
		}
		res.ID = ""
	}
	return res
}

func cloneMap(m map[string]string) map[string]string {
	if m == nil {
		return nil
	}
	out := make(map[string]string, len(m))
	for k, v := range m {
		out[k] = v
	}
	return out
}

// provisionConfig creates what the file provisioner would create for a small
// pipeline config — directly through the services with ProvisionTypeConfig:
// one pipeline, a source (with one processor), a destination and a pipeline
// processor.
func provisionConfig(ctx context.Context, rig *svcrig.Rig, op Op) error {
	plID := op.ID
	if _, err := rig.Pipelines.Create(ctx, plID, pipeline.Config{Name: op.Name, Description: "provisioned by config"}, pipeline.ProvisionTypeConfig); err != nil {
		return err
	}
	src, dst := plID+":src", plID+":dst"
	for _, c := range []struct {
		id string
		t  connector.Type
	}{{src, connector.TypeSource}, {dst, connector.TypeDestination}} {
		if _, err := rig.Connectors.Create(ctx, c.id, c.t, svcrig.ConnPluginA, plID,
			connector.Config{Name: c.id, Settings: map[string]string{"k": "cfg"}}, connector.ProvisionTypeConfig); err != nil {
			return err
		}
		if _, err := rig.Pipelines.AddConnector(ctx, plID, c.id); err != nil {
			return err
		}
	}
	plProc, srcProc := plID+":proc", src+":proc"
	if _, err := rig.Processors.Create(ctx, plProc, svcrig.ProcPluginA, processor.Parent{ID: plID, Type: processor.ParentTypePipeline},
		processor.Config{Settings: map[string]string{"k": "cfg"}, Workers: 1}, processor.ProvisionTypeConfig, ""); err != nil {
		return err
	}
	if _, err := rig.Pipelines.AddProcessor(ctx, plID, plProc); err != nil {
		return err
	}
	if _, err := rig.Processors.Create(ctx, srcProc, svcrig.ProcPluginB, processor.Parent{ID: src, Type: processor.ParentTypeConnector},
		processor.Config{Workers: 2}, processor.ProvisionTypeConfig, "{{ true }}"); err != nil {
		return err
	}
	if _, err := rig.Connectors.AddProcessor(ctx, src, srcProc); err != nil {
		return err
	}
	return nil
}

// ---------------------------------------------------------------------------
// generation

type gen struct {
	rng         *rand.Rand
	provisioned int
}

var namePool = []string{"n1", "n2", "n3", "n4", "n5"}

func (g *gen) name() (string, string) {
	switch x := g.rng.Intn(28); {
	case x == 0:
		return "", "empty-name"
	case x == 1:
		return strings.Repeat("x", 300), "long-name"
	default:
		// names are exact strings: a case variant or a padded variant of a pool name
		// is a DIFFERENT name (it may coexist with the plain one, and renaming to or
		// from it must reserve and release exactly that string)
		n := namePool[g.rng.Intn(len(namePool))]
		switch x {
		case 2:
			return strings.ToUpper(n), "case-variant-name"
		case 3:
			return " " + n, "padded-name"
		case 4:
			return strings.ToUpper(n) + " ", "case-variant-padded-name"
		}
		return n, "pool-name"
	}
}

func (g *gen) settings() (map[string]string, string) {
	switch x := g.rng.Intn(16); {
	case x == 0:
		return map[string]string{svcrig.InvalidSettingKey: "1"}, "invalid-settings"
	case x == 1:
		return nil, "nil-settings"
	default:
		return map[string]string{"k": fmt.Sprintf("v%d", g.rng.Intn(4))}, "settings"
	}
}

func (g *gen) connPlugin() (string, string) {
	switch x := g.rng.Intn(18); {
	case x == 0:
		return "builtin:nope", "unknown-plugin"
	case x == 1:
		return "", "empty-plugin"
	case x < 10:
		return svcrig.ConnPluginA, "plugin"
	default:
		return svcrig.ConnPluginB, "plugin"
	}
}

func (g *gen) procPlugin() (string, string) {
	switch x := g.rng.Intn(18); {
	case x == 0:
		return "builtin:nope", "unknown-plugin"
	case x == 1:
		return "", "empty-plugin"
	case x < 10:
		return svcrig.ProcPluginA, "plugin"
	default:
		return svcrig.ProcPluginB, "plugin"
	}
}

// idPool is the ids of one entity kind, split by whether the property forbids
// touching them right now (running pipeline / file-provisioned).
type idPool struct{ free, guarded []string }

func (p idPool) all() []string { return append(append([]string(nil), p.free...), p.guarded...) }

// pick chooses an id: mostly an entity of the expected kind (modifiable ones
// preferred, guarded ones regularly), sometimes an id of another kind, an
// unknown id or the empty id.
func (g *gen) pick(own idPool, other []string) (string, string) {
	x := g.rng.Intn(100)
	switch {
	case x < 4:
		return "does-not-exist", "unknown-id"
	case x < 6:
		return "", "empty-id"
	case x < 10 && len(other) > 0:
		return other[g.rng.Intn(len(other))], "wrong-kind-id"
	case x < 30 && len(own.guarded) > 0:
		return own.guarded[g.rng.Intn(len(own.guarded))], "guarded-id"
	case len(own.free) > 0:
		return own.free[g.rng.Intn(len(own.free))], "existing-id"
	case len(own.guarded) > 0:
		return own.guarded[g.rng.Intn(len(own.guarded))], "guarded-id"
	default:
		return "does-not-exist", "unknown-id"
	}
}

func (g *gen) next(st svcrig.State, step int) Op {
	pls := svcrig.SortedKeys(st.Pipelines)
	conns := svcrig.SortedKeys(st.Connectors)
	procs := svcrig.SortedKeys(st.Processors)
	var plPool, connPool, procPool idPool
	split := func(pool *idPool, id, method string) {
		if guardOf(st, Op{Method: method, ID: id}) != "" {
			pool.guarded = append(pool.guarded, id)
		} else {
			pool.free = append(pool.free, id)
		}
	}
	for _, id := range pls {
		split(&plPool, id, mPlUpdate)
	}
	for _, id := range conns {
		split(&connPool, id, mConnUpdate)
	}
	for _, id := range procs {
		split(&procPool, id, mProcUpdate)
	}

	var running, stopped []string
	for _, id := range pls {
		if st.Pipelines[id].Status == pipeline.StatusRunning.String() {
			running = append(running, id)
		} else {
			stopped = append(stopped, id)
		}
	}

	type choice struct {
		m string
		w int
	}
	choices := []choice{
		{mPlCreate, 9}, {mPlUpdate, 8}, {mPlDelete, 5}, {mPlUpdateDLQ, 7},
		{mConnCreate, 16}, {mConnUpdate, 9}, {mConnDelete, 9},
		{mProcCreate, 15}, {mProcUpdate, 8}, {mProcDelete, 8},
		{eStart, 4}, {eStop, 4},
	}
	if len(pls) < 2 {
		choices[0].w = 40
	}
	if g.provisioned < 2 {
		w := 3
		if step == 0 {
			w = 50
		}
		choices = append(choices, choice{eProvision, w})
	}
	total := 0
	for _, c := range choices {
		total += c.w
	}
	x := g.rng.Intn(total)
	m := ""
	for _, c := range choices {
		if x < c.w {
			m = c.m
			break
		}
		x -= c.w
	}

	op := Op{Method: m}
	shapes := []string{}
	sh := func(s string) { shapes = append(shapes, s) }
	switch m {
	case mPlCreate:
		var s string
		op.Name, s = g.name()
		sh(s)
		op.Desc = fmt.Sprintf("d%d", g.rng.Intn(3))
	case mPlUpdate:
		var s string
		op.ID, s = g.pick(plPool, conns)
		sh(s)
		op.Name, s = g.name()
		sh(s)
		op.Desc = fmt.Sprintf("d%d", g.rng.Intn(3))
	case mPlDelete:
		var s string
		op.ID, s = g.pick(plPool, conns)
		sh(s)
	case mPlUpdateDLQ:
		var s string
		op.ID, s = g.pick(plPool, procs)
		sh(s)
		op.Plugin, s = g.connPlugin()
		sh(s)
		op.Settings, s = g.settings()
		sh(s)
		switch g.rng.Intn(8) {
		case 0:
			op.DLQWindow, op.DLQNack = -1, 0
			sh("negative-window")
		case 1:
			op.DLQWindow, op.DLQNack = 2, 5
			sh("nack-over-window")
		default:
			op.DLQWindow = g.rng.Intn(5)
			if op.DLQWindow > 0 {
				op.DLQNack = g.rng.Intn(op.DLQWindow)
			}
		}
	case mConnCreate:
		var s string
		op.Parent, s = g.pick(plPool, conns)
		sh("pipeline:" + s)
		op.Plugin, s = g.connPlugin()
		sh(s)
		op.Name, s = g.name()
		sh(s)
		op.Settings, s = g.settings()
		sh(s)
		switch x := g.rng.Intn(14); {
		case x == 0:
			op.ConnType = 0
			sh("invalid-type")
		case x < 8:
			op.ConnType = int(connector.TypeSource)
		default:
			op.ConnType = int(connector.TypeDestination)
		}
	case mConnUpdate:
		var s string
		op.ID, s = g.pick(connPool, pls)
		sh(s)
		op.Plugin, s = g.connPlugin()
		sh(s)
		op.Name, s = g.name()
		sh(s)
		op.Settings, s = g.settings()
		sh(s)
		// Update accepts values Create rejects; make those regular, they
		// matter for what a later rollback-by-recreate can do
		switch g.rng.Intn(12) {
		case 0:
			op.Name = ""
			sh("update-to-empty-name")
		case 1:
			op.Plugin = ""
			sh("update-to-empty-plugin")
		}
	case mConnDelete:
		var s string
		op.ID, s = g.pick(connPool, procs)
		sh(s)
	case mProcCreate:
		var s string
		switch x := g.rng.Intn(20); {
		case x == 0:
			op.ParentType = 0
			op.Parent, s = g.pick(plPool, conns)
			sh("invalid-parent-type")
		case x < 10:
			op.ParentType = int(processor.ParentTypePipeline)
			op.Parent, s = g.pick(plPool, conns) // other: connector id with pipeline parent type
			sh("pipeline-parent:" + s)
		default:
			op.ParentType = int(processor.ParentTypeConnector)
			op.Parent, s = g.pick(connPool, pls)
			sh("connector-parent:" + s)
		}
		op.Plugin, s = g.procPlugin()
		sh(s)
		op.Settings, s = g.settings()
		if s != "invalid-settings" {
			sh(s)
		}
		switch x := g.rng.Intn(10); {
		case x == 0:
			op.Workers = -1
			sh("negative-workers")
		case x < 4:
			op.Workers = 0
		default:
			op.Workers = 1 + g.rng.Intn(3)
		}
		if g.rng.Intn(3) == 0 {
			op.Cond = fmt.Sprintf("{{ eq .Metadata.k \"%d\" }}", g.rng.Intn(3))
		}
	case mProcUpdate:
		var s string
		op.ID, s = g.pick(procPool, conns)
		sh(s)
		op.Plugin, s = g.procPlugin()
		sh(s)
		if g.rng.Intn(8) == 0 {
			op.Plugin = "builtin:nope" // accepted by Update, rejected by Create
			sh("update-to-unknown-plugin")
		}
		op.Settings, _ = g.settings()
		op.Workers = g.rng.Intn(4)
	case mProcDelete:
		var s string
		op.ID, s = g.pick(procPool, pls)
		sh(s)
	case eStart:
		if len(stopped) > 0 && g.rng.Intn(10) > 0 {
			op.ID = stopped[g.rng.Intn(len(stopped))]
		} else {
			op.ID, _ = g.pick(idPool{free: pls}, nil)
		}
	case eStop:
		if len(running) > 0 && g.rng.Intn(10) > 0 {
			op.ID = running[g.rng.Intn(len(running))]
		} else {
			op.ID, _ = g.pick(idPool{free: pls}, nil)
		}
	case eProvision:
		g.provisioned++
		op.ID = fmt.Sprintf("cfg-pl-%d", g.provisioned)
		op.Name = fmt.Sprintf("cfg-name-%d", g.provisioned)
	}
	op.Shape = strings.Join(shapes, ",")
	return op
}
