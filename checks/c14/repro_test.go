package c14

// Hand-written minimal reproductions of the defect family the C14 monitor
// reports on the unchanged tree. Informational: they log what they observe and
// never fail (run: go test -tags verif ./checks/c14 -run Repro -v).

import (
	"context"
	"fmt"
	"testing"

	"github.com/conduitio/conduit-commons/database/inmemory"
	"github.com/conduitio/conduit/pkg/connector"
	"github.com/conduitio/conduit/pkg/pipeline"
	"github.com/conduitio/conduit/pkg/processor"

	"verif/internal/faultdb"
	"verif/internal/svcrig"
)

type reproRig struct {
	*svcrig.Rig
	script *faultdb.Script
	fdb    *faultdb.DB
}

func newReproRig(t *testing.T) *reproRig {
	fdb := faultdb.New(&inmemory.DB{})
	sc := faultdb.NewScript()
	fdb.SetController(sc)
	r := svcrig.New(fdb, svcrig.Options{})
	if err := r.Init(context.Background()); err != nil {
		t.Fatal(err)
	}
	return &reproRig{Rig: r, script: sc, fdb: fdb}
}

// failNext makes the next store operation of the given kind on a key with the
// given prefix fail once.
func (r *reproRig) failNext(kind, prefix string) {
	r.script.Clear()
	r.script.Add(&faultdb.Rule{Kind: kind, KeyPrefix: prefix, Nth: 1, Dec: faultdb.Decision{Err: faultdb.ErrInjected}})
}

func (r *reproRig) restarted(t *testing.T) svcrig.State {
	db := &inmemory.DB{}
	if err := faultdb.Restore(db, r.fdb.Snapshot()); err != nil {
		t.Fatal(err)
	}
	fresh := svcrig.New(db, svcrig.Options{})
	if err := fresh.Init(context.Background()); err != nil {
		t.Fatal(err)
	}
	return fresh.Observe(context.Background())
}

func call(f func() error) (err error, panicked any) {
	defer func() { panicked = recover() }()
	return f(), nil
}

func TestReproPipelineUpdateAndDLQ(t *testing.T) {
	ctx := context.Background()
	r := newReproRig(t)
	pl, _ := r.Orc.Pipelines.Create(ctx, pipeline.Config{Name: "a"})

	r.failNext(faultdb.OpSet, "pipeline:instance:")
	_, err := r.Orc.Pipelines.Update(ctx, pl.ID, pipeline.Config{Name: "b"})
	r.script.Clear()
	live := r.Observe(ctx).Pipelines[pl.ID]
	t.Logf("Pipelines.Update err=%v; live name=%q, restarted name=%q  (want both \"a\")", err != nil, live.Name, r.restarted(t).Pipelines[pl.ID].Name)
	_, err = r.Orc.Pipelines.Create(ctx, pipeline.Config{Name: "b"})
	t.Logf("  creating another pipeline named \"b\" afterwards: err=%v (name registry also took the failed rename)", err)

	r2 := newReproRig(t)
	pl2, _ := r2.Orc.Pipelines.Create(ctx, pipeline.Config{Name: "a"})
	r2.failNext(faultdb.OpSet, "pipeline:instance:")
	_, err = r2.Orc.Pipelines.UpdateDLQ(ctx, pl2.ID, pipeline.DLQ{Plugin: svcrig.ConnPluginA, WindowSize: 4, WindowNackThreshold: 2})
	r2.script.Clear()
	t.Logf("Pipelines.UpdateDLQ err=%v; live DLQ plugin=%q, restarted=%q (want both builtin:log)", err != nil,
		r2.Observe(ctx).Pipelines[pl2.ID].DLQPlugin, r2.restarted(t).Pipelines[pl2.ID].DLQPlugin)
}

func TestReproConnectorUpdate(t *testing.T) {
	ctx := context.Background()
	for _, f := range []struct{ kind, prefix string }{{faultdb.OpSet, "connector:instance:"}, {faultdb.OpCommit, ""}} {
		r := newReproRig(t)
		pl, _ := r.Orc.Pipelines.Create(ctx, pipeline.Config{Name: "a"})
		c, _ := r.Orc.Connectors.Create(ctx, connector.TypeSource, svcrig.ConnPluginA, pl.ID, connector.Config{Name: "c", Settings: map[string]string{"k": "1"}})
		r.failNext(f.kind, f.prefix)
		_, err := r.Orc.Connectors.Update(ctx, c.ID, svcrig.ConnPluginB, connector.Config{Name: "c2", Settings: map[string]string{"k": "2"}})
		r.script.Clear()
		live, re := r.Observe(ctx).Connectors[c.ID], r.restarted(t).Connectors[c.ID]
		t.Logf("Connectors.Update fault=%s err=%v; live plugin=%s name=%s settings=%v | restarted plugin=%s name=%s settings=%v (want fake-a, c, k:1)",
			f.kind, err != nil, live.Plugin, live.Name, live.Settings, re.Plugin, re.Name, re.Settings)
	}
}

func TestReproConnectorCreateDanglingID(t *testing.T) {
	ctx := context.Background()
	r := newReproRig(t)
	pl, _ := r.Orc.Pipelines.Create(ctx, pipeline.Config{Name: "a"})
	r.failNext(faultdb.OpSet, "pipeline:instance:") // the AddConnector write
	_, err := r.Orc.Connectors.Create(ctx, connector.TypeSource, svcrig.ConnPluginA, pl.ID, connector.Config{Name: "c"})
	r.script.Clear()
	st := r.Observe(ctx)
	t.Logf("Connectors.Create err=%v; connectors=%d, pipeline.ConnectorIDs=%v, restarted ConnectorIDs=%v; closure: %v",
		err != nil, len(st.Connectors), st.Pipelines[pl.ID].ConnectorIDs, r.restarted(t).Pipelines[pl.ID].ConnectorIDs, svcrig.Closure(st))
	err = r.Orc.Pipelines.Delete(ctx, pl.ID)
	t.Logf("  the pipeline can no longer be deleted: %v", err)
}

func TestReproProcessorCreateDanglingID(t *testing.T) {
	ctx := context.Background()
	for _, parentIsConn := range []bool{false, true} {
		r := newReproRig(t)
		pl, _ := r.Orc.Pipelines.Create(ctx, pipeline.Config{Name: "a"})
		c, _ := r.Orc.Connectors.Create(ctx, connector.TypeSource, svcrig.ConnPluginA, pl.ID, connector.Config{Name: "c"})
		parent, prefix := processor.Parent{ID: pl.ID, Type: processor.ParentTypePipeline}, "pipeline:instance:"
		if parentIsConn {
			parent, prefix = processor.Parent{ID: c.ID, Type: processor.ParentTypeConnector}, "connector:instance:"
		}
		r.failNext(faultdb.OpSet, prefix)
		_, err := r.Orc.Processors.Create(ctx, svcrig.ProcPluginA, parent, processor.Config{Workers: 1}, "")
		r.script.Clear()
		st := r.Observe(ctx)
		t.Logf("Processors.Create (parent conn=%v) err=%v; processors=%d pipeline.ProcessorIDs=%v connector.ProcessorIDs=%v closure=%v",
			parentIsConn, err != nil, len(st.Processors), st.Pipelines[pl.ID].ProcessorIDs, st.Connectors[c.ID].ProcessorIDs, svcrig.Closure(st))
	}
}

func TestReproConnectorDelete(t *testing.T) {
	ctx := context.Background()
	for _, f := range []struct{ kind, prefix string }{{faultdb.OpSet, "pipeline:instance:"}, {faultdb.OpCommit, ""}} {
		r := newReproRig(t)
		pl, _ := r.Orc.Pipelines.Create(ctx, pipeline.Config{Name: "a"})
		c1, _ := r.Orc.Connectors.Create(ctx, connector.TypeSource, svcrig.ConnPluginA, pl.ID, connector.Config{Name: "c1", Settings: map[string]string{"k": "1"}})
		c2, _ := r.Orc.Connectors.Create(ctx, connector.TypeDestination, svcrig.ConnPluginA, pl.ID, connector.Config{Name: "c2"})
		_ = r.Orc.Pipelines.Start(ctx, pl.ID) // the source gets a position and an active config
		_ = r.Orc.Pipelines.Stop(ctx, pl.ID, false)
		before := r.Observe(ctx)
		r.failNext(f.kind, f.prefix)
		err := r.Orc.Connectors.Delete(ctx, c1.ID)
		r.script.Clear()
		st := r.Observe(ctx)
		t.Logf("Connectors.Delete fault=%s err=%v\n   before: ids=%v state=%s lastActive=%v\n   after:  ids=%v state=%q lastActive=%v exists=%v closure=%v onDeleted-events=%v\n   restarted: ids=%v state=%s",
			f.kind, err != nil,
			before.Pipelines[pl.ID].ConnectorIDs, before.Connectors[c1.ID].State, before.Connectors[c1.ID].LastActiveSettings,
			st.Pipelines[pl.ID].ConnectorIDs, st.Connectors[c1.ID].State, st.Connectors[c1.ID].LastActiveSettings, st.Connectors[c1.ID].ID != "", svcrig.Closure(st),
			r.ConnPlugins.DeletedEvents(),
			r.restarted(t).Pipelines[pl.ID].ConnectorIDs, r.restarted(t).Connectors[c1.ID].State)
		_ = c2
	}
}

func TestReproProcessorDelete(t *testing.T) {
	ctx := context.Background()
	for _, f := range []struct{ kind, prefix string }{{faultdb.OpSet, "pipeline:instance:"}, {faultdb.OpCommit, ""}} {
		r := newReproRig(t)
		pl, _ := r.Orc.Pipelines.Create(ctx, pipeline.Config{Name: "a"})
		parent := processor.Parent{ID: pl.ID, Type: processor.ParentTypePipeline}
		p1, _ := r.Orc.Processors.Create(ctx, svcrig.ProcPluginA, parent, processor.Config{Workers: 2}, "")
		p2, _ := r.Orc.Processors.Create(ctx, svcrig.ProcPluginA, parent, processor.Config{Workers: 2}, "")
		_, _ = r.Orc.Processors.Update(ctx, p1.ID, svcrig.ProcPluginA, processor.Config{Workers: 0})
		before := r.Observe(ctx)
		r.failNext(f.kind, f.prefix)
		err := r.Orc.Processors.Delete(ctx, p1.ID)
		r.script.Clear()
		st := r.Observe(ctx)
		t.Logf("Processors.Delete fault=%s err=%v; order before=%v after=%v; workers before=%d after=%d; closure=%v",
			f.kind, err != nil, before.Pipelines[pl.ID].ProcessorIDs, st.Pipelines[pl.ID].ProcessorIDs,
			before.Processors[p1.ID].Workers, st.Processors[p1.ID].Workers, svcrig.Closure(st))
		_ = p2
	}
}

func TestReproProcessorUpdate(t *testing.T) {
	ctx := context.Background()
	r := newReproRig(t)
	pl, _ := r.Orc.Pipelines.Create(ctx, pipeline.Config{Name: "a"})
	p, _ := r.Orc.Processors.Create(ctx, svcrig.ProcPluginA, processor.Parent{ID: pl.ID, Type: processor.ParentTypePipeline}, processor.Config{Workers: 1}, "")
	r.failNext(faultdb.OpSet, "processor:instance:")
	_, err := r.Orc.Processors.Update(ctx, p.ID, svcrig.ProcPluginB, processor.Config{Workers: 3})
	r.script.Clear()
	live, re := r.Observe(ctx).Processors[p.ID], r.restarted(t).Processors[p.ID]
	t.Logf("Processors.Update err=%v; live plugin=%s workers=%d | restarted plugin=%s workers=%d (want fakeproc-a, 1)", err != nil, live.Plugin, live.Workers, re.Plugin, re.Workers)
}

func TestReproDeleteRollbackPanics(t *testing.T) {
	ctx := context.Background()
	// connector: Update accepts an empty name (or plugin); Delete's rollback
	// re-Creates through the validating Create
	r := newReproRig(t)
	pl, _ := r.Orc.Pipelines.Create(ctx, pipeline.Config{Name: "a"})
	c, _ := r.Orc.Connectors.Create(ctx, connector.TypeSource, svcrig.ConnPluginA, pl.ID, connector.Config{Name: "c"})
	_, err := r.Orc.Connectors.Update(ctx, c.ID, svcrig.ConnPluginA, connector.Config{Name: ""})
	t.Logf("Connectors.Update to empty name: err=%v", err)
	r.failNext(faultdb.OpCommit, "")
	err, p := call(func() error { return r.Orc.Connectors.Delete(ctx, c.ID) })
	r.script.Clear()
	t.Logf("Connectors.Delete with failing commit: err=%v panic=%v", err, p)

	// processor: Update accepts an unknown plugin name
	r2 := newReproRig(t)
	pl2, _ := r2.Orc.Pipelines.Create(ctx, pipeline.Config{Name: "a"})
	pr, _ := r2.Orc.Processors.Create(ctx, svcrig.ProcPluginA, processor.Parent{ID: pl2.ID, Type: processor.ParentTypePipeline}, processor.Config{}, "")
	_, err = r2.Orc.Processors.Update(ctx, pr.ID, "builtin:nope", processor.Config{})
	t.Logf("Processors.Update to unknown plugin: err=%v", err)
	r2.failNext(faultdb.OpCommit, "")
	err, p = call(func() error { return r2.Orc.Processors.Delete(ctx, pr.ID) })
	r2.script.Clear()
	t.Logf("Processors.Delete with failing commit: err=%v panic=%v", err, p)
	_ = fmt.Sprint
}
