// Package c01: no source ack before every destination (or the DLQ) confirmed the record.
package c01

import (
	"fmt"

	"verif/internal/pipe"
	"verif/internal/vp"
)

func gen(seed int64, tier string, idx int) *pipe.Scenario {
	g := pipe.NewGen(seed, idx)
	o := pipe.GenOpts{
		MaxSources: 3, MaxDests: 3, MaxProcs: 2, MinRecords: 5, MaxRecords: 60,
		AllowMulti: true, AllowCut: true, AllowFilter: true, AllowProcErr: true, AllowDstNack: true,
		AllowWorkers: true, AllowCond: true, DLQWindows: []int{0, 0, 3, 5, 8},
	}
	sc := g.Scenario(o)
	// control: most scenarios run to completion; some are stopped / force-stopped / fail mid-flow
	switch g.R.Intn(6) {
	case 0:
		sc.Steps = append(sc.Steps, pipe.Step{AtEvent: 10 + g.R.Intn(240), Op: "stopwait"})
	case 1:
		sc.Steps = append(sc.Steps, pipe.Step{AtEvent: 10 + g.R.Intn(240), Op: "forcestop"})
	case 2:
		// transient destination failure -> recovery restart (a source-side
		// stream failure costs the engine's 10 s teardown drain budget, so it
		// is kept for a few thorough cases only)
		if tier == "thorough" && g.R.Intn(20) == 0 {
			s := &sc.Topo.Sources[g.R.Intn(len(sc.Topo.Sources))]
			s.Src.FailAt = map[int]string{2 + g.R.Intn(10): "vf transient source failure"}
		} else {
			d := &sc.Topo.Dests[g.R.Intn(len(sc.Topo.Dests))]
			d.Dst.Shape = map[int]string{1 + g.R.Intn(12): "streamerr"}
			d.Dst.ShapeSess = 1
		}
	case 3:
		sc.Steps = append(sc.Steps, pipe.Step{AtEvent: 10 + g.R.Intn(200), Op: "stopall"})
	}
	if g.R.Intn(5) == 0 {
		sc.Faults = append(sc.Faults, pipe.Fault{Kind: "commit", Every: int64(2 + g.R.Intn(3)), Action: "delay", DelayUs: 300 + g.R.Intn(2000)})
	}
	if idx%16 == 5 {
		// the DLQ confirms only part of one dead-letter write
		sc.Steps, sc.Faults = nil, nil
		sc.Topo.Sources = sc.Topo.Sources[:1]
		sc.Records = sc.Records[:1]
		if sc.Records[0] < 20 {
			sc.Records[0] = 20
		}
		sc.Topo.Sources[0].Procs = nil
		sc.Topo.PipeProcs = nil
		sc.Topo.Dests[0].Procs = nil
		sc.Cond = nil
		g.PartialDLQFailure(sc)
	}
	return sc
}

func judge(out *pipe.Outcome, ix *pipe.Index) pipe.Verdict {
	var v pipe.Verdict
	vs, j := pipe.OracleC01(ix)
	v.Violations = vs
	v.AddJudged("source_acks_", j)
	// the stored position is the durable form of the ack (it is what the source is
	// opened with next time): it must not pass a record that was neither confirmed
	// by every destination nor dead-lettered nor filtered
	vs02, j02 := pipe.OracleC02(ix)
	for _, x := range vs02 {
		if x.Class == "commit-past-unhandled" {
			x.Property = "C01"
			x.Identity = "C01/stored-position-past-unconfirmed-record/" + out.Sc.Engine
			v.Violations = append(v.Violations, x)
		}
	}
	if v.Stats == nil {
		v.Stats = map[string]int64{}
	}
	v.Stats["stored_position_obligations"] += j02.ByHow["commit-covers-handled"]
	// non-trivial: at least one ack judged that needed >=2 confirming parties, a DLQ or a filter
	multi := len(out.Sc.Topo.Dests) >= 2 && j.ByHow["delivered"] > 0
	v.Nontrivial = j.Obligations > 0 && (multi || j.ByHow["dlq"] > 0 || j.ByHow["filtered"] > 0)
	ctl := "run"
	for _, s := range out.Sc.Steps {
		ctl = s.Op
	}
	classes := fmt.Sprintf("d%v-q%v-f%v", j.ByHow["delivered"] > 0, j.ByHow["dlq"] > 0, j.ByHow["filtered"] > 0)
	v.SigExtra = ctl + "|" + classes + "|" + pipe.CompletionOrderClass(out.Evs)
	v.Sets = map[string][]string{"completion_orders": {pipe.CompletionOrderSig(out.Evs)}}
	return v
}

func init() {
	vp.Register(&pipe.PropDef{
		PID: "C01", PLevel: "exploration",
		RuleText: "scenario = (engine v1|v2, 1-3 sources x 1-3 destinations, 0-2 scripted processors per attachment point incl. filter/error/split/cut-short/conditions/parallel workers, per-destination nack and latency scripts, DLQ window, stop/force-stop/StopAll/transient-failure at a PRNG-chosen event index) drawn from VERIF_SEED and the case index; every source ack observed is one obligation. A scenario is non-trivial when at least one judged ack needed >=2 confirming destinations, a DLQ confirmation or a filter; distinct = distinct (engine, topology shape, control kind, outcome classes present, destination completion-order class).",
		Assume:   []string{"destination durability is the fake plugin's positive ack", "fake plugins log a confirmation before releasing it to the engine and log a source ack after receiving it, so logging skew can only hide, never fabricate, an early ack", "reference model of plugin result semantics (internal/pipe/model.go)"},
		Quick:    320, Thorough: 3200,
		PointBias: []string{"funnel.worker.ack", "funnel.worker.nack", "funnel.multiack.ack", "funnel.multiack.nack", "connector.source.ack", "stream.sourceacker.ack", "stream.sourceacker.nack", "stream.fanout.ack"},
		Anchors:   []string{"pkg/lifecycle/stream/source_acker.go", "pkg/lifecycle/stream/fanout.go", "pkg/lifecycle/stream/destination_acker.go", "pkg/lifecycle/stream/destination.go", "pkg/lifecycle/stream/message.go", "pkg/lifecycle/stream/dlq.go", "pkg/lifecycle-poc/funnel/worker.go", "pkg/lifecycle-poc/funnel/run_ledger.go", "pkg/lifecycle-poc/funnel/destination.go", "pkg/lifecycle-poc/funnel/batch.go", "pkg/lifecycle-poc/funnel/dlq.go", "pkg/connector/source.go"},
		Gen:       gen, Judge: judge,
	})
}
