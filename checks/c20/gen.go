package c20

import (
	"math/rand"
)

// kind is one error constructor (or constructor family) of the generator.
type kind uint8

const (
	// leaves
	kPlain       kind = iota // cerrors.New / errors.New / cerrors.Errorf without verbs
	kSentinel                // one of the package-level sentinels (pipeline.ErrPipelineRunning, ...)
	kCoded                   // conduiterr.New(code) / Wrap(code, msg, nil) / WithCode(nil, code)
	kDecoy                   // "%v"/"%s"/.Error() formatting of a fatal+coded+sentinel error: NOT wrapping, keeps nothing
	kCanceled                // context.Canceled
	kEnvSentinel             // syscall.ECONNREFUSED / syscall.EADDRINUSE
	kGRPCStatus              // google.golang.org/grpc/status.Error(code, msg)
	// unary
	kCerrW1   // cerrors.Errorf with a single %w anywhere in the format
	kFmtW1    // fmt.Errorf with a single %w
	kFatal    // cerrors.FatalError
	kWrap     // conduiterr.Wrap(code, msg, child)
	kWithCode // conduiterr.WithCode(child, code)
	kWUR      // conduiterr.WithUnknownReason(child, category)
	kJoin1    // cerrors.Join / errors.Join with one non-nil member and nil members around it
	// n-ary
	kCerrW2 // cerrors.Errorf("%w (while handling: %w)", a, b) -- funnel/worker.go idiom
	kFmtWN  // fmt.Errorf with two or three %w
	kJoinN  // cerrors.Join / errors.Join with 2..3 members (+ nil members)
	numKinds
)

var kindName = [...]string{
	kPlain: "plain", kSentinel: "sentinel", kCoded: "conduiterr.New", kDecoy: "fmt-%v-decoy",
	kCanceled: "context.Canceled", kEnvSentinel: "errno", kGRPCStatus: "grpcstatus.Error",
	kCerrW1: "cerrors.Errorf-%w", kFmtW1: "fmt.Errorf-%w", kFatal: "FatalError",
	kWrap: "conduiterr.Wrap", kWithCode: "conduiterr.WithCode", kWUR: "conduiterr.WithUnknownReason",
	kJoin1: "Join-1+nil", kCerrW2: "cerrors.Errorf-two-%w", kFmtWN: "fmt.Errorf-multi-%w", kJoinN: "Join-n",
}

func (k kind) String() string { return kindName[k] }

func (k kind) arity() int {
	switch {
	case k <= kGRPCStatus:
		return 0
	case k <= kJoin1:
		return 1
	default:
		return 2 // or 3 for kFmtWN / kJoinN in random trees
	}
}

// spec is a tree shape: the constructor of every node plus a parameter word
// from which the node's free choices (which code, which sentinel, which format
// string, where the nil members go) are derived.
type spec struct {
	k    kind
	kids []*spec
	p    uint32 // free-choice word
	code int    // >=0: index into the registered codes (overrides p), -1: from p
}

// ---------------------------------------------------------------------------
// enumerable spaces of tree shapes

type space interface {
	size() int64
	at(i int64) *spec
}

type leafSpace struct{ kinds []kind }

func (s leafSpace) size() int64      { return int64(len(s.kinds)) }
func (s leafSpace) at(i int64) *spec { return &spec{k: s.kinds[i], code: -1} }

type fixedSpace struct{ make func() *spec }

func (s fixedSpace) size() int64      { return 1 }
func (s fixedSpace) at(i int64) *spec { return s.make() }

type unionSpace struct{ parts []space }

func (s unionSpace) size() int64 {
	var n int64
	for _, p := range s.parts {
		n += p.size()
	}
	return n
}
func (s unionSpace) at(i int64) *spec {
	for _, p := range s.parts {
		if n := p.size(); i < n {
			return p.at(i)
		} else {
			i -= n
		}
	}
	panic("unionSpace: index out of range")
}

type unarySpace struct {
	kinds []kind
	child space
}

func (s unarySpace) size() int64 { return int64(len(s.kinds)) * s.child.size() }
func (s unarySpace) at(i int64) *spec {
	n := s.child.size()
	return &spec{k: s.kinds[i/n], kids: []*spec{s.child.at(i % n)}, code: -1}
}

type binarySpace struct {
	kinds       []kind
	left, right space
}

func (s binarySpace) size() int64 { return int64(len(s.kinds)) * s.left.size() * s.right.size() }
func (s binarySpace) at(i int64) *spec {
	nl, nr := s.left.size(), s.right.size()
	k := s.kinds[i/(nl*nr)]
	i %= nl * nr
	return &spec{k: k, kids: []*spec{s.left.at(i / nr), s.right.at(i % nr)}, code: -1}
}

// memoSpace caches size() (sizes are used on every at()).
type memoSpace struct {
	inner space
	n     int64
}

func memo(s space) space              { return &memoSpace{inner: s, n: s.size()} }
func (s *memoSpace) size() int64      { return s.n }
func (s *memoSpace) at(i int64) *spec { return s.inner.at(i) }

type alphabet struct {
	leaves, unary, binary []kind
}

var fullAlphabet = alphabet{
	leaves: []kind{kPlain, kSentinel, kCoded, kDecoy, kCanceled, kEnvSentinel, kGRPCStatus},
	unary:  []kind{kCerrW1, kFmtW1, kFatal, kWrap, kWithCode, kWUR, kJoin1},
	binary: []kind{kCerrW2, kFmtWN, kJoinN},
}

var coreAlphabet = alphabet{
	leaves: []kind{kPlain, kSentinel, kCoded},
	unary:  []kind{kCerrW1, kFatal, kWrap, kWithCode, kFmtW1},
	binary: []kind{kCerrW2, kJoinN},
}

// all trees over a of depth <= d (depth 0 = a leaf), each exactly once.
func allTrees(a alphabet, d int) space {
	s := space(leafSpace{a.leaves})
	for i := 0; i < d; i++ {
		s = memo(unionSpace{[]space{
			leafSpace{a.leaves},
			unarySpace{a.unary, s},
			binarySpace{a.binary, s, s},
		}})
	}
	return s
}

// restricted next level: unary over s, binary with one side from s and the
// other from the shallower space t.
func restrictedLevel(a alphabet, s, t space) space {
	return memo(unionSpace{[]space{
		unarySpace{a.unary, s},
		binarySpace{a.binary, s, t},
		binarySpace{a.binary, t, s},
	}})
}

// plain-wrapper contexts of depth <= d around a hole: any chain of plain unary
// wrappers, and plain n-ary wrappers whose other operand is a plain leaf.
var plainUnary = []kind{kCerrW1, kFmtW1, kFatal, kJoin1}
var plainBinary = []kind{kCerrW2, kFmtWN, kJoinN}

func contexts(hole space, d int) space {
	plainLeaf := leafSpace{[]kind{kPlain}}
	s := hole
	for i := 0; i < d; i++ {
		s = memo(unionSpace{[]space{
			hole,
			unarySpace{plainUnary, s},
			binarySpace{plainBinary, s, plainLeaf},
			binarySpace{plainBinary, plainLeaf, s},
		}})
	}
	return s
}

// the coded forms put into the hole for registered code c (index ci); "other"
// is a second registered code.
const numCodedForms = 9

func codedForm(form, ci, other int) *spec {
	leaf := func(k kind) *spec { return &spec{k: k, code: -1} }
	switch form {
	case 0: // conduiterr.New(c)
		return &spec{k: kCoded, code: ci, p: 0}
	case 1: // conduiterr.Wrap(c, msg, nil)
		return &spec{k: kCoded, code: ci, p: 1}
	case 2: // conduiterr.WithCode(nil, c)
		return &spec{k: kCoded, code: ci, p: 2}
	case 3: // Wrap(c, msg, plain)
		return &spec{k: kWrap, code: ci, kids: []*spec{leaf(kPlain)}}
	case 4: // Wrap(c, msg, sentinel)
		return &spec{k: kWrap, code: ci, kids: []*spec{leaf(kSentinel)}}
	case 5: // WithCode(plain-wrapped sentinel, c)
		return &spec{k: kWithCode, code: ci, kids: []*spec{{k: kCerrW1, code: -1, kids: []*spec{leaf(kSentinel)}}}}
	case 6: // WithCode(New(other), c): the override must win
		return &spec{k: kWithCode, code: ci, kids: []*spec{{k: kCoded, code: other}}}
	case 7: // Wrap(other, msg, Errorf("..: %w", New(c))): the inner code must pass through
		return &spec{k: kWrap, code: other, kids: []*spec{{k: kCerrW1, code: -1, kids: []*spec{{k: kCoded, code: ci}}}}}
	default: // FatalError(Wrap(c, msg, Join(nil, sentinel)))
		return &spec{k: kFatal, code: -1, kids: []*spec{{k: kWrap, code: ci, kids: []*spec{{k: kJoin1, code: -1, kids: []*spec{leaf(kSentinel)}}}}}}
	}
}

// assignParams fills the free-choice words of a shape from r (deterministic in
// r's seed), leaving explicitly chosen ones alone.
func assignParams(s *spec, r *rand.Rand) {
	if !(s.k == kCoded && s.code >= 0) { // codedForm fixes p for its coded leaves
		s.p = r.Uint32()
	}
	for _, k := range s.kids {
		assignParams(k, r)
	}
}

// ---------------------------------------------------------------------------
// random deep trees

// randTree draws a tree whose deepest path has exactly depth d (4..12) and at
// most budget nodes.
func randTree(r *rand.Rand, d int, budget *int, spine bool) *spec {
	*budget--
	if d == 0 || (!spine && (*budget <= 0 || r.Intn(100) < 12)) {
		// leaf
		w := r.Intn(100)
		var k kind
		switch {
		case w < 30:
			k = kPlain
		case w < 50:
			k = kSentinel
		case w < 75:
			k = kCoded
		case w < 82:
			k = kDecoy
		case w < 87:
			k = kCanceled
		case w < 92:
			k = kEnvSentinel
		default:
			k = kGRPCStatus
		}
		return &spec{k: k, code: -1, p: r.Uint32()}
	}
	w := r.Intn(100)
	var k kind
	switch {
	case w < 22:
		k = kCerrW1
	case w < 30:
		k = kFmtW1
	case w < 42:
		k = kFatal
	case w < 52:
		k = kWrap
	case w < 60:
		k = kWithCode
	case w < 64:
		k = kWUR
	case w < 70:
		k = kJoin1
	case w < 77:
		k = kCerrW2
	case w < 87:
		k = kFmtWN
	default:
		k = kJoinN
	}
	if *budget < 3 && k.arity() > 1 {
		k = kCerrW1
	}
	s := &spec{k: k, code: -1, p: r.Uint32()}
	n := k.arity()
	if n == 2 && k != kCerrW2 && r.Intn(3) == 0 {
		n = 3
	}
	spineAt := 0
	if spine {
		spineAt = r.Intn(n)
	}
	for i := 0; i < n; i++ {
		onSpine := spine && i == spineAt
		cd := d - 1
		if !onSpine && cd > 0 {
			cd = r.Intn(cd + 1)
			if cd > 4 {
				cd = r.Intn(cd + 1) // keep side branches mostly shallow
			}
		}
		s.kids = append(s.kids, randTree(r, cd, budget, onSpine))
	}
	return s
}
