// Package c20 monitors property C20: error classification (fatal-ness, code,
// sentinel, gRPC status, exit code) is stable under wrapping.
//
// The generator builds error TREES with the repository's real constructors
// and, alongside, their ground-truth labels; the repository's real classifiers
// are then called on the real values and compared with the labels.
package c20

import (
	"fmt"
	"math/rand"
	"runtime"
	"runtime/debug"
	"sort"
	"strings"
	"sync"
	"time"

	"verif/internal/vp"
)

func init() { vp.Register(&prop{}) }

type prop struct{}

func (*prop) ID() string    { return "C20" }
func (*prop) Level() string { return "exploration" }
func (*prop) Rule() string {
	return "A case is one contiguous slice of an exhaustive enumeration of error-tree SHAPES, or N random deep trees. " +
		"Parts: (full) every tree of depth<=2 over the full constructor alphabet {cerrors.New/errors.New, sentinel, conduiterr.New/Wrap(nil)/WithCode(nil), %v-formatted decoy, context.Canceled, ECONNREFUSED/EADDRINUSE, grpc status error | cerrors.Errorf single-%w (9 formats), fmt.Errorf single-%w, FatalError, conduiterr.Wrap, WithCode, WithUnknownReason, Join with nil members | cerrors.Errorf two-%w, fmt.Errorf multi-%w, Join}; " +
		"(core) every tree over the core alphabet {plain, sentinel, coded | cerrors.Errorf-%w, FatalError, Wrap, WithCode, fmt.Errorf-%w | cerrors.Errorf two-%w, Join} of depth<=3 with one operand of a binary root limited to depth<=1 (quick) / every tree of depth<=3 plus unary roots over the quick depth-3 set, i.e. depth 4 (thorough); " +
		"(codes) every registered code x 9 coded forms (New, Wrap(nil), WithCode(nil), Wrap over plain/sentinel, WithCode override, Wrap pass-through, ...) x every plain-wrapper context of depth<=2 (quick) / <=3 (thorough); " +
		"(random) PRNG trees with a spine of depth 4..12 and <=64 nodes. Free choices of a node (which code, sentinel, format string, nil positions) come from rand.NewSource(seed*1e6+idx). " +
		"Sig of a case = part + depth range + set of root constructors + set of ground-truth label combinations (fatal/coded/sentinel/other) the slice actually produced; a case is non-trivial when it judged trees in which a label sits under at least one wrapper."
}
func (*prop) Assumptions() []string {
	return []string{
		"ground truth is computed by the generator from the constructors' DOCUMENTED semantics: conduiterr.Wrap passes an inner code through, WithCode overrides, FatalError marks, %w/Join keep their operands (pre-order = errors.As order), %v/%s keep nothing",
		"cerrors.Errorf with two %w is generated because pkg/lifecycle-poc/funnel/worker.go uses it with the stated intent of keeping both errors in the chain",
		"exit-code table transcribed from the package doc of pkg/conduit/exitcode and the ADR 20260706-deterministic-cli-exit-codes, not from fromGRPCCode",
		"for un-coded errors the api/status oracle is metamorphic (category must be one a sentinel inside has when passed bare); with no sentinel inside only the internal.unknown fallback reason is demanded",
		"conduiterr.WithUnknownReason over an already coded error is a boundary conversion (returns the inner ConduitError), checked only for 'never downgrade a real code'; it is not treated as a wrapper",
		"codes registered under /repo/cmd (internal packages, not importable) are not in the registry of this binary; every code registered under /repo/pkg is",
		"stdlib errors.Is/As/Join, fmt.Errorf, grpc status and protobuf marshalling are trusted",
	}
}
func (*prop) CaseTimeout() time.Duration { return 10 * time.Minute }

// ---------------------------------------------------------------------------
// case layout

type part struct {
	name   string
	sp     space // nil for random
	slices int
	perRnd int // random trees per case
}

type layout struct {
	parts []part
	total int
}

var (
	layoutMu sync.Mutex
	layouts  = map[string]*layout{}
)

func codesSpace(depth int) space {
	var forms []space
	n := len(regCodes)
	for ci := 0; ci < n; ci++ {
		for f := 0; f < numCodedForms; f++ {
			ci, f := ci, f
			forms = append(forms, fixedSpace{func() *spec { return codedForm(f, ci, (ci*7+f+1)%n) }})
		}
	}
	return contexts(memo(unionSpace{forms}), depth)
}

func getLayout(tier string) *layout {
	setup()
	layoutMu.Lock()
	defer layoutMu.Unlock()
	if l, ok := layouts[tier]; ok {
		return l
	}
	core1 := allTrees(coreAlphabet, 1)
	core2 := allTrees(coreAlphabet, 2)
	r3 := restrictedLevel(coreAlphabet, core2, core1)
	l := &layout{}
	if tier == "thorough" {
		l.parts = []part{
			{name: "full-d2", sp: allTrees(fullAlphabet, 2), slices: 16},
			{name: "core-d3", sp: allTrees(coreAlphabet, 3), slices: 384},
			{name: "core-d4u", sp: unarySpace{coreAlphabet.unary, r3}, slices: 48},
			{name: "codes-d3", sp: codesSpace(3), slices: 32},
			{name: "random", slices: 320, perRnd: 25000},
		}
	} else {
		l.parts = []part{
			{name: "full-d2", sp: allTrees(fullAlphabet, 2), slices: 16},
			{name: "core-d3r", sp: r3, slices: 32},
			{name: "codes-d2", sp: codesSpace(2), slices: 16},
			{name: "random", slices: 64, perRnd: 12000},
		}
	}
	for _, p := range l.parts {
		l.total += p.slices
	}
	layouts[tier] = l
	return l
}

func (*prop) NumCases(tier string) int { return getLayout(tier).total }

// ---------------------------------------------------------------------------

type caseStats struct {
	ob    map[string]int64
	nodes int64
}

func newCaseStats() *caseStats { return &caseStats{ob: map[string]int64{}} }

const maxAnalysed = 40

// The workload is single-threaded pure computation and the driver already
// runs 16 worker processes; keep each worker's runtime (GC workers) from
// spreading over all cores and thrashing.
var tuneOnce sync.Once

func (p *prop) RunCase(seed int64, tier string, idx int) vp.CaseResult {
	tuneOnce.Do(func() {
		runtime.GOMAXPROCS(2)
		debug.SetGCPercent(400)
	})
	lay := getLayout(tier)
	rng := rand.New(rand.NewSource(seed*1_000_000 + int64(idx)))
	var pt part
	slice := idx
	for _, q := range lay.parts {
		if slice < q.slices {
			pt = q
			break
		}
		slice -= q.slices
	}
	cs := newCaseStats()
	b := &builder{st: cs}
	sets := map[string]map[string]struct{}{}
	add := func(set, v string) {
		m := sets[set]
		if m == nil {
			m = map[string]struct{}{}
			sets[set] = m
		}
		m[v] = struct{}{}
	}
	stats := map[string]int64{}
	byIdentity := map[string]vp.Violation{}
	var order []string
	witnessSize := map[string]int{}
	roots := map[string]struct{}{}
	combos := map[string]struct{}{}
	minDepth, maxDepth := 1<<30, 0
	wrappedLabel := int64(0)
	budget := maxAnalysed
	var sample any

	handle := func(s *spec, where string) {
		assignParams(s, rng)
		root := b.build(s)
		findings := judge(root, b, &budget)
		stats["trees_judged"]++
		combo := root.lab.combo()
		stats["label_"+combo]++
		if w, _ := exitExpected(root.lab); true {
			stats[fmt.Sprintf("exit_expected_%d", w)]++
		}
		if root.kinds&(1<<kCerrW2) != 0 {
			stats["trees_with_cerrors_two_w"]++
		}
		if root.depth > 0 && (root.lab.fatal || root.lab.coded || root.lab.sent != 0) {
			wrappedLabel++
		}
		if root.depth < minDepth {
			minDepth = root.depth
		}
		if root.depth > maxDepth {
			maxDepth = root.depth
		}
		roots[root.spec.k.String()] = struct{}{}
		combos[combo] = struct{}{}
		db := root.depth
		if db > 4 {
			db = 4 + (db-1)/4 // 5..8 -> 5, 9..12 -> 6
		}
		bin := "unary-only"
		if root.kinds&(1<<kCerrW2|1<<kFmtWN|1<<kJoinN) != 0 {
			bin = "has-n-ary"
		}
		add("tree_class", fmt.Sprintf("%s|d%d|%s|%s", root.spec.k, db, bin, combo))
		add("constructor_kind_sets", fmt.Sprintf("%05x", root.kinds)) // bitset over the kind list, bit i = kind i
		for _, kn := range root.kindNames() {
			add("constructors_used", kn)
		}
		if root.lab.coded {
			add("effective_codes", root.lab.reason+"/"+root.lab.cat.String())
		}
		if root.lab.grpc {
			add("grpc_status_leaf_categories", root.lab.grpcCode.String())
		}
		for i, sn := range sentinelPool {
			if root.lab.sent&(1<<i) != 0 {
				add("sentinels_inside", sn.name)
			}
		}
		if sample == nil && root.depth >= 2 && root.lab.coded && root.lab.fatal {
			w, why := exitExpected(root.lab)
			sample = map[string]any{"part": pt.name, "at": where, "tree": root.String(), "labels": combo,
				"code": root.lab.reason, "exit_expected": w, "exit_class": why}
		}
		if len(findings) > 0 {
			stats["violating_trees"]++
		}
		for _, f := range findings {
			stats["failed_obligations"]++
			add("violation_identities", f.identity)
			if _, ok := byIdentity[f.identity]; ok {
				if f.root.size >= witnessSize[f.identity] {
					continue // keep the smallest witness per identity
				}
			} else if len(byIdentity) >= 12 {
				continue
			} else {
				order = append(order, f.identity)
			}
			witnessSize[f.identity] = f.root.size
			if f.identity == w2Identity && f.tree == f.root {
				f.tree = minimalW2(f.root)
			}
			byIdentity[f.identity] = vp.Violation{
				Property: "C20", Class: f.class, Identity: f.identity, Detail: f.detail,
				Case: map[string]any{"index": idx, "part": pt.name, "at": where, "tree": f.root.String(), "minimal_failing_subtree": f.tree.String()},
				Witness: map[string]any{
					"ground_truth":                 describe(f.root.lab),
					"IsFatalError":                 f.o.fatal,
					"conduiterr.Get":               map[string]any{"ok": f.o.coded, "reason": f.o.reason, "grpc": f.o.cat.String()},
					"errors.Is":                    sentNames(f.o.sent),
					"ExitCode":                     f.o.exit,
					"api_status":                   fmt.Sprintf("%v", f.o.api),
					"error_text":                   f.root.err.Error(),
					"minimal_subtree_ground_truth": describe(f.tree.lab),
					"minimal_subtree_IsFatalError": cerrorsIsFatal(f.tree.err),
					"minimal_subtree_unwrap":       describeUnwrap(f.tree.err),
				},
			}
		}
	}

	if pt.sp != nil {
		n := pt.sp.size()
		lo := n * int64(slice) / int64(pt.slices)
		hi := n * int64(slice+1) / int64(pt.slices)
		for i := lo; i < hi; i++ {
			handle(pt.sp.at(i), fmt.Sprintf("%s[%d]", pt.name, i))
		}
		stats["space_size_"+pt.name] = 0 // filled below once per part (slice 0)
		if slice == 0 {
			stats["space_size_"+pt.name] = n
		}
	} else {
		for i := 0; i < pt.perRnd; i++ {
			d := 4 + rng.Intn(9)
			budget := 64
			handle(randTree(rng, d, &budget, true), fmt.Sprintf("random[%d] spine=%d", i, d))
		}
	}

	for k, v := range cs.ob {
		if strings.HasPrefix(k, "observed_") || strings.HasPrefix(k, "violations_") {
			stats[k] = v
		} else {
			stats["obligations_"+k] = v
		}
	}
	stats["nodes_built"] = cs.nodes
	res := vp.CaseResult{Stats: stats, Sets: map[string][]string{}, Sample: sample}
	for k, m := range sets {
		res.Sets[k] = sortedKeys(m)
	}
	res.Sig = fmt.Sprintf("%s|depth %d..%d|roots=%s|labels=%s", pt.name, minDepth, maxDepth,
		strings.Join(sortedKeys(roots), ","), strings.Join(sortedKeys(combos), ";"))
	res.Nontrivial = wrappedLabel > 0
	sort.Strings(order)
	for _, id := range order {
		res.Violations = append(res.Violations, byIdentity[id])
	}
	return res
}

func describe(l labels) map[string]any {
	w, why := exitExpected(l)
	return map[string]any{
		"fatal_marked_inside": l.fatal, "coded": l.coded, "code": l.reason, "grpc_category": l.cat.String(),
		"sentinels_inside": sentNames(l.sent), "context_canceled_inside": l.canceled, "errno_inside": l.env,
		"grpc_status_inside": l.grpc, "exit_expected": w, "exit_class": why,
	}
}
