package c20

import (
	"fmt"
	"sort"
	"strings"

	"github.com/conduitio/conduit/pkg/conduit/exitcode"
	"github.com/conduitio/conduit/pkg/foundation/cerrors"
	"github.com/conduitio/conduit/pkg/foundation/cerrors/conduiterr"
	apistatus "github.com/conduitio/conduit/pkg/http/api/status"
	"google.golang.org/genproto/googleapis/rpc/errdetails"
	spb "google.golang.org/genproto/googleapis/rpc/status"
	"google.golang.org/grpc/codes"
	grpcstatus "google.golang.org/grpc/status"
	"google.golang.org/protobuf/proto"
)

var apiFuncs = []struct {
	name string
	fn   func(error) error
}{
	{"PipelineError", apistatus.PipelineError},
	{"ConnectorError", apistatus.ConnectorError},
	{"ProcessorError", apistatus.ProcessorError},
	{"PluginError", apistatus.PluginError},
}

// baseline[f][i]: gRPC code api function f gives the BARE sentinel i. The
// oracle for un-coded errors is metamorphic: wrapping must not move the error
// to a category none of the sentinels inside it has on its own.
var baseline [4][]codes.Code

func initBaselines() {
	for f := range apiFuncs {
		baseline[f] = make([]codes.Code, len(sentinelPool))
		for i, s := range sentinelPool {
			baseline[f][i] = grpcstatus.Code(apiFuncs[f].fn(s.fresh()))
		}
	}
}

// exitBucket is the gRPC category -> exit code table, transcribed from the
// package documentation of pkg/conduit/exitcode and the ADR
// docs/architecture-decision-records/20260706-deterministic-cli-exit-codes.md
// (NOT by calling the package's helpers).
func exitBucket(c codes.Code) int {
	switch c {
	case codes.OK, codes.Canceled:
		return 0
	case codes.Internal, codes.Unknown, codes.DataLoss, codes.Aborted, codes.Unimplemented:
		return 1
	case codes.InvalidArgument, codes.NotFound, codes.AlreadyExists, codes.FailedPrecondition, codes.OutOfRange:
		return 2
	case codes.Unavailable, codes.DeadlineExceeded, codes.ResourceExhausted, codes.Unauthenticated, codes.PermissionDenied:
		return 3
	}
	return 1
}

// exitExpected applies the documented classification order to the ground truth.
func exitExpected(l labels) (int, string) {
	switch {
	case l.canceled:
		return 0, "context.Canceled"
	case l.coded:
		return exitBucket(l.cat), "coded:" + l.cat.String()
	case l.grpc:
		return exitBucket(l.grpcCode), "grpc-status:" + l.grpcCode.String()
	case l.env:
		return 3, "errno"
	}
	return 1, "unclassified"
}

// obs is everything the real functions said about one real error value.
type obs struct {
	fatal  bool
	coded  bool
	reason string
	cat    codes.Code
	sent   uint32
	exit   int
	api    [4]struct {
		code    codes.Code
		reason  string
		hasInfo bool
	}
	// round trip of the *ConduitError conduiterr.Get returned (label independent)
	rtDone   bool
	rtDetail string // non-empty: the round trip changed the code
}

func errorInfoReason(err error) (string, bool) {
	st, ok := grpcstatus.FromError(err)
	if !ok || st == nil {
		return "", false
	}
	for _, d := range st.Details() {
		if info, ok := d.(*errdetails.ErrorInfo); ok {
			return info.GetReason(), true
		}
	}
	return "", false
}

func observe(err error, st *caseStats) obs {
	var o obs
	o.fatal = cerrors.IsFatalError(err)
	ce, ok := conduiterr.Get(err)
	if ok {
		o.coded, o.reason, o.cat = true, ce.Code.Reason(), ce.Code.GRPCCode()
	}
	for i, s := range sentinelPool {
		if cerrors.Is(err, s.target) {
			o.sent |= 1 << i
		}
	}
	o.exit = exitcode.ExitCode(err)
	for f := range apiFuncs {
		se := apiFuncs[f].fn(err)
		o.api[f].code = grpcstatus.Code(se)
		o.api[f].reason, o.api[f].hasInfo = errorInfoReason(se)
	}
	if ok {
		o.rtDone = true
		o.rtDetail = roundTrip(ce, st)
	}
	return o
}

// roundTrip sends ce through ToStatus, the protobuf wire encoding, and
// FromStatus. Obligation (for a registered code): same reason, same gRPC
// category, and the status' top-level code is the category.
func roundTrip(ce *conduiterr.ConduitError, cs *caseStats) string {
	st := conduiterr.ToStatus(ce)
	b, err := proto.Marshal(st.Proto())
	if err != nil {
		return "status does not marshal: " + err.Error()
	}
	var p spb.Status
	if err := proto.Unmarshal(b, &p); err != nil {
		return "status does not unmarshal: " + err.Error()
	}
	// the way a client sees it: status error -> status -> ConduitError
	back := conduiterr.FromStatus(grpcstatus.Convert(grpcstatus.FromProto(&p).Err()))
	reason, cat := ce.Code.Reason(), ce.Code.GRPCCode()
	if !isRegistered(reason, cat) {
		// WithUnknownReason's synthetic {internal.unknown, <category>}: not a
		// registered code; only the reason is pinned down. Record what happens
		// to the category, as an observation.
		cs.ob["roundtrip_unregistered"]++
		if back.Code.GRPCCode() != cat {
			cs.ob["observed_roundtrip_unknown_reason_category_replaced_by_registry"]++
		}
		if back.Code.Reason() != reason {
			return fmt.Sprintf("reason %q became %q", reason, back.Code.Reason())
		}
		return ""
	}
	cs.ob["roundtrip_registered"]++
	switch {
	case st.Code() != cat:
		return fmt.Sprintf("ToStatus top-level code %s, category of %s is %s", st.Code(), reason, cat)
	case back.Code.Reason() != reason:
		return fmt.Sprintf("reason %q became %q", reason, back.Code.Reason())
	case back.Code.GRPCCode() != cat:
		return fmt.Sprintf("category of %s: %s became %s", reason, cat, back.Code.GRPCCode())
	}
	return ""
}

type mismatch struct {
	oracle string // fatal | code | sentinel | exitcode | apistatus
	sub    string // finer class that belongs into the identity
	detail string
}

func sentNames(bits uint32) string {
	var out []string
	for i, s := range sentinelPool {
		if bits&(1<<i) != 0 {
			out = append(out, s.name)
		}
	}
	return "{" + strings.Join(out, ",") + "}"
}

// compare lists the obligations o fails against ground truth l.
func compare(o obs, l labels) []mismatch {
	var mm []mismatch
	if o.fatal != l.fatal {
		sub := "fatal-mark-lost"
		if o.fatal {
			sub = "fatal-mark-invented"
		}
		mm = append(mm, mismatch{"fatal", sub, fmt.Sprintf("IsFatalError=%v, but a fatal-marked error inside=%v", o.fatal, l.fatal)})
	}
	switch {
	case o.coded != l.coded:
		sub := "code-lost"
		if o.coded {
			sub = "code-invented"
		}
		mm = append(mm, mismatch{"code", sub, fmt.Sprintf("conduiterr.Get ok=%v (%s), expected coded=%v (%s/%s)", o.coded, o.reason, l.coded, l.reason, l.cat)})
	case o.coded && (o.reason != l.reason || o.cat != l.cat):
		mm = append(mm, mismatch{"code", "wrong-code", fmt.Sprintf("conduiterr.Get code %s/%s, documented code %s/%s", o.reason, o.cat, l.reason, l.cat)})
	}
	if o.sent != l.sent {
		sub := "sentinel-lost"
		if o.sent&^l.sent != 0 {
			sub = "sentinel-invented"
		}
		mm = append(mm, mismatch{"sentinel", sub, fmt.Sprintf("errors.Is true for %s, inside are %s", sentNames(o.sent), sentNames(l.sent))})
	}
	if want, why := exitExpected(l); o.exit != want {
		mm = append(mm, mismatch{"exitcode", why, fmt.Sprintf("ExitCode=%d, documented table gives %d for classification %s", o.exit, want, why)})
	}
	for f := range apiFuncs {
		a := o.api[f]
		if l.coded {
			if a.code != l.cat || !a.hasInfo || a.reason != l.reason {
				mm = append(mm, mismatch{"apistatus", apiFuncs[f].name + ":coded",
					fmt.Sprintf("%s gave gRPC %s reason %q, the coded error inside is %s/%s", apiFuncs[f].name, a.code, a.reason, l.reason, l.cat)})
			}
			continue
		}
		// un-coded: never codeless (documented on fallbackStatus) ...
		if !a.hasInfo || a.reason != conduiterr.CodeUnknown.Reason() {
			mm = append(mm, mismatch{"apistatus", apiFuncs[f].name + ":uncoded-reason",
				fmt.Sprintf("%s gave reason %q (ErrorInfo present=%v) for an un-coded error, documented fallback is %s", apiFuncs[f].name, a.reason, a.hasInfo, conduiterr.CodeUnknown.Reason())})
			continue
		}
		// ... and the sentinel keeps its gRPC status under wrappers: the code is
		// the one some sentinel inside has when passed bare. With several
		// sentinels inside any of theirs is accepted; with none nothing is
		// pinned down.
		if l.sent != 0 {
			ok := false
			for i := range sentinelPool {
				if l.sent&(1<<i) != 0 && baseline[f][i] == a.code {
					ok = true
				}
			}
			if !ok {
				mm = append(mm, mismatch{"apistatus", apiFuncs[f].name + ":sentinel",
					fmt.Sprintf("%s gave gRPC %s; bare, the sentinels inside %s do not map to it", apiFuncs[f].name, a.code, sentNames(l.sent))})
			}
		}
	}
	return mm
}

func hasOracle(mm []mismatch, oracle string) bool {
	for _, m := range mm {
		if m.oracle == oracle {
			return true
		}
	}
	return false
}

// finding is one failed obligation on one tree, already given its identity.
type finding struct {
	identity string
	class    string
	detail   string
	tree     *node // minimal failing subtree (or the tree itself)
	root     *node
	o        obs
}

const w2Identity = "C20/classification-lost/cerrors.Errorf-two-%w"

// shapeOf names the constructor at the root of the minimal failing subtree:
// the wrapper under which the classification changed.
func shapeOf(n *node) string { return "at:" + n.spec.k.String() }

// w2DropsOperands reports whether some two-%w cerrors.Errorf node of the tree
// demonstrably keeps neither operand (no Unwrap method reaching them). Only
// then may a mismatch be attributed to that constructor.
func w2DropsOperands(root *node) bool {
	found := false
	root.walk(func(n *node) {
		if found || n.spec.k != kCerrW2 {
			return
		}
		switch u := n.err.(type) {
		case interface{ Unwrap() error }:
			found = u.Unwrap() == nil
		case interface{ Unwrap() []error }:
			found = len(u.Unwrap()) < 2
		default:
			found = true
		}
	})
	return found
}

// judge runs every oracle on the root of a built tree.
func judge(root *node, b *builder, budget *int) []finding {
	cs := b.st
	o := observe(root.err, cs)
	cs.ob["fatal"]++
	cs.ob["code"]++
	cs.ob["sentinel"] += int64(len(sentinelPool))
	cs.ob["exitcode"]++
	cs.ob["apistatus"] += int64(len(apiFuncs))
	var out []finding
	if o.rtDone && o.rtDetail != "" {
		out = append(out, finding{
			identity: "C20/roundtrip/code-not-preserved", class: "roundtrip",
			detail: "FromStatus(wire(ToStatus(e))): " + o.rtDetail, tree: root, root: root, o: o,
		})
	}
	mm := compare(o, root.lab)
	if len(mm) > 0 {
		var mx []mismatch
		w2 := root.kinds&(1<<kCerrW2) != 0 && w2DropsOperands(root)
		if w2 {
			mx = compare(o, root.labX)
		}
		for _, m := range mm {
			if w2 && !hasOracle(mx, m.oracle) {
				// The real functions behave exactly as if the two-%w
				// cerrors.Errorf node(s) kept neither operand.
				cs.ob["violations_attributed_two_w"]++
				f := finding{identity: w2Identity, class: "classification-lost", root: root, tree: root, o: o,
					detail: m.oracle + ": " + m.detail}
				out = append(out, f)
				continue
			}
			f := finding{class: m.oracle, root: root, tree: root, o: o, detail: m.detail}
			if *budget > 0 {
				// identity = oracle + finer class + shape of the SMALLEST
				// subtree failing the same oracle
				*budget--
				if t, tm := minimalFailing(root, m.oracle, cs); t != nil {
					f.tree, m = t, tm
					f.detail = m.detail
				}
				f.identity = fmt.Sprintf("C20/%s/%s/%s", m.oracle, m.sub, shapeOf(f.tree))
			} else {
				// flood (a broken classifier fails on nearly every tree): not
				// minimised any more, but never swallowed
				cs.ob["violations_not_minimised"]++
				f.identity = fmt.Sprintf("C20/%s/%s/(further, not minimised)", m.oracle, m.sub)
			}
			out = append(out, f)
		}
	}
	for _, s := range b.side {
		if s.attributedW2 && w2DropsOperands(s.at) {
			cs.ob["violations_attributed_two_w"]++
			out = append(out, finding{identity: w2Identity, class: "classification-lost", root: root, tree: s.at, o: o, detail: s.oracle + ": " + s.detail})
		} else {
			out = append(out, finding{identity: "C20/code/downgraded/at:conduiterr.WithUnknownReason", class: "code", root: root, tree: s.at, o: o, detail: s.detail})
		}
	}
	b.side = b.side[:0]
	return out
}

// minimalFailing finds the smallest subtree that fails the same oracle.
func minimalFailing(root *node, oracle string, cs *caseStats) (*node, mismatch) {
	var best *node
	var bm mismatch
	scratch := newCaseStats()
	root.walk(func(n *node) {
		if best != nil && n.size >= best.size {
			return
		}
		for _, m := range compare(observe(n.err, scratch), n.lab) {
			if m.oracle == oracle {
				best, bm = n, m
				return
			}
		}
	})
	return best, bm
}

// minimalW2 finds the smallest two-%w subtree that itself loses something.
func minimalW2(root *node) *node {
	best := root
	scratch := newCaseStats()
	root.walk(func(n *node) {
		if n.spec.k != kCerrW2 || n.size >= best.size {
			return
		}
		if len(compare(observe(n.err, scratch), n.lab)) > 0 {
			best = n
		}
	})
	return best
}

func (l labels) combo() string {
	b := func(v bool) byte {
		if v {
			return '1'
		}
		return '0'
	}
	return fmt.Sprintf("fatal=%c,coded=%c,sentinel=%c,other=%c", b(l.fatal), b(l.coded), b(l.sent != 0), b(l.canceled || l.env || l.grpc))
}

func sortedKeys(m map[string]struct{}) []string {
	out := make([]string, 0, len(m))
	for k := range m {
		out = append(out, k)
	}
	sort.Strings(out)
	return out
}

func cerrorsIsFatal(err error) bool { return cerrors.IsFatalError(err) }

// describeUnwrap shows what the standard unwrapping protocol sees directly
// under err (this is what errors.Is/As walk).
func describeUnwrap(err error) map[string]any {
	out := map[string]any{"type": fmt.Sprintf("%T", err)}
	if u, ok := err.(interface{ Unwrap() error }); ok {
		if w := u.Unwrap(); w != nil {
			out["Unwrap() error"] = fmt.Sprintf("%T: %s", w, w.Error())
		} else {
			out["Unwrap() error"] = "nil"
		}
	} else if u, ok := err.(interface{ Unwrap() []error }); ok {
		var ts []string
		for _, w := range u.Unwrap() {
			ts = append(ts, fmt.Sprintf("%T", w))
		}
		out["Unwrap() []error"] = ts
	} else {
		out["Unwrap"] = "no Unwrap method: errors.Is/As stop here"
	}
	return out
}
