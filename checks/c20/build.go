package c20

import (
	"context"
	"errors"
	"fmt"
	"strings"
	"sync"
	"syscall"

	"github.com/conduitio/conduit/pkg/connector"
	"github.com/conduitio/conduit/pkg/foundation/cerrors"
	"github.com/conduitio/conduit/pkg/foundation/cerrors/conduiterr"
	"github.com/conduitio/conduit/pkg/orchestrator"
	"github.com/conduitio/conduit/pkg/pipeline"
	conn_plugin "github.com/conduitio/conduit/pkg/plugin/connector"
	"github.com/conduitio/conduit/pkg/processor"
	"google.golang.org/grpc/codes"
	grpcstatus "google.golang.org/grpc/status"

	// imported only for their package-level conduiterr.Register(...) calls, so
	// that conduiterr.Codes() holds every code registered under /repo/pkg.
	_ "github.com/conduitio/conduit/pkg/lifecycle-poc"
	_ "github.com/conduitio/conduit/pkg/lifecycle-poc/funnel"
	_ "github.com/conduitio/conduit/pkg/lifecycle/stream"
	_ "github.com/conduitio/conduit/pkg/provisioning"
	_ "github.com/conduitio/conduit/pkg/provisioning/config"
	_ "github.com/conduitio/conduit/pkg/registry"
	_ "github.com/conduitio/conduit/pkg/registry/index"
	_ "github.com/conduitio/conduit/pkg/registry/policy"
	_ "github.com/conduitio/conduit/pkg/registry/trust"
	_ "github.com/conduitio/conduit/pkg/scaffold"
)

// labels is the ground truth the generator computes while it builds a tree.
type labels struct {
	fatal    bool       // some node inside was produced by cerrors.FatalError
	coded    bool       // some *ConduitError is inside
	reason   string     // documented code of the first *ConduitError in errors.As order
	cat      codes.Code //   and its gRPC category
	sent     uint32     // bitset over sentinelPool: which sentinels are inside
	canceled bool       // context.Canceled inside
	env      bool       // ECONNREFUSED / EADDRINUSE inside
	grpc     bool       // a grpc status error inside
	grpcCode codes.Code // code of the first one in errors.As order
}

// then merges the labels of a later sibling (pre-order: l first, then o).
func (l labels) then(o labels) labels {
	r := l
	r.fatal = l.fatal || o.fatal
	if !l.coded && o.coded {
		r.coded, r.reason, r.cat = true, o.reason, o.cat
	}
	r.sent |= o.sent
	r.canceled = l.canceled || o.canceled
	r.env = l.env || o.env
	if !l.grpc && o.grpc {
		r.grpc, r.grpcCode = true, o.grpcCode
	}
	return r
}

type sentinel struct {
	name   string
	target error        // what errors.Is is asked for
	fresh  func() error // the value put into the tree
}

var (
	initOnce     sync.Once
	regCodes     []conduiterr.Code
	sentinelPool []sentinel
	grpcCats     = []codes.Code{
		codes.Canceled, codes.Unknown, codes.InvalidArgument, codes.DeadlineExceeded, codes.NotFound,
		codes.AlreadyExists, codes.PermissionDenied, codes.ResourceExhausted, codes.FailedPrecondition,
		codes.Aborted, codes.OutOfRange, codes.Unimplemented, codes.Internal, codes.Unavailable,
		codes.DataLoss, codes.Unauthenticated,
	}
)

func setup() {
	initOnce.Do(func() {
		regCodes = conduiterr.Codes()
		same := func(name string, e error) sentinel {
			return sentinel{name: name, target: e, fresh: func() error { return e }}
		}
		sentinelPool = []sentinel{
			same("cerrors.ErrNotImpl", cerrors.ErrNotImpl),
			same("cerrors.ErrEmptyID", cerrors.ErrEmptyID),
			same("pipeline.ErrPipelineRunning", pipeline.ErrPipelineRunning),
			same("pipeline.ErrPipelineNotRunning", pipeline.ErrPipelineNotRunning),
			same("pipeline.ErrNameAlreadyExists", pipeline.ErrNameAlreadyExists),
			same("pipeline.ErrNameMissing", pipeline.ErrNameMissing),
			same("pipeline.ErrInstanceNotFound", pipeline.ErrInstanceNotFound),
			same("pipeline.ErrGracefulShutdown", pipeline.ErrGracefulShutdown),
			same("pipeline.ErrForceStop", pipeline.ErrForceStop),
			same("pipeline.ErrPipelineCannotRecover", pipeline.ErrPipelineCannotRecover),
			same("connector.ErrConnectorRunning", connector.ErrConnectorRunning),
			same("connector.ErrInvalidConnectorType", connector.ErrInvalidConnectorType),
			same("connector.ErrInstanceNotFound", connector.ErrInstanceNotFound),
			same("processor.ErrInstanceNotFound", processor.ErrInstanceNotFound),
			same("orchestrator.ErrInvalidProcessorParentType", orchestrator.ErrInvalidProcessorParentType),
			same("orchestrator.ErrPipelineHasConnectorsAttached", orchestrator.ErrPipelineHasConnectorsAttached),
			same("orchestrator.ErrPipelineHasProcessorsAttached", orchestrator.ErrPipelineHasProcessorsAttached),
			same("orchestrator.ErrConnectorHasProcessorsAttached", orchestrator.ErrConnectorHasProcessorsAttached),
			same("orchestrator.ErrImmutableProvisionedByConfig", orchestrator.ErrImmutableProvisionedByConfig),
			{name: "plugin/connector.ValidationError", target: &conn_plugin.ValidationError{},
				fresh: func() error { return &conn_plugin.ValidationError{Err: cerrors.New("field x is required")} }},
		}
		initBaselines()
	})
}

// node is a built tree: the real error value, the ground truth under the
// documented/intended semantics (lab) and the ground truth under "two-%w
// cerrors.Errorf keeps nothing" (labX, used ONLY to attribute a violation to
// that constructor, never to excuse one).
type node struct {
	spec  *spec
	kids  []*node
	err   error
	lab   labels
	labX  labels
	depth int
	size  int
	kinds uint32 // bitset of kinds inside
	text  string // how this node was constructed (children elided)
}

// sideFailure is a failed obligation on a helper that is not a tree node
// (WithUnknownReason applied to an already coded error).
type sideFailure struct {
	oracle, detail string
	attributedW2   bool
	at             *node
}

type builder struct {
	st   *caseStats
	side []sideFailure
}

func (b *builder) codeOf(s *spec) conduiterr.Code {
	if s.code >= 0 {
		return regCodes[s.code%len(regCodes)]
	}
	return regCodes[int(s.p>>8)%len(regCodes)]
}

func isRegistered(reason string, cat codes.Code) bool {
	c, ok := conduiterr.LookupCode(reason)
	return ok && c.GRPCCode() == cat
}

func (b *builder) build(s *spec) *node {
	n := &node{spec: s, size: 1, kinds: 1 << s.k}
	for _, k := range s.kids {
		kn := b.build(k)
		n.kids = append(n.kids, kn)
		n.size += kn.size
		if kn.depth+1 > n.depth {
			n.depth = kn.depth + 1
		}
		n.kinds |= kn.kinds
	}
	b.st.nodes++
	p := s.p
	var c0, c1, c2 *node
	if len(n.kids) > 0 {
		c0 = n.kids[0]
	}
	if len(n.kids) > 1 {
		c1 = n.kids[1]
	}
	if len(n.kids) > 2 {
		c2 = n.kids[2]
	}
	switch s.k {
	case kPlain:
		switch p % 3 {
		case 0:
			n.err, n.text = cerrors.New("plain failure"), `cerrors.New("plain failure")`
		case 1:
			n.err, n.text = errors.New("plain std failure"), `errors.New("plain std failure")`
		default:
			n.err, n.text = cerrors.Errorf("plain failure %d", 7), `cerrors.Errorf("plain failure %d", 7)`
		}
	case kSentinel:
		i := int(p>>4) % len(sentinelPool)
		n.err, n.text = sentinelPool[i].fresh(), sentinelPool[i].name
		n.lab.sent = 1 << i
		n.labX = n.lab
	case kCoded:
		c := b.codeOf(s)
		switch p % 3 {
		case 0:
			n.err, n.text = conduiterr.New(c, "coded failure"), fmt.Sprintf("conduiterr.New(%s, msg)", c.Reason())
		case 1:
			n.err, n.text = conduiterr.Wrap(c, "coded failure", nil), fmt.Sprintf("conduiterr.Wrap(%s, msg, nil)", c.Reason())
		default:
			n.err, n.text = conduiterr.WithCode(nil, c), fmt.Sprintf("conduiterr.WithCode(nil, %s)", c.Reason())
		}
		n.lab = labels{coded: true, reason: c.Reason(), cat: c.GRPCCode()}
		n.labX = n.lab
	case kDecoy:
		// an error that IS fatal, coded and a sentinel, but only formatted
		// into the message: nothing of it may be found through the result.
		inner := cerrors.FatalError(conduiterr.Wrap(conduiterr.CodeNotFound, "decoy", cerrors.Errorf("decoy: %w", pipeline.ErrPipelineRunning)))
		const d = "FatalError(Wrap(common.not_found, msg, pipeline.ErrPipelineRunning))"
		switch p % 5 {
		case 0:
			n.err, n.text = cerrors.Errorf("ctx: %v", inner), `cerrors.Errorf("ctx: %v", `+d+`)`
		case 1:
			n.err, n.text = cerrors.Errorf("ctx %s ctx", inner), `cerrors.Errorf("ctx %s ctx", `+d+`)`
		case 2:
			n.err, n.text = fmt.Errorf("ctx: %v", inner), `fmt.Errorf("ctx: %v", `+d+`)`
		case 3:
			n.err, n.text = cerrors.New(inner.Error()), `cerrors.New(`+d+`.Error())`
		default:
			n.err, n.text = cerrors.Errorf("ctx: %s", inner), `cerrors.Errorf("ctx: %s", `+d+`)`
		}
	case kCanceled:
		n.err, n.text = context.Canceled, "context.Canceled"
		n.lab.canceled = true
		n.labX = n.lab
	case kEnvSentinel:
		if p%2 == 0 {
			n.err, n.text = syscall.ECONNREFUSED, "syscall.ECONNREFUSED"
		} else {
			n.err, n.text = syscall.EADDRINUSE, "syscall.EADDRINUSE"
		}
		n.lab.env = true
		n.labX = n.lab
	case kGRPCStatus:
		c := grpcCats[int(p>>4)%len(grpcCats)]
		n.err, n.text = grpcstatus.Error(c, "rpc failed"), fmt.Sprintf("grpcstatus.Error(%s, msg)", c)
		n.lab = labels{grpc: true, grpcCode: c}
		n.labX = n.lab

	case kCerrW1:
		decoy := cerrors.FatalError(conduiterr.New(conduiterr.CodeInvalidArgument, "decoy"))
		switch p % 9 {
		case 0:
			n.err, n.text = cerrors.Errorf("ctx: %w", c0.err), `cerrors.Errorf("ctx: %w", _)`
		case 1:
			n.err, n.text = cerrors.Errorf("%w", c0.err), `cerrors.Errorf("%w", _)`
		case 2:
			n.err, n.text = cerrors.Errorf("%w: ctx", c0.err), `cerrors.Errorf("%w: ctx", _)`
		case 3:
			n.err, n.text = cerrors.Errorf("ctx %w ctx", c0.err), `cerrors.Errorf("ctx %w ctx", _)`
		case 4:
			n.err, n.text = cerrors.Errorf("ctx %s: %w", "id-1", c0.err), `cerrors.Errorf("ctx %s: %w", "id-1", _)`
		case 5:
			n.err, n.text = cerrors.Errorf("task %s failed to ack %d records in source: %w", "t1", 3, c0.err), `cerrors.Errorf("task %s failed to ack %d records in source: %w", "t1", 3, _)`
		case 6:
			n.err, n.text = cerrors.Errorf("%w (id=%q)", c0.err, "x"), `cerrors.Errorf("%w (id=%q)", _, "x")`
		case 7:
			n.err, n.text = cerrors.Errorf("ctx %v: %w", decoy, c0.err), `cerrors.Errorf("ctx %v: %w", <fatal coded decoy>, _)`
		default:
			n.err, n.text = cerrors.Errorf("%w: %v", c0.err, decoy), `cerrors.Errorf("%w: %v", _, <fatal coded decoy>)`
		}
		n.lab, n.labX = c0.lab, c0.labX
	case kFmtW1:
		switch p % 3 {
		case 0:
			n.err, n.text = fmt.Errorf("ctx: %w", c0.err), `fmt.Errorf("ctx: %w", _)`
		case 1:
			n.err, n.text = fmt.Errorf("%w ctx", c0.err), `fmt.Errorf("%w ctx", _)`
		default:
			n.err, n.text = fmt.Errorf("a %w b %d", c0.err, 1), `fmt.Errorf("a %w b %d", _, 1)`
		}
		n.lab, n.labX = c0.lab, c0.labX
	case kFatal:
		n.err, n.text = cerrors.FatalError(c0.err), "cerrors.FatalError(_)"
		n.lab, n.labX = c0.lab, c0.labX
		n.lab.fatal, n.labX.fatal = true, true
	case kWrap:
		c := b.codeOf(s)
		w := conduiterr.Wrap(c, "boundary message", c0.err)
		if p&(1<<30) != 0 {
			w.Suggestion = "do something else" // the orchestrator's helpers set fields after Wrap
		}
		n.err, n.text = w, fmt.Sprintf("conduiterr.Wrap(%s, msg, _)", c.Reason())
		// documented: an inner *ConduitError's code passes through, else c
		wrapLab := func(in labels) labels {
			out := in
			if !in.coded {
				out.coded, out.reason, out.cat = true, c.Reason(), c.GRPCCode()
			}
			return out
		}
		n.lab, n.labX = wrapLab(c0.lab), wrapLab(c0.labX)
	case kWithCode:
		c := b.codeOf(s)
		n.err, n.text = conduiterr.WithCode(c0.err, c), fmt.Sprintf("conduiterr.WithCode(_, %s)", c.Reason())
		// documented: always adopts c
		n.lab, n.labX = c0.lab, c0.labX
		n.lab.coded, n.lab.reason, n.lab.cat = true, c.Reason(), c.GRPCCode()
		n.labX.coded, n.labX.reason, n.labX.cat = true, c.Reason(), c.GRPCCode()
	case kWUR:
		cat := grpcCats[int(p>>4)%len(grpcCats)]
		r := conduiterr.WithUnknownReason(c0.err, cat)
		if c0.lab.coded {
			// Documented: "never downgrade a real code: if the error already
			// carries a registered ConduitError, return it unchanged". It
			// returns the INNER ConduitError, i.e. it is a boundary conversion
			// and not a wrapper; it is therefore not a tree node here. The
			// one documented obligation (the code is not downgraded) is
			// checked on the side, and the tree continues with the child.
			b.st.ob["wur_over_coded"]++
			if r.Code.Reason() != c0.lab.reason || r.Code.GRPCCode() != c0.lab.cat {
				// what the attribution model (two-%w keeps nothing) predicts
				xr, xc := conduiterr.CodeUnknown.Reason(), cat
				if c0.labX.coded {
					xr, xc = c0.labX.reason, c0.labX.cat
				}
				attributed := c0.kinds&(1<<kCerrW2) != 0 && r.Code.Reason() == xr && r.Code.GRPCCode() == xc
				b.side = append(b.side, sideFailure{
					oracle: "code", at: c0, attributedW2: attributed,
					detail: fmt.Sprintf("WithUnknownReason(e, %s) on an e that carries code %s/%s returned code %s/%s (documented: never downgrade a real code)",
						cat, c0.lab.reason, c0.lab.cat, r.Code.Reason(), r.Code.GRPCCode()),
				})
			}
			if c0.lab.fatal && !cerrors.IsFatalError(r) {
				b.st.ob["observed_wur_over_coded_returns_inner_without_outer_fatal_mark"]++
			}
			*n = *c0
			return n
		}
		n.err, n.text = r, fmt.Sprintf("conduiterr.WithUnknownReason(_, %s)", cat)
		n.lab, n.labX = c0.lab, c0.labX
		n.lab.coded, n.lab.reason, n.lab.cat = true, conduiterr.CodeUnknown.Reason(), cat
		n.labX.coded, n.labX.reason, n.labX.cat = true, conduiterr.CodeUnknown.Reason(), cat
	case kJoin1:
		join, jn := cerrors.Join, "cerrors.Join"
		if p&(1<<29) != 0 {
			join, jn = errors.Join, "errors.Join"
		}
		switch p % 4 {
		case 0:
			n.err, n.text = join(nil, c0.err), jn+"(nil, _)"
		case 1:
			n.err, n.text = join(c0.err, nil), jn+"(_, nil)"
		case 2:
			n.err, n.text = join(nil, c0.err, nil), jn+"(nil, _, nil)"
		default:
			n.err, n.text = join(c0.err), jn+"(_)"
		}
		n.lab, n.labX = c0.lab, c0.labX

	case kCerrW2:
		// The idiom of pkg/lifecycle-poc/funnel/worker.go ("Keep DLQ.Nack's own
		// error in the chain"): intended to keep BOTH operands.
		if p%2 == 0 {
			n.err, n.text = cerrors.Errorf("%w (while handling: %w)", c0.err, c1.err), `cerrors.Errorf("%w (while handling: %w)", _, _)`
		} else {
			n.err, n.text = cerrors.Errorf("%w (cause was %w)", c0.err, c1.err), `cerrors.Errorf("%w (cause was %w)", _, _)`
		}
		n.lab = c0.lab.then(c1.lab)
		n.labX = labels{} // attribution model: keeps neither operand
	case kFmtWN:
		if c2 == nil {
			if p%2 == 0 {
				n.err, n.text = fmt.Errorf("%w: %w", c0.err, c1.err), `fmt.Errorf("%w: %w", _, _)`
			} else {
				n.err, n.text = fmt.Errorf("%w (while handling: %w)", c0.err, c1.err), `fmt.Errorf("%w (while handling: %w)", _, _)`
			}
			n.lab, n.labX = c0.lab.then(c1.lab), c0.labX.then(c1.labX)
		} else {
			n.err, n.text = fmt.Errorf("%w; %w; also %w", c0.err, c1.err, c2.err), `fmt.Errorf("%w; %w; also %w", _, _, _)`
			n.lab, n.labX = c0.lab.then(c1.lab).then(c2.lab), c0.labX.then(c1.labX).then(c2.labX)
		}
	case kJoinN:
		join, jn := cerrors.Join, "cerrors.Join"
		if p&(1<<29) != 0 {
			join, jn = errors.Join, "errors.Join"
		}
		if c2 == nil {
			switch p % 3 {
			case 0:
				n.err, n.text = join(c0.err, c1.err), jn+"(_, _)"
			case 1:
				n.err, n.text = join(c0.err, nil, c1.err), jn+"(_, nil, _)"
			default:
				n.err, n.text = join(nil, c0.err, c1.err, nil), jn+"(nil, _, _, nil)"
			}
			n.lab, n.labX = c0.lab.then(c1.lab), c0.labX.then(c1.labX)
		} else {
			n.err, n.text = join(c0.err, c1.err, c2.err), jn+"(_, _, _)"
			n.lab, n.labX = c0.lab.then(c1.lab).then(c2.lab), c0.labX.then(c1.labX).then(c2.labX)
		}
	default:
		panic("unknown kind")
	}
	return n
}

// String renders how the tree was built, children substituted for "_".
func (n *node) String() string {
	t := n.text
	for _, k := range n.kids {
		i := strings.Index(t, "_)")
		j := strings.Index(t, "_,")
		if i < 0 || (j >= 0 && j < i) {
			i = j
		}
		if i < 0 {
			break
		}
		t = t[:i] + k.String() + t[i+1:]
	}
	return t
}

func (n *node) walk(fn func(*node)) {
	fn(n)
	for _, k := range n.kids {
		k.walk(fn)
	}
}

func (n *node) kindNames() []string {
	var out []string
	for k := kind(0); k < numKinds; k++ {
		if n.kinds&(1<<k) != 0 {
			out = append(out, k.String())
		}
	}
	return out
}
