// Package warm pins the dependency set of the harness (so go.sum is complete
// and the build cache is warmed by setup.sh).
package warm

import (
	_ "github.com/anishathalye/porcupine"
	_ "github.com/conduitio/conduit/pkg/conduit/exitcode"
	_ "github.com/conduitio/conduit/pkg/connector"
	_ "github.com/conduitio/conduit/pkg/http/api"
	_ "github.com/conduitio/conduit/pkg/http/api/status"
	_ "github.com/conduitio/conduit/pkg/lifecycle"
	_ "github.com/conduitio/conduit/pkg/lifecycle-poc"
	_ "github.com/conduitio/conduit/pkg/orchestrator"
	_ "github.com/conduitio/conduit/pkg/pipeline"
	_ "github.com/conduitio/conduit/pkg/plugin/connector/builtin"
	_ "github.com/conduitio/conduit/pkg/plugin/processor/egress"
	_ "github.com/conduitio/conduit/pkg/processor"
	_ "github.com/conduitio/conduit/pkg/provisioning"
	_ "github.com/conduitio/conduit/pkg/registry"
)
