// Package faultdb is the store boundary of the rig: a database.DB wrapper that
// (1) takes a snapshot of the whole store at every successful commit and every
// non-transactional Set, atomically with the controller's log append, (2) asks
// a controller before every operation whether to fail, delay or gate it.
//
// It keeps the inner transaction in the context, so the repo's stores work
// unchanged on top of it.
package faultdb

import (
	"context"
	"errors"
	"sort"
	"sync"
	"sync/atomic"
	"time"

	"github.com/conduitio/conduit-commons/database"
)

// Kind of store operation.
const (
	OpNewTx   = "newtx"
	OpSet     = "set"
	OpGet     = "get"
	OpGetKeys = "getkeys"
	OpCommit  = "commit"
)

// Op describes one store operation about to be performed.
type Op struct {
	Kind string
	Key  string // key or prefix; "" for newtx/commit
	InTx bool
	// Seq is the 1-based global sequence number of this operation.
	Seq int64
	// KindSeq is the 1-based sequence number among operations of this kind.
	KindSeq int64
	// Keys written in the transaction (commit only).
	TxKeys []string
}

// Decision of the controller for one operation.
type Decision struct {
	// Err, if non-nil, is returned instead of performing the operation.
	Err error
	// Delay before performing the operation.
	Delay time.Duration
	// GateAfter, if non-nil, is waited on after the operation was performed
	// (and logged) and before it returns to the engine: "the write is durable
	// but the caller has not been told yet".
	GateAfter <-chan struct{}
	// GateBefore, if non-nil, is waited on before the operation is performed.
	GateBefore <-chan struct{}
	// DelayAfter is slept after the operation was performed (and logged) and
	// before it returns to the engine: a slow store acknowledgement.
	DelayAfter time.Duration
}

// Controller scripts faults and receives snapshots.
type Controller interface {
	Decide(op Op) Decision
	// Committed is called, while the commit lock is held, after a successful
	// commit or non-transactional Set. snap is a private copy.
	Committed(op Op, changed []string, snap map[string][]byte)
	// Faulted is called when an injected fault was returned.
	Faulted(op Op, err error)
}

// ErrInjected is the default injected error.
var ErrInjected = errors.New("faultdb: injected store failure")

type DB struct {
	inner database.DB
	ctl   atomic.Pointer[ctlBox]

	commitMu sync.Mutex
	seq      atomic.Int64
	kindSeq  sync.Map // kind -> *atomic.Int64

	outstanding atomic.Int64 // operations currently inside the wrapper (not gated)
	gated       atomic.Int64
}

type ctlBox struct{ c Controller }

func New(inner database.DB) *DB { return &DB{inner: inner} }

func (d *DB) SetController(c Controller) {
	if c == nil {
		d.ctl.Store(nil)
		return
	}
	d.ctl.Store(&ctlBox{c})
}

func (d *DB) Inner() database.DB { return d.inner }

// Outstanding reports store operations in progress that are not waiting on a
// harness gate (used by the wedge criterion: the store has answered everything).
func (d *DB) Outstanding() int64 { return d.outstanding.Load() }

func (d *DB) controller() Controller {
	b := d.ctl.Load()
	if b == nil {
		return nil
	}
	return b.c
}

func (d *DB) nextOp(kind, key string, inTx bool) Op {
	v, _ := d.kindSeq.LoadOrStore(kind, new(atomic.Int64))
	return Op{Kind: kind, Key: key, InTx: inTx, Seq: d.seq.Add(1), KindSeq: v.(*atomic.Int64).Add(1)}
}

func (d *DB) decide(op Op) Decision {
	c := d.controller()
	if c == nil {
		return Decision{}
	}
	return c.Decide(op)
}

func (d *DB) pre(op Op) (Decision, error) {
	dec := d.decide(op)
	if dec.Delay > 0 {
		time.Sleep(dec.Delay)
	}
	if dec.GateBefore != nil {
		d.gated.Add(1)
		<-dec.GateBefore
		d.gated.Add(-1)
	}
	if dec.Err != nil {
		if c := d.controller(); c != nil {
			c.Faulted(op, dec.Err)
		}
		return dec, dec.Err
	}
	return dec, nil
}

func (d *DB) post(dec Decision) {
	if dec.DelayAfter > 0 {
		d.gated.Add(1)
		time.Sleep(dec.DelayAfter)
		d.gated.Add(-1)
	}
	if dec.GateAfter != nil {
		d.gated.Add(1)
		<-dec.GateAfter
		d.gated.Add(-1)
	}
}

type txKey struct{}

type txn struct {
	d     *DB
	inner database.Transaction
	mu    sync.Mutex
	keys  map[string]struct{}
	done  bool
}

func (d *DB) NewTransaction(ctx context.Context, update bool) (database.Transaction, context.Context, error) {
	d.outstanding.Add(1)
	defer d.outstanding.Add(-1)
	op := d.nextOp(OpNewTx, "", false)
	dec, err := d.pre(op)
	if err != nil {
		return nil, ctx, err
	}
	it, ictx, err := d.inner.NewTransaction(ctx, update)
	if err != nil {
		return nil, ctx, err
	}
	t := &txn{d: d, inner: it, keys: map[string]struct{}{}}
	d.post(dec)
	return t, context.WithValue(ictx, txKey{}, t), nil
}

func (t *txn) Commit() error {
	d := t.d
	d.outstanding.Add(1)
	defer d.outstanding.Add(-1)
	op := d.nextOp(OpCommit, "", true)
	t.mu.Lock()
	for k := range t.keys {
		op.TxKeys = append(op.TxKeys, k)
	}
	t.mu.Unlock()
	sort.Strings(op.TxKeys)
	dec, err := d.pre(op)
	if err != nil {
		return err
	}
	d.commitMu.Lock()
	err = t.inner.Commit()
	if err == nil {
		if c := d.controller(); c != nil {
			c.Committed(op, op.TxKeys, d.snapshotLocked())
		}
	}
	d.commitMu.Unlock()
	if err != nil {
		return err
	}
	d.post(dec)
	return nil
}

func (t *txn) Discard() { t.inner.Discard() }

func (d *DB) txFrom(ctx context.Context) *txn {
	t, _ := ctx.Value(txKey{}).(*txn)
	return t
}

func (d *DB) Set(ctx context.Context, key string, value []byte) error {
	d.outstanding.Add(1)
	defer d.outstanding.Add(-1)
	t := d.txFrom(ctx)
	op := d.nextOp(OpSet, key, t != nil)
	dec, err := d.pre(op)
	if err != nil {
		return err
	}
	if t != nil {
		err = d.inner.Set(ctx, key, value)
		if err == nil {
			t.mu.Lock()
			t.keys[key] = struct{}{}
			t.mu.Unlock()
		}
		if err != nil {
			return err
		}
		d.post(dec)
		return nil
	}
	d.commitMu.Lock()
	err = d.inner.Set(ctx, key, value)
	if err == nil {
		if c := d.controller(); c != nil {
			c.Committed(op, []string{key}, d.snapshotLocked())
		}
	}
	d.commitMu.Unlock()
	if err != nil {
		return err
	}
	d.post(dec)
	return nil
}

func (d *DB) Get(ctx context.Context, key string) ([]byte, error) {
	d.outstanding.Add(1)
	defer d.outstanding.Add(-1)
	op := d.nextOp(OpGet, key, d.txFrom(ctx) != nil)
	dec, err := d.pre(op)
	if err != nil {
		return nil, err
	}
	v, err := d.inner.Get(ctx, key)
	d.post(dec)
	return v, err
}

func (d *DB) GetKeys(ctx context.Context, prefix string) ([]string, error) {
	d.outstanding.Add(1)
	defer d.outstanding.Add(-1)
	op := d.nextOp(OpGetKeys, prefix, d.txFrom(ctx) != nil)
	dec, err := d.pre(op)
	if err != nil {
		return nil, err
	}
	v, err := d.inner.GetKeys(ctx, prefix)
	d.post(dec)
	return v, err
}

func (d *DB) Close() error                   { return d.inner.Close() }
func (d *DB) Ping(ctx context.Context) error { return d.inner.Ping(ctx) }

// Snapshot returns a copy of the committed store content.
func (d *DB) Snapshot() map[string][]byte {
	d.commitMu.Lock()
	defer d.commitMu.Unlock()
	return d.snapshotLocked()
}

func (d *DB) snapshotLocked() map[string][]byte {
	ctx := context.Background()
	keys, err := d.inner.GetKeys(ctx, "")
	if err != nil {
		return nil
	}
	out := make(map[string][]byte, len(keys))
	for _, k := range keys {
		v, err := d.inner.Get(ctx, k)
		if err != nil {
			continue
		}
		c := make([]byte, len(v))
		copy(c, v)
		out[k] = c
	}
	return out
}

// Restore builds a fresh in-memory-style store content into dst (a DB whose
// inner store is empty) from a snapshot.
func Restore(dst database.DB, snap map[string][]byte) error {
	ctx := context.Background()
	for k, v := range snap {
		if err := dst.Set(ctx, k, v); err != nil {
			return err
		}
	}
	return nil
}

// ---------------------------------------------------------------------------

// Script is a ready-made Controller: fail/delay/gate the operations matching
// rules, forward snapshots to a sink.
type Script struct {
	mu      sync.Mutex
	rules   []*Rule
	OnSnap  func(op Op, changed []string, snap map[string][]byte)
	OnFault func(op Op, err error)
	counts  map[string]int64
}

// Rule matches operations; the N-th match (1-based; 0 = every match) gets the
// decision. A rule with Once fires a single time.
type Rule struct {
	Kind      string // "" = any
	KeyPrefix string // "" = any
	InTxOnly  bool
	Nth       int64 // fire on the Nth matching op; 0 = every match
	Every     int64 // if >0: fire on every Every-th match
	Dec       Decision
	matches   int64
	Fired     int64
	Disabled  bool
}

func NewScript() *Script { return &Script{counts: map[string]int64{}} }

func (s *Script) Add(r *Rule) *Rule {
	s.mu.Lock()
	s.rules = append(s.rules, r)
	s.mu.Unlock()
	return r
}

func (s *Script) Clear() {
	s.mu.Lock()
	s.rules = nil
	s.mu.Unlock()
}

// Counts returns how many operations of each kind were seen.
func (s *Script) Counts() map[string]int64 {
	s.mu.Lock()
	defer s.mu.Unlock()
	out := map[string]int64{}
	for k, v := range s.counts {
		out[k] = v
	}
	return out
}

func (s *Script) Decide(op Op) Decision {
	s.mu.Lock()
	defer s.mu.Unlock()
	s.counts[op.Kind]++
	s.counts["total"]++
	for _, r := range s.rules {
		if r.Disabled {
			continue
		}
		if r.Kind != "" && r.Kind != op.Kind {
			continue
		}
		if r.InTxOnly && !op.InTx {
			continue
		}
		if r.KeyPrefix != "" {
			match := len(op.Key) >= len(r.KeyPrefix) && op.Key[:len(r.KeyPrefix)] == r.KeyPrefix
			if op.Kind == OpCommit {
				match = false
				for _, k := range op.TxKeys {
					if len(k) >= len(r.KeyPrefix) && k[:len(r.KeyPrefix)] == r.KeyPrefix {
						match = true
					}
				}
			}
			if !match {
				continue
			}
		}
		r.matches++
		fire := false
		switch {
		case r.Every > 0:
			fire = r.matches%r.Every == 0
		case r.Nth > 0:
			fire = r.matches == r.Nth
		default:
			fire = true
		}
		if fire {
			r.Fired++
			return r.Dec
		}
	}
	return Decision{}
}

func (s *Script) Committed(op Op, changed []string, snap map[string][]byte) {
	if s.OnSnap != nil {
		s.OnSnap(op, changed, snap)
	}
}

func (s *Script) Faulted(op Op, err error) {
	if s.OnFault != nil {
		s.OnFault(op, err)
	}
}
