package pipe

import (
	"fmt"
	"sort"

	"verif/internal/rig"
	"verif/internal/vp"
)

// OracleC08 judges record accounting at the end of a run that was allowed to
// finish: every acknowledged source record has exactly the outcome the
// reference model derives from the processor/destination scripts, judged
// record by record (so "no other record's outcome is affected" is the
// conjunction over all records).
func OracleC08(ix *Index, out *Outcome) ([]vp.Violation, Judged) {
	j := Judged{ByHow: map[string]int64{}}
	var vs []vp.Violation
	evs := ix.Evs
	sc := ix.Sc
	add := func(class, sub, detail string, around ...int) {
		id := fmt.Sprintf("C08/%s/%s", class, sc.Engine)
		if sub != "" {
			id += "/" + sub
		}
		vs = append(vs, vp.Violation{Property: "C08", Class: class, Identity: id, Detail: detail, Case: sc, Witness: rig.Excerpt(evs, around, 8)})
	}
	// collect observations per origin
	acked := map[rig.Lin]int{}
	written := map[rig.Lin]map[string][]string{} // origin -> dst -> piece paths written (all sessions)
	writeEv := map[rig.Lin]int{}
	dlqRecs := map[rig.Lin][]rig.Lin{} // origin -> lineages of DLQ records carrying it
	engineInduced := false
	for i := range evs {
		e := &evs[i]
		switch {
		case e.Kind == rig.KSrcAck:
			for n, x := range e.Idx {
				if x >= 0 {
					if _, ok := acked[rig.Lin{Src: e.Comp, Idx: x}]; !ok {
						acked[rig.Lin{Src: e.Comp, Idx: x}] = i
					}
				} else {
					raw := ""
					if len(e.Raw) > 0 {
						raw = e.Raw[0]
					}
					_ = n
					add("foreign-position-acked", "", fmt.Sprintf("source %s was acked a position it never produced: %q", e.Comp, raw), i)
				}
			}
		case e.Kind == rig.KDstWrite && e.Role == "dst":
			for _, l := range e.Recs {
				if l.Idx < 0 {
					continue
				}
				o := l.Origin()
				if written[o] == nil {
					written[o] = map[string][]string{}
				}
				written[o][e.Comp] = append(written[o][e.Comp], l.Path)
				writeEv[o] = i
			}
		case e.Kind == rig.KDstWrite && e.Role == "dlq":
			for n, l := range e.Recs {
				if l.Idx < 0 {
					continue
				}
				dlqRecs[l.Origin()] = append(dlqRecs[l.Origin()], l)
				if n < len(e.Out) {
					m := e.Out[n]
					if !contains(m, "vf-reject ") && !contains(m, "vf-proc-error ") {
						engineInduced = true
					}
				}
			}
		}
	}
	origins := make([]rig.Lin, 0, len(acked))
	for o := range acked {
		origins = append(origins, o)
	}
	sort.Slice(origins, func(a, b int) bool {
		if origins[a].Src != origins[b].Src {
			return origins[a].Src < origins[b].Src
		}
		return origins[a].Idx < origins[b].Idx
	})
	for _, o := range origins {
		exp := ix.Expect(o.Src, o.Idx)
		j.Obligations++
		j.ByHow["records_"+exp.Class]++
		at := acked[o]
		switch exp.Class {
		case ClFiltered:
			if len(written[o]) > 0 {
				add("filtered-record-delivered", "", fmt.Sprintf("record %s is filtered as a whole per script but was written to %v", o, keys(written[o])), writeEv[o], at)
			}
			if len(dlqRecs[o]) > 0 && !engineInduced {
				add("filtered-record-dead-lettered", "", fmt.Sprintf("record %s is filtered per script but has a DLQ record", o), at)
			}
		case ClDelivered:
			if len(dlqRecs[o]) > 0 && !engineInduced {
				add("delivered-record-dead-lettered", "", fmt.Sprintf("record %s is rejected by no component per script but has a DLQ record (another record's outcome leaked onto it)", o), at)
			}
			if len(dlqRecs[o]) > 0 {
				// the engine itself nacked it (teardown, fan-out sibling nack): its one
				// outcome is the DLQ, delivery is not owed
				j.ByHow["records_dead_lettered_by_engine"]++
				continue
			}
			for _, d := range sc.Topo.Dests {
				want := exp.Writes[d.ID]
				got := map[string]bool{}
				for _, p := range written[o][d.ID] {
					got[p] = true
				}
				for _, l := range want {
					if !got[l.Path] {
						add("piece-not-delivered", "", fmt.Sprintf("record %s was acknowledged but piece %q never reached destination %s", o, l.Path, d.ID), at)
					}
				}
				for p := range got {
					if !exp.Possible[d.ID][p] {
						add("unexpected-piece-delivered", "", fmt.Sprintf("destination %s received piece %q of record %s which the scripts do not produce there", d.ID, p, o), at)
					}
				}
			}
		case ClRejected:
			if len(dlqRecs[o]) == 0 {
				add("rejected-record-acked-without-dlq", "", fmt.Sprintf("record %s is rejected by %v per script and was acknowledged without a DLQ record", o, exp.RejectedBy), at)
			}
			for _, l := range dlqRecs[o] {
				if l.Path != "" {
					add("piece-dead-lettered-instead-of-original", "", fmt.Sprintf("the DLQ record for %s is the split piece %q, not the original record", o, l.Path), at)
				}
			}
		}
		if len(vs) > 4 {
			return vs, j
		}
	}
	// completeness: in a run that was allowed to finish with an unlimited DLQ
	// window every source record must have reached an outcome
	if out.Settled && sc.Topo.DLQWindow == 0 && (out.FinalStatus == "UserStopped" || out.FinalStatus == "Running") && len(sc.Steps) == 0 {
		// A record may also have been acknowledged only durably: its position was
		// stored, the run failed for another reason before the plugin-side ack was
		// delivered, and the next run was opened behind it (the per-record clauses
		// above judge the plugin-side acks; C01/C02 judge what may be stored).
		reopenedAt := map[string]int{}
		for i := range evs {
			e := &evs[i]
			if e.Kind == rig.KSrcOpen && e.Err == "" && len(e.Idx) == 1 && e.Idx[0] > reopenedAt[e.Comp] {
				reopenedAt[e.Comp] = e.Idx[0]
			}
		}
		for i, s := range sc.Topo.Sources {
			for k := 0; k < sc.Records[i]; k++ {
				j.Obligations++
				if k <= reopenedAt[s.ID] && reopenedAt[s.ID] > 0 {
					j.ByHow["acknowledged_durably_only"]++
					continue
				}
				if _, ok := acked[rig.Lin{Src: s.ID, Idx: k}]; !ok {
					add("record-without-outcome", "", fmt.Sprintf("run finished healthy (%s) but record %s#%d never reached an outcome", out.FinalStatus, s.ID, k))
					break
				}
			}
		}
	}
	return vs, j
}

func contains(s, sub string) bool {
	for i := 0; i+len(sub) <= len(s); i++ {
		if s[i:i+len(sub)] == sub {
			return true
		}
	}
	return false
}

func keys(m map[string][]string) []string {
	var out []string
	for k := range m {
		out = append(out, k)
	}
	sort.Strings(out)
	return out
}
