package pipe

import (
	"encoding/json"
	"fmt"
	"math/rand"
	"os"
	"path/filepath"
	"strings"
	"time"

	"verif/internal/rig"
	"verif/internal/vp"
)

// Verdict of judging one outcome.
type Verdict struct {
	Violations   []vp.Violation
	Stats        map[string]int64
	Sets         map[string][]string
	Nontrivial   bool
	SigExtra     string
	Inconclusive string
}

func (v *Verdict) AddJudged(prefix string, j Judged) {
	if v.Stats == nil {
		v.Stats = map[string]int64{}
	}
	v.Stats[prefix+"obligations"] += j.Obligations
	for k, n := range j.ByHow {
		v.Stats[prefix+k] += n
	}
}

// PropDef describes a pipeline property check.
type PropDef struct {
	PID         string
	PLevel      string
	RuleText    string
	Assume      []string
	Quick       int
	Thorough    int
	Timeout     time.Duration
	Anchors     []string
	HangIsViol  bool
	DeathIsViol bool
	// NoPoints: do not inject sleeps at the repository's scheduling points.
	NoPoints bool
	// PointBias: points this property cares most about; a focused case picks
	// from them half of the time.
	PointBias []string
	Gen       func(seed int64, tier string, idx int) *Scenario
	Hooks     func(sc *Scenario) *Hooks
	Judge     func(out *Outcome, ix *Index) Verdict
}

func (p *PropDef) ID() string             { return p.PID }
func (p *PropDef) Level() string          { return p.PLevel }
func (p *PropDef) Rule() string           { return p.RuleText }
func (p *PropDef) Assumptions() []string  { return p.Assume }
func (p *PropDef) AnchorFiles() []string  { return p.Anchors }
func (p *PropDef) HangIsViolation() bool  { return p.HangIsViol }
func (p *PropDef) DeathIsViolation() bool { return p.DeathIsViol }
func (p *PropDef) CaseTimeout() time.Duration {
	if p.Timeout > 0 {
		return p.Timeout
	}
	return 120 * time.Second
}

func (p *PropDef) NumCases(tier string) int {
	if tier == "thorough" {
		return p.Thorough
	}
	return p.Quick
}

// InterleavingSig hashes the projection of the history on the
// concurrency-relevant events (who did what in which order).
func InterleavingSig(evs []rig.Ev) string {
	var b strings.Builder
	for i := range evs {
		e := &evs[i]
		switch e.Kind {
		case rig.KSrcAck, rig.KDstAck, rig.KDstWrite, rig.KCommit, rig.KCtl, rig.KCtlRet, rig.KSrcEmit, rig.KSrcTeardown, rig.KDstTeardown:
			b.WriteString(string(e.Kind))
			b.WriteString(e.Comp)
			if e.Kind == rig.KSrcAck || e.Kind == rig.KSrcEmit {
				fmt.Fprint(&b, len(e.Idx))
			}
			b.WriteByte(';')
		}
	}
	return fmt.Sprintf("%016x", rig.H(b.String()))
}

// CompletionOrderSig is the order in which destinations confirmed relative to
// each other for the first few records (permutation class).
func CompletionOrderSig(evs []rig.Ev) string {
	var b strings.Builder
	n := 0
	for i := range evs {
		e := &evs[i]
		if e.Kind == rig.KDstAck && n < 24 {
			b.WriteString(e.Comp)
			b.WriteByte(',')
			n++
		}
	}
	return fmt.Sprintf("%08x", rig.H(b.String())&0xffffffff)
}

func (p *PropDef) RunCase(seed int64, tier string, idx int) vp.CaseResult {
	sc := p.Gen(seed, tier, idx)
	sc.Name = fmt.Sprintf("%s/%s/seed=%d/case=%d|cause=%s", p.PID, tier, seed, idx, sc.Name)
	if sc.Points == nil && !p.NoPoints {
		ChoosePoints(sc, seed, idx, p.PointBias)
	}
	var hooks *Hooks
	if p.Hooks != nil {
		hooks = p.Hooks(sc)
	}
	var out *Outcome
	if f := os.Getenv("VF_REJUDGE"); f != "" {
		// adjudication aid: judge a recorded history (replays/events/*.jsonl) again
		// instead of producing a new one
		out = loadOutcome(f, sc)
		sc = out.Sc
	} else {
		out = Run(sc, hooks)
	}
	res := vp.CaseResult{Stats: map[string]int64{}, Sets: map[string][]string{}}
	DumpEvents(os.Getenv("VF_EVENTS"), sc, out.Evs)
	if out.Inconclusive != "" && len(out.Evs) == 0 {
		res.Inconclusive = out.Inconclusive
		return res
	}
	ix := NewIndex(sc, out.Evs)
	v := p.Judge(out, ix)
	for i := range v.Violations {
		// make the case re-executable
		v.Violations[i].Case = map[string]any{"seed": seed, "tier": tier, "index": idx, "scenario": sc}
	}
	if len(v.Violations) > 0 {
		// keep the complete history next to the replay files (adjudication aid)
		dir := filepath.Join(vp.Root(), "replays", "events")
		if os.MkdirAll(dir, 0o755) == nil {
			DumpEvents(filepath.Join(dir, fmt.Sprintf("%s-%s-seed%d-case%d.jsonl", p.PID, tier, seed, idx)), sc, out.Evs)
		}
	}
	res.Violations = v.Violations
	res.Nontrivial = v.Nontrivial
	res.Sig = sc.Shape() + "|" + v.SigExtra
	for k, n := range v.Stats {
		res.Stats[k] += n
	}
	for k, s := range v.Sets {
		res.Sets[k] = append(res.Sets[k], s...)
	}
	res.Stats["events_observed"] += int64(len(out.Evs))
	for k, n := range out.PointHits {
		res.Stats["point_hits."+k] += n
	}
	res.Stats["point_sleeps_injected"] += out.PointSleeps
	res.Stats["scenarios_run"]++
	if out.Settled {
		res.Stats["scenarios_settled"]++
	}
	res.Sets["interleavings"] = append(res.Sets["interleavings"], InterleavingSig(out.Evs))
	res.Sets["final_status"] = append(res.Sets["final_status"], sc.Engine+":"+out.FinalStatus)
	res.Inconclusive = v.Inconclusive
	if res.Inconclusive == "" && out.Inconclusive != "" && len(v.Violations) == 0 {
		res.Inconclusive = out.Inconclusive
	}
	if idx%97 == 0 || len(v.Violations) > 0 {
		ex := out.Evs
		if len(ex) > 40 {
			ex = ex[len(ex)/2-20 : len(ex)/2+20]
		}
		res.Sample = map[string]any{"scenario": sc, "events_total": len(out.Evs), "final_status": out.FinalStatus, "history_excerpt": ex}
	}
	return res
}

// ChoosePoints decides, from a PRNG stream of its own (so the scenario itself is
// the same with and without it), where sleeps are injected at the repository's
// scheduling points: nowhere (1 in 4), a little everywhere (1 in 4), or a lot at
// one to three points relevant for the engine (2 in 4).
func ChoosePoints(sc *Scenario, seed int64, idx int, bias []string) {
	pr := rand.New(rand.NewSource(seed*7_000_003 + int64(idx)*104729 + 5))
	sc.PointSeed = pr.Int63()
	switch pr.Intn(4) {
	case 0:
		return
	case 1:
		sc.Points = map[string]int{"*": []int{50, 150, 400}[pr.Intn(3)]}
		return
	}
	relevant := func(all []string) []string {
		var names []string
		for _, n := range all {
			if sc.Engine == "v1" && strings.HasPrefix(n, "funnel.") {
				continue
			}
			if sc.Engine == "v2" && strings.HasPrefix(n, "stream.") {
				continue
			}
			names = append(names, n)
		}
		return names
	}
	names, pref := relevant(rig.PointNames), relevant(bias)
	sc.Points = map[string]int{}
	for k := 1 + pr.Intn(3); k > 0; k-- {
		from := names
		if len(pref) > 0 && pr.Intn(2) == 0 {
			from = pref
		}
		sc.Points[from[pr.Intn(len(from))]] = []int{500, 2000, 5000}[pr.Intn(3)]
	}
}

// DumpEvents writes a scenario and its history as JSON lines (development aid).
// loadOutcome reads a history written by DumpEvents.
func loadOutcome(f string, sc *Scenario) *Outcome {
	out := &Outcome{Sc: sc, Settled: true}
	b, err := os.ReadFile(f)
	if err != nil {
		out.Inconclusive = "cannot read " + f
		return out
	}
	lines := strings.Split(string(b), "\n")
	for i, l := range lines {
		if i == 0 {
			// the scenario as it was when the history was recorded
			rec := &Scenario{}
			if json.Unmarshal([]byte(l), rec) == nil && rec.Topo.Pipeline != "" {
				out.Sc = rec
				sc = rec
			}
			continue
		}
		if strings.TrimSpace(l) == "" {
			continue
		}
		var e rig.Ev
		if json.Unmarshal([]byte(l), &e) != nil {
			out.Inconclusive = "cannot parse " + f
			return out
		}
		out.Evs = append(out.Evs, e)
	}
	for i := len(out.Evs) - 1; i >= 0; i-- {
		if out.Evs[i].Kind == rig.KCommit && out.Evs[i].Snap != nil {
			out.FinalStatus = out.Evs[i].Snap.Status[sc.Topo.Pipeline]
			out.FinalStored = out.Evs[i].Snap.Pos
			break
		}
	}
	return out
}

func DumpEvents(f string, sc *Scenario, evs []rig.Ev) {
	if f == "" {
		return
	}
	fh, err := os.Create(f)
	if err != nil {
		return
	}
	defer fh.Close()
	b, _ := json.Marshal(sc)
	fh.Write(append(b, '\n'))
	for i := range evs {
		b, _ := json.Marshal(evs[i])
		fh.Write(append(b, '\n'))
	}
}

// CompletionOrderClass is a coarse permutation class: the order in which the
// destinations confirmed the first record that several of them confirmed, and
// whether a later record was confirmed in a different order.
func CompletionOrderClass(evs []rig.Ev) string {
	order := map[rig.Lin][]string{}
	var firstKey *rig.Lin
	for i := range evs {
		e := &evs[i]
		if e.Kind != rig.KDstAck || e.Role != "dst" {
			continue
		}
		for _, a := range e.Acks {
			if a.Err != "" {
				continue
			}
			o := a.Lin.Origin()
			seen := false
			for _, d := range order[o] {
				if d == e.Comp {
					seen = true
				}
			}
			if !seen {
				order[o] = append(order[o], e.Comp)
				if firstKey == nil && len(order[o]) >= 2 {
					k := o
					firstKey = &k
				}
			}
		}
	}
	if firstKey == nil {
		return "single"
	}
	first := strings.Join(order[*firstKey], "<")
	varies := false
	for _, ds := range order {
		if len(ds) >= 2 && strings.Join(ds, "<") != first && len(ds) == len(order[*firstKey]) {
			varies = true
		}
	}
	return fmt.Sprintf("%s|varies=%v", first, varies)
}
