package pipe

import (
	"context"

	"fmt"
	"github.com/conduitio/conduit-commons/database/badger"
	"github.com/rs/zerolog"
	"os"
	"strconv"
	"strings"
	"sync"
	"time"
	"verif/internal/vp"

	"github.com/conduitio/conduit/pkg/lifecycle"

	"verif/internal/faultdb"
	"verif/internal/rig"
)

// Outcome of running one scenario.
type Outcome struct {
	Sc  *Scenario
	Evs []rig.Ev
	Rig *rig.Rig // kept for property-specific post-processing (snapshots)
	// Settled: every emitted record reached a source ack, or the pipeline reached a terminal status.
	Settled bool
	// FinalStatus is the in-memory pipeline status at the end.
	FinalStatus string
	// FinalStored: stored position per source at the end.
	FinalStored map[string]int
	// HarnessNotes: watchdog notes (inconclusive reasons).
	Inconclusive string
	// Late events appended after the log was closed.
	Snaps []map[string][]byte
	// PointHits: hits per scheduling point; PointSleeps: injected sleeps.
	PointHits   map[string]int64
	PointSleeps int64
}

func terminal(status string) bool {
	switch status {
	case "Degraded", "UserStopped", "SystemStopped":
		return true
	}
	return false
}

// allAcked reports whether every record the sources may emit has been acked.
func allAcked(evs []rig.Ev, sc *Scenario) bool {
	acked := map[string]int{}
	for i := range evs {
		if evs[i].Kind == rig.KSrcAck {
			for _, x := range evs[i].Idx {
				if x+1 > acked[evs[i].Comp] {
					acked[evs[i].Comp] = x + 1
				}
			}
		}
	}
	for i, s := range sc.Topo.Sources {
		if acked[s.ID] < sc.Records[i] {
			return false
		}
	}
	return true
}

func lastStatus(evs []rig.Ev, pl string) string {
	for i := len(evs) - 1; i >= 0; i-- {
		if evs[i].Kind == rig.KCommit && evs[i].Snap != nil {
			if s, ok := evs[i].Snap.Status[pl]; ok {
				return s
			}
		}
	}
	return ""
}

// Hooks let a property add its own control operations.
type Hooks struct {
	// Op handles a custom step op; return false if unknown.
	Op func(r *rig.Rig, sc *Scenario, op string) bool
	// AfterBuild runs after the topology was created and before Start.
	AfterBuild func(r *rig.Rig, sc *Scenario)
	// NoStart: the runner does not start the pipeline itself.
	NoStart bool
	// Build, if set, creates the entities instead of rig.Build (plugin scripts are installed first).
	Build func(r *rig.Rig, sc *Scenario) error
}

// Run executes the scenario on a fresh rig. All waits inside are harness
// pacing with generous watchdogs; none of them is a verdict.
func Run(sc *Scenario, hooks *Hooks) *Outcome {
	out := &Outcome{Sc: sc, FinalStored: map[string]int{}}
	cfg := rig.Config{
		Engine:        sc.Engine,
		PersistDelay:  sc.persistDelay(),
		PersistBundle: sc.PersistBundle,
		KeepSnaps:     sc.KeepSnaps,
		Recovery: lifecycle.ErrRecoveryCfg{
			MinDelay:         time.Duration(sc.RecMinDelayUs) * time.Microsecond,
			MaxDelay:         time.Duration(sc.RecMaxDelayUs) * time.Microsecond,
			BackoffFactor:    2,
			MaxRetries:       sc.RecMaxRetries,
			MaxRetriesWindow: time.Duration(sc.RecWindowUs) * time.Microsecond,
		},
	}
	if sc.Store == "badger" {
		dir, err := os.MkdirTemp("", "vf-badger-")
		if err != nil {
			out.Inconclusive = "badger dir: " + err.Error()
			return out
		}
		bdb, err := badger.New(zerolog.Nop(), dir)
		if err != nil {
			os.RemoveAll(dir)
			out.Inconclusive = "badger: " + err.Error()
			return out
		}
		cfg.DB = bdb
		defer func() {
			_ = bdb.Close()
			os.RemoveAll(dir)
		}()
	}
	r, err := rig.New(cfg)
	if err != nil {
		out.Inconclusive = "rig: " + err.Error()
		return out
	}
	out.Rig = r
	ctx := context.Background()
	// always installed (without bounds it only counts the hits)
	pts := rig.InstallPoints(sc.PointSeed, sc.Points)
	r.Points = pts
	defer func() {
		pts.Uninstall()
		out.PointHits, out.PointSleeps = pts.Stats()
	}()
	if hooks != nil && hooks.Build != nil {
		r.ApplyScripts(sc.Topo)
		if err := hooks.Build(r, sc); err != nil {
			out.Inconclusive = "build: " + err.Error()
			out.Evs = r.Log.Close()
			return out
		}
	} else if err := r.Build(ctx, sc.Topo); err != nil {
		out.Inconclusive = "build: " + err.Error()
		out.Evs = r.Log.Close()
		return out
	}
	for _, f := range sc.Faults {
		rule := &faultdb.Rule{Kind: f.Kind, KeyPrefix: f.KeyPrefix, Nth: f.Nth, Every: f.Every}
		switch f.Action {
		case "fail":
			rule.Dec.Err = faultdb.ErrInjected
		case "delay":
			rule.Dec.Delay = time.Duration(f.DelayUs) * time.Microsecond
		case "delay-after":
			rule.Dec.DelayAfter = time.Duration(f.DelayUs) * time.Microsecond
		}
		r.Script.Add(rule)
	}
	for i, s := range sc.Topo.Sources {
		r.Plugins.Source(s.ID).Allow(sc.Records[i])
	}
	if hooks != nil && hooks.AfterBuild != nil {
		hooks.AfterBuild(r, sc)
	}
	r.Log.Append(rig.Ev{Kind: rig.KNote, Note: "scenario-start"})
	if hooks == nil || !hooks.NoStart {
		if err := r.Start(ctx, sc.Topo.Pipeline); err != nil {
			// a start failure is an observation; oracles decide
			r.Log.Append(rig.Ev{Kind: rig.KNote, Note: "start failed", Err: err.Error()})
		}
	}

	settled := func(evs []rig.Ev) bool {
		if allAcked(evs, sc) {
			return true
		}
		return terminal(lastStatus(evs, sc.Topo.Pipeline))
	}

	var wg sync.WaitGroup
	var doOp func(op string)
	doOp = func(op string) {
		switch {
		case strings.HasPrefix(op, "bg:"):
			// run the operation in the background (it may block, e.g. a graceful stop
			// against an unresponsive destination)
			wg.Add(1)
			go func() { defer wg.Done(); doOp(strings.TrimPrefix(op, "bg:")) }()
		case op == "stop":
			_ = r.Stop(ctx, sc.Topo.Pipeline, false)
		case op == "stopwait":
			if err := r.Stop(ctx, sc.Topo.Pipeline, false); err == nil {
				_ = r.WaitPipeline(sc.Topo.Pipeline)
			}
		case op == "stopandwait":
			_ = r.StopAndWait(ctx, sc.Topo.Pipeline)
		case strings.HasPrefix(op, "stopdl:"):
			// a graceful stop whose caller gives up after <ms> milliseconds
			ms, _ := strconv.Atoi(strings.TrimPrefix(op, "stopdl:"))
			dctx, cancel := context.WithTimeout(ctx, time.Duration(ms)*time.Millisecond)
			_ = r.Stop(dctx, sc.Topo.Pipeline, false)
			cancel()
		case op == "forcestop":
			_ = r.Stop(ctx, sc.Topo.Pipeline, true)
		case op == "stopall":
			_ = r.StopAll(ctx)
		case op == "start":
			_ = r.Start(ctx, sc.Topo.Pipeline)
		case op == "wait":
			_ = r.WaitPipeline(sc.Topo.Pipeline)
		case op == "waitbg":
			wg.Add(1)
			go func() { defer wg.Done(); _ = r.WaitPipeline(sc.Topo.Pipeline) }()
		case strings.HasPrefix(op, "block:"):
			id := strings.TrimPrefix(op, "block:")
			r.Plugins.Destination(id).Block()
			r.Log.Append(rig.Ev{Kind: rig.KNote, Note: "blocked", Comp: id})
		case strings.HasPrefix(op, "unblock:"):
			id := strings.TrimPrefix(op, "unblock:")
			r.Log.Append(rig.Ev{Kind: rig.KNote, Note: "unblocked", Comp: id})
			r.Plugins.Destination(id).Unblock()
		case strings.HasPrefix(op, "allow:"):
			parts := strings.Split(op, ":")
			n, _ := strconv.Atoi(parts[2])
			r.Plugins.Source(parts[1]).Allow(n)
		case op == "settle":
			r.Log.WaitFor(settled, 20*time.Second)
		case op == "quiet":
			r.Log.Quiet(30*time.Millisecond, 5*time.Second)
		default:
			if hooks != nil && hooks.Op != nil && hooks.Op(r, sc, op) {
				return
			}
			r.Log.Append(rig.Ev{Kind: rig.KNote, Note: "unknown op " + op})
		}
	}
	for _, st := range sc.Steps {
		if st.AtEvent >= 0 {
			// fire relative to the flow: when the log has grown by AtEvent
			// events since scenario start (or the flow has settled first)
			base := 0
			evs := r.Log.Snapshot()
			for i := range evs {
				if evs[i].Kind == rig.KNote && evs[i].Note == "scenario-start" {
					base = i
					break
				}
			}
			target := base + st.AtEvent
			r.Log.WaitFor(func(evs []rig.Ev) bool { return len(evs) >= target || settled(evs) }, 10*time.Second)
		} else {
			r.Log.WaitFor(settled, 20*time.Second)
		}
		if st.AfterPrevUs > 0 {
			time.Sleep(time.Duration(st.AfterPrevUs) * time.Microsecond)
		}
		doOp(st.Op)
	}

	// final phase
	out.Settled = r.Log.WaitFor(settled, 20*time.Second)
	status := r.Status(sc.Topo.Pipeline)
	if sc.FinalStop != "none" && (status == "Running" || status == "Recovering") {
		r.Log.Append(rig.Ev{Kind: rig.KNote, Note: "final-stop"})
		done := make(chan struct{})
		go func() {
			defer close(done)
			if err := r.StopAndWait(ctx, sc.Topo.Pipeline); err != nil {
				// e.g. recovering pipelines reject a stop in v1; fall back to waiting
				_ = r.WaitPipeline(sc.Topo.Pipeline)
			}
		}()
		select {
		case <-done:
		case <-time.After(45 * time.Second):
			out.Inconclusive = "final StopAndWait did not return within the 45s harness watchdog"
			if os.Getenv("VF_DUMP") != "" {
				vp.DumpGoroutines(os.Stderr)
			}
		}
	}
	wgDone := make(chan struct{})
	go func() { wg.Wait(); close(wgDone) }()
	select {
	case <-wgDone:
	case <-time.After(10 * time.Second):
		if out.Inconclusive == "" {
			out.Inconclusive = "background WaitPipeline did not return"
		}
	}
	// let trailing persister flushes and status writes land (pacing only)
	r.Log.Quiet(15*time.Millisecond, 2*time.Second)
	out.FinalStatus = r.Status(sc.Topo.Pipeline)
	snap := rig.DecodeSnap(r.DB.Snapshot())
	for _, s := range sc.Topo.Sources {
		if v, ok := snap.Pos[s.ID]; ok {
			out.FinalStored[s.ID] = v
		} else {
			out.FinalStored[s.ID] = -3
		}
	}
	r.Log.Append(rig.Ev{Kind: rig.KNote, Note: "scenario-end", Arg: fmt.Sprintf("status=%s stored=%v blocked=%d", out.FinalStatus, out.FinalStored, r.Plugins.Blocked())})
	out.Evs = r.Log.Close()
	out.Snaps = r.SnapsCopy()
	return out
}
