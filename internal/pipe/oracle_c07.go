package pipe

import (
	"fmt"
	"sort"
	"strings"

	"verif/internal/rig"
	"verif/internal/vp"
)

// RefWindow is the DLQ nack window written from the wording of C07 (not from
// either implementation): the window initially holds only acks; a rejection is
// tolerated iff the rejections among the most recent W outcomes, counting it,
// do not exceed T; W == 0 removes the limit; T == 0 (with W > 0) tolerates none.
type RefWindow struct {
	W, T int
	hist []bool
}

func (r *RefWindow) Outcome(nack bool) (tolerated bool) {
	r.hist = append(r.hist, nack)
	if !nack {
		return true
	}
	if r.W == 0 {
		return true
	}
	if r.T == 0 {
		return false
	}
	from := len(r.hist) - r.W
	if from < 0 {
		from = 0
	}
	n := 0
	for _, x := range r.hist[from:] {
		if x {
			n++
		}
	}
	return n <= r.T
}

type srcSession struct {
	src     string
	sess    int
	emitted []int
	acked   map[int]int // idx -> event
	open    int
	end     int // teardown event or len(evs)
}

func sourceSessions(evs []rig.Ev) []*srcSession {
	m := map[string]*srcSession{}
	var order []*srcSession
	get := func(e *rig.Ev, i int) *srcSession {
		k := fmt.Sprintf("%s#%d", e.Comp, e.Sess)
		s := m[k]
		if s == nil {
			s = &srcSession{src: e.Comp, sess: e.Sess, acked: map[int]int{}, open: i, end: len(evs)}
			m[k] = s
			order = append(order, s)
		}
		return s
	}
	for i := range evs {
		e := &evs[i]
		switch e.Kind {
		case rig.KSrcOpen:
			get(e, i)
		case rig.KSrcEmit:
			s := get(e, i)
			s.emitted = append(s.emitted, e.Idx...)
		case rig.KSrcAck:
			s := get(e, i)
			for _, x := range e.Idx {
				if x >= 0 {
					s.acked[x] = i
				}
			}
		case rig.KSrcTeardown:
			get(e, i).end = i
		}
	}
	return order
}

// OracleC07 judges DLQ behaviour. exactWindow enables the reference-window
// decision check (single-source pipelines, or arch-v2 whose windows are per source).
func OracleC07(ix *Index, exactWindow bool) ([]vp.Violation, Judged) {
	j := Judged{ByHow: map[string]int64{}}
	var vs []vp.Violation
	evs := ix.Evs
	sc := ix.Sc
	add := func(class, sub, detail string, around ...int) {
		id := fmt.Sprintf("C07/%s/%s", class, sc.Engine)
		if sub != "" {
			id += "/" + sub
		}
		vs = append(vs, vp.Violation{Property: "C07", Class: class, Identity: id, Detail: detail, Case: sc, Witness: rig.Excerpt(evs, around, 8)})
	}
	// (a) at most once per DLQ session, (c) source order per DLQ session, (d) content
	type dk struct {
		comp string
		sess int
	}
	seen := map[string]int{}
	lastIdx := map[string]int{}
	engineInduced := map[rig.Lin]bool{}
	for i := range evs {
		e := &evs[i]
		if e.Kind != rig.KDstWrite || e.Role != "dlq" {
			continue
		}
		for n, l := range e.Recs {
			j.Obligations++
			j.ByHow["dlq_records_judged"]++
			if l.Idx < 0 {
				add("dlq-record-not-attributable", "", fmt.Sprintf("DLQ %s received a record that does not carry the original record (no lineage decodable) at event %d", e.Comp, i), i)
				continue
			}
			o := l.Origin()
			k := fmt.Sprintf("%s#%d/%s", e.Comp, e.Sess, o)
			if prev, dup := seen[k]; dup {
				// a retry after a FAILED DLQ write is not a second copy: only a write
				// that follows a positively confirmed one duplicates the record
				if oki, ok := ix.DlqOK[o]; ok && oki > prev && oki < i {
					add("dlq-written-twice", "", fmt.Sprintf("record %s was written to the DLQ again (event %d) after its DLQ write at event %d had been confirmed, within one run", o, i, prev), prev, i)
				} else {
					j.ByHow["dlq_write_retries_after_failed_write"]++
				}
			}
			seen[k] = i
			ok := fmt.Sprintf("%s#%d/%s", e.Comp, e.Sess, o.Src)
			if last, has := lastIdx[ok]; has && o.Idx < last {
				add("dlq-out-of-source-order", "", fmt.Sprintf("DLQ %s received %s after record %d of the same source", e.Comp, o, last), i)
			}
			lastIdx[ok] = o.Idx
			// content: error and failing component
			exp := ix.Expect(o.Src, o.Idx)
			if n < len(e.Out) {
				parts := strings.SplitN(e.Out[n], ": ", 2)
				node, msg := parts[0], ""
				if len(parts) == 2 {
					msg = parts[1]
				}
				scripted := strings.HasPrefix(msg, "vf-reject ") || strings.HasPrefix(msg, "vf-proc-error ") || strings.Contains(msg, ": vf-reject ") || strings.Contains(msg, ": vf-proc-error ")
				if !strings.Contains(msg, "vf-reject ") && !strings.Contains(msg, "vf-proc-error ") {
					// engine-induced nack (context cancelled at teardown, a sibling
					// fan-out branch nacked, ...): the record is in the DLQ, nothing is
					// lost; the property does not forbid it. Recorded as an observation.
					j.ByHow["dlq_records_engine_induced"]++
					engineInduced[o] = true
				} else {
					_ = scripted
					// a scripted error: it must be an error of THIS record (alignment)
					// and the component named must be the one that raised it
					if !strings.Contains(msg, "vf-reject "+o.String()+" at ") && !strings.Contains(msg, "vf-proc-error "+o.String()+" at ") && !strings.Contains(msg, "vf-reject "+o.String()+"/") && !strings.Contains(msg, "vf-proc-error "+o.String()+"/") {
						add("dlq-record-wrong-error", "", fmt.Sprintf("DLQ record for %s carries error %q, which is the scripted error of a different record", o, msg), i)
					} else if exp.Class != ClRejected {
						add("dlq-record-not-rejected", exp.Class, fmt.Sprintf("record %s carries a scripted rejection %q although no component rejects it per script", o, msg), i)
					} else {
						at := msg[strings.LastIndex(msg, " at ")+4:]
						if i := strings.IndexAny(at, " :,)"); i >= 0 {
							at = at[:i]
						}
						if !(node == at || strings.HasPrefix(node, at+"-") || strings.HasPrefix(node, at)) {
							add("dlq-record-wrong-component", "", fmt.Sprintf("DLQ record for %s names failing component %q but the error %q was raised by %q", o, node, msg, at), i)
						}
					}
				}
			}
		}
		if len(vs) > 4 {
			return vs, j
		}
	}
	// (b) a failed DLQ write never results in an ack
	for o, fi := range ix.DlqFail {
		j.Obligations++
		j.ByHow["failed_dlq_writes_judged"]++
		if oki, ok := ix.DlqOK[o]; ok && oki < fi {
			continue
		}
		for i := fi; i < len(evs); i++ {
			e := &evs[i]
			if e.Kind == rig.KSrcAck && e.Comp == o.Src {
				for _, x := range e.Idx {
					if x == o.Idx {
						// a later run may legitimately deliver (or dead-letter) the record
						// after a restart: only an ack with no other handling counts
						if handled, _, _ := ix.HandledBefore(o.Src, o.Idx, i); handled {
							continue
						}
						if oki, ok := ix.DlqOK[o]; !ok || oki > i {
							add("ack-after-failed-dlq-write", "", fmt.Sprintf("record %s: the DLQ write failed at event %d, yet the source was acked at event %d without a successful DLQ write", o, fi, i), fi, i)
						}
					}
				}
			}
		}
	}
	// (f) a rejection the window tolerated (dead-lettered and acknowledged) must not
	// also bring the pipeline down: "written to the DLQ ... OTHERWISE the pipeline stops"
	for i := range evs {
		txt := ""
		if evs[i].Kind == rig.KFailure {
			txt = evs[i].Err
		} else if evs[i].Kind == rig.KWarn && strings.Contains(evs[i].Note, "node stopped") {
			txt = evs[i].Note
		}
		if strings.Contains(txt, "message was nacked by another node") {
			j.Obligations++
			add("tolerated-rejection-failed-pipeline", "fanout-sibling-ack", "a destination rejected a record that the DLQ window tolerates (it was dead-lettered), yet the sibling fan-out branch failed its own ack with 'message was nacked by another node' and the pipeline went down with that error", i)
			break
		}
	}
	if !exactWindow {
		return vs, j
	}
	// (e) tolerate-vs-stop decisions against the reference window, per source session
	failText := ""
	for i := range evs {
		if evs[i].Kind == rig.KFailure {
			failText += evs[i].Err + "\n"
		}
		if evs[i].Kind == rig.KCommit && evs[i].Snap != nil {
			failText += evs[i].Snap.StatusErr[sc.Topo.Pipeline] + "\n"
		}
	}
	for _, s := range sourceSessions(evs) {
		if len(s.emitted) == 0 {
			continue
		}
		skip := false
		for o := range engineInduced {
			if o.Src == s.src {
				// the engine itself nacked records the scripts do not reject (teardown,
				// fan-out sibling nack): the outcome sequence the window saw is not the
				// scripted one, the exact decision is not decidable for this source
				skip = true
			}
		}
		if skip {
			j.ByHow["window_sessions_skipped_engine_induced_nacks"]++
			continue
		}
		ref := &RefWindow{W: sc.Topo.DLQWindow, T: sc.Topo.DLQThresh}
		F := -1
		for _, idx := range s.emitted {
			nack := ix.Expect(s.src, idx).Class == ClRejected
			if !ref.Outcome(nack) {
				F = idx
				break
			}
		}
		j.Obligations++
		j.ByHow["window_sessions_judged"]++
		if F >= 0 {
			j.ByHow["sessions_with_intolerable_rejection"]++
			acked := make([]int, 0, len(s.acked))
			for x := range s.acked {
				acked = append(acked, x)
			}
			sort.Ints(acked)
			for _, x := range acked {
				if x >= F {
					add("rejection-tolerated-beyond-window", fmt.Sprintf("w%d-t%d", minInt(sc.Topo.DLQWindow, 9), minInt(sc.Topo.DLQThresh, 9)),
						fmt.Sprintf("source %s session %d: per the window rule (W=%d,T=%d) the rejection of record %d must stop the pipeline, but record %d was acknowledged", s.src, s.sess, sc.Topo.DLQWindow, sc.Topo.DLQThresh, F, x), s.acked[x])
					break
				}
			}
		}
		// too strict: the pipeline stopped on a rejection the window still permits
		if strings.Contains(failText, "nack threshold exceeded") {
			maxAck := s.emitted[0] - 1
			for x := range s.acked {
				if x > maxAck {
					maxAck = x
				}
			}
			X := maxAck + 1
			emittedX := false
			for _, idx := range s.emitted {
				if idx == X {
					emittedX = true
				}
			}
			// the failure must be about record X itself (the engine's message names the
			// original error, which carries the record's lineage)
			xs := rig.Lin{Src: s.src, Idx: X}.String()
			aboutX := strings.Contains(failText, xs+" at ") || strings.Contains(failText, xs+"/")
			if emittedX && aboutX && (F < 0 || X < F) && ix.Expect(s.src, X).Class == ClRejected {
				if _, dlq := ix.DlqWrites[rig.Lin{Src: s.src, Idx: X}]; !dlq {
					// only decidable when this is the last session of the source (the run that failed)
					last := true
					for _, t := range sourceSessions(evs) {
						if t.src == s.src && t.sess > s.sess {
							last = false
						}
					}
					if last {
						add("tolerable-rejection-stopped-pipeline", fmt.Sprintf("w%d-t%d", minInt(sc.Topo.DLQWindow, 9), minInt(sc.Topo.DLQThresh, 9)),
							fmt.Sprintf("source %s session %d: the pipeline stopped with 'nack threshold exceeded' at record %d although the window rule (W=%d,T=%d) still permits that rejection", s.src, s.sess, X, sc.Topo.DLQWindow, sc.Topo.DLQThresh))
					}
				}
			}
		}
	}
	return vs, j
}

func minInt(a, b int) int {
	if a < b {
		return a
	}
	return b
}

// Decisions summarises what an engine decided for a scenario: which records
// were acknowledged and which were dead-lettered, per source.
func Decisions(evs []rig.Ev) (acked, dlq map[string][]int) {
	acked, dlq = map[string][]int{}, map[string][]int{}
	as, ds := map[string]map[int]bool{}, map[string]map[int]bool{}
	for i := range evs {
		e := &evs[i]
		switch {
		case e.Kind == rig.KSrcAck:
			if as[e.Comp] == nil {
				as[e.Comp] = map[int]bool{}
			}
			for _, x := range e.Idx {
				if x >= 0 {
					as[e.Comp][x] = true
				}
			}
		case e.Kind == rig.KDstWrite && e.Role == "dlq":
			for _, l := range e.Recs {
				if l.Idx >= 0 {
					if ds[l.Src] == nil {
						ds[l.Src] = map[int]bool{}
					}
					ds[l.Src][l.Idx] = true
				}
			}
		}
	}
	for s, m := range as {
		for x := range m {
			acked[s] = append(acked[s], x)
		}
		sort.Ints(acked[s])
	}
	for s, m := range ds {
		for x := range m {
			dlq[s] = append(dlq[s], x)
		}
		sort.Ints(dlq[s])
	}
	return
}
