package pipe

import (
	"fmt"
	"sort"
	"strconv"
	"strings"

	"verif/internal/rig"
	"verif/internal/vp"
)

// Index is a pre-digested view of one recorded history.
type Index struct {
	Sc    *Scenario
	Evs   []rig.Ev
	Model *Model

	// DlqOK: origin -> log index of the first positive DLQ confirmation.
	DlqOK map[rig.Lin]int
	// DlqWrites: origin -> log indices of DLQ writes carrying it.
	DlqWrites map[rig.Lin][]int
	// DlqFail: origin -> log index of a DLQ ack with error.
	DlqFail map[rig.Lin]int
	// DstOK: dst -> lineage(piece) -> log index of the first positive confirmation.
	DstOK map[string]map[rig.Lin]int
	// Roles: connector id -> role.
	Roles map[string]string
	// Commits: log indices of Commit events.
	Commits  []int
	expCache map[rig.Lin]Expect
}

func NewIndex(sc *Scenario, evs []rig.Ev) *Index {
	ix := &Index{Sc: sc, Evs: evs, Model: NewModel(sc),
		DlqOK: map[rig.Lin]int{}, DlqWrites: map[rig.Lin][]int{}, DlqFail: map[rig.Lin]int{},
		DstOK: map[string]map[rig.Lin]int{}, Roles: map[string]string{}, expCache: map[rig.Lin]Expect{}}
	for i := range evs {
		e := &evs[i]
		if e.Comp != "" && e.Role != "" {
			ix.Roles[e.Comp] = e.Role
		}
		switch e.Kind {
		case rig.KCommit:
			ix.Commits = append(ix.Commits, i)
		case rig.KDstWrite:
			if e.Role == "dlq" {
				for _, l := range e.Recs {
					ix.DlqWrites[l.Origin()] = append(ix.DlqWrites[l.Origin()], i)
				}
			}
		case rig.KDstAck:
			for _, a := range e.Acks {
				if strings.HasPrefix(a.Err, "HOSTILE") {
					continue
				}
				if e.Role == "dlq" {
					o := a.Lin.Origin()
					if a.Err == "" {
						if _, ok := ix.DlqOK[o]; !ok {
							ix.DlqOK[o] = i
						}
					} else if _, ok := ix.DlqFail[o]; !ok {
						ix.DlqFail[o] = i
					}
					continue
				}
				if a.Err != "" {
					continue
				}
				m := ix.DstOK[e.Comp]
				if m == nil {
					m = map[rig.Lin]int{}
					ix.DstOK[e.Comp] = m
				}
				if _, ok := m[a.Lin]; !ok {
					m[a.Lin] = i
				}
			}
		}
	}
	return ix
}

func (ix *Index) Expect(src string, idx int) Expect {
	k := rig.Lin{Src: src, Idx: idx}
	if e, ok := ix.expCache[k]; ok {
		return e
	}
	e := ix.Model.Expect(src, idx)
	ix.expCache[k] = e
	return e
}

// HandledBefore reports whether the record (src, idx) had reached a terminal
// outcome strictly before log index at: positively confirmed by the DLQ, or —
// if no component rejects it — every piece expected at every destination
// positively confirmed there (vacuously true for a filtered record).
// missing describes what was not confirmed.
func (ix *Index) HandledBefore(src string, idx int, at int) (ok bool, how string, missing string) {
	o := rig.Lin{Src: src, Idx: idx}
	if j, yes := ix.DlqOK[o]; yes && j < at {
		return true, "dlq", ""
	}
	exp := ix.Expect(src, idx)
	if exp.Class == ClRejected {
		return false, "", fmt.Sprintf("record is rejected by %v per script and has no positive DLQ confirmation before event %d", exp.RejectedBy, at)
	}
	for _, d := range ix.Sc.Topo.Dests {
		for _, piece := range exp.Writes[d.ID] {
			j, yes := ix.DstOK[d.ID][piece]
			if !yes || j >= at {
				return false, "", fmt.Sprintf("piece %s not positively confirmed by destination %s before event %d", piece, d.ID, at)
			}
		}
	}
	if exp.Class == ClFiltered {
		return true, "filtered", ""
	}
	return true, "delivered", ""
}

func engineOf(sc *Scenario) string { return sc.Engine }

// nackMisattributed reports whether some DLQ record of a DIFFERENT origin
// carries a scripted rejection error of record o.
func (ix *Index) nackMisattributed(o rig.Lin) bool {
	for i := range ix.Evs {
		e := &ix.Evs[i]
		if e.Kind != rig.KDstWrite || e.Role != "dlq" {
			continue
		}
		for n, l := range e.Recs {
			if n >= len(e.Out) || l.Idx < 0 || l.Origin() == o {
				continue
			}
			m := e.Out[n]
			for _, pfx := range []string{"vf-reject ", "vf-proc-error "} {
				if strings.Contains(m, pfx+o.String()+" at ") || strings.Contains(m, pfx+o.String()+"/") {
					return true
				}
			}
		}
	}
	return false
}

// ---------------------------------------------------------------------------
// C01

type Judged struct {
	Obligations int64
	ByHow       map[string]int64
}

// OracleC01: every ack observed by a source plugin is preceded by the
// confirmations the property demands.
func OracleC01(ix *Index) ([]vp.Violation, Judged) {
	j := Judged{ByHow: map[string]int64{}}
	var vs []vp.Violation
	for i := range ix.Evs {
		e := &ix.Evs[i]
		if e.Kind != rig.KSrcAck {
			continue
		}
		for _, idx := range e.Idx {
			if idx < 0 {
				continue
			}
			j.Obligations++
			ok, how, missing := ix.HandledBefore(e.Comp, idx, i)
			if ok {
				j.ByHow[how]++
				continue
			}
			exp := ix.Expect(e.Comp, idx)
			sub := exp.Class
			if exp.Class == ClRejected && ix.nackMisattributed(rig.Lin{Src: e.Comp, Idx: idx}) {
				// the engine dead-lettered ANOTHER record with this record's rejection
				sub = "rejected/nack-misattributed-to-other-record"
			}
			vs = append(vs, vp.Violation{
				Property: "C01", Class: "ack-before-confirmation",
				Identity: fmt.Sprintf("C01/ack-before-confirmation/%s/%s", ix.Sc.Engine, sub),
				Detail:   fmt.Sprintf("source %s was acked record %d at event %d but %s", e.Comp, idx, i, missing),
				Case:     ix.Sc,
				Witness:  rig.Excerpt(ix.Evs, []int{i}, 12),
			})
			if len(vs) > 3 {
				return vs, j
			}
		}
	}
	return vs, j
}

// ---------------------------------------------------------------------------
// C04

// OracleC04: per source session, the flattened ack sequence is a prefix of
// the flattened emit sequence.
func OracleC04(ix *Index) ([]vp.Violation, Judged) {
	j := Judged{ByHow: map[string]int64{}}
	type sess struct {
		emits, acks []int
		ackEv       []int
	}
	m := map[string]*sess{}
	key := func(e *rig.Ev) string { return e.Comp + "#" + strconv.Itoa(e.Sess) }
	var order []string
	for i := range ix.Evs {
		e := &ix.Evs[i]
		if e.Kind != rig.KSrcEmit && e.Kind != rig.KSrcAck {
			continue
		}
		s := m[key(e)]
		if s == nil {
			s = &sess{}
			m[key(e)] = s
			order = append(order, key(e))
		}
		if e.Kind == rig.KSrcEmit {
			s.emits = append(s.emits, e.Idx...)
		} else {
			for _, x := range e.Idx {
				s.acks = append(s.acks, x)
				s.ackEv = append(s.ackEv, i)
			}
		}
	}
	var vs []vp.Violation
	for _, k := range order {
		s := m[k]
		for n, a := range s.acks {
			j.Obligations++
			if n < len(s.emits) && s.emits[n] == a {
				continue
			}
			kind := "gap-or-reorder"
			if n > 0 && a <= s.acks[n-1] {
				kind = "repeat-or-backwards"
			}
			want := "nothing (all emitted records were already acked)"
			if n < len(s.emits) {
				want = strconv.Itoa(s.emits[n])
			}
			vs = append(vs, vp.Violation{
				Property: "C04", Class: "ack-order",
				Identity: fmt.Sprintf("C04/ack-order/%s/%s", ix.Sc.Engine, kind),
				Detail:   fmt.Sprintf("session %s: ack #%d is for record %d, expected %s", k, n, a, want),
				Case:     ix.Sc,
				Witness:  rig.Excerpt(ix.Evs, []int{s.ackEv[n]}, 10),
			})
			break
		}
	}
	return vs, j
}

// ---------------------------------------------------------------------------
// C05

func pathLess(a, b string) bool {
	if a == b {
		return false
	}
	as, bs := strings.Split(a, "."), strings.Split(b, ".")
	if a == "" {
		as = nil
	}
	if b == "" {
		bs = nil
	}
	for i := 0; i < len(as) && i < len(bs); i++ {
		x, _ := strconv.Atoi(as[i])
		y, _ := strconv.Atoi(bs[i])
		if x != y {
			return x < y
		}
	}
	return len(as) < len(bs)
}

// OracleC05: per destination session and per source, writes appear in read
// order, nothing twice, and nothing that was filtered or rejected upstream of
// that destination.
func OracleC05(ix *Index) ([]vp.Violation, Judged) {
	j := Judged{ByHow: map[string]int64{}}
	var vs []vp.Violation
	type last struct {
		lin rig.Lin
		ev  int
		set bool
	}
	lasts := map[string]*last{}
	seen := map[string]bool{}
	for i := range ix.Evs {
		e := &ix.Evs[i]
		if e.Kind != rig.KDstWrite || e.Role != "dst" {
			continue
		}
		for _, l := range e.Recs {
			if l.Idx < 0 {
				continue
			}
			j.Obligations++
			k := fmt.Sprintf("%s#%d/%s", e.Comp, e.Sess, l.Src)
			la := lasts[k]
			if la == nil {
				la = &last{}
				lasts[k] = la
			}
			dk := k + "/" + l.String()
			if seen[dk] {
				vs = append(vs, vp.Violation{
					Property: "C05", Class: "written-twice",
					Identity: fmt.Sprintf("C05/written-twice/%s", ix.Sc.Engine),
					Detail:   fmt.Sprintf("destination %s session %d received %s twice within one run", e.Comp, e.Sess, l),
					Case:     ix.Sc, Witness: rig.Excerpt(ix.Evs, []int{la.ev, i}, 6),
				})
			} else if la.set && (l.Idx < la.lin.Idx || (l.Idx == la.lin.Idx && !pathLess(la.lin.Path, l.Path))) {
				vs = append(vs, vp.Violation{
					Property: "C05", Class: "out-of-order",
					Identity: fmt.Sprintf("C05/out-of-order/%s", ix.Sc.Engine),
					Detail:   fmt.Sprintf("destination %s session %d received %s after %s", e.Comp, e.Sess, l, la.lin),
					Case:     ix.Sc, Witness: rig.Excerpt(ix.Evs, []int{la.ev, i}, 6),
				})
			}
			seen[dk] = true
			la.lin, la.ev, la.set = l, i, true
			exp := ix.Expect(l.Src, l.Idx)
			if !exp.Possible[e.Comp][l.Path] {
				why := "filtered or rejected upstream of this destination"
				vs = append(vs, vp.Violation{
					Property: "C05", Class: "absent-record-written",
					Identity: fmt.Sprintf("C05/absent-record-written/%s/%s", ix.Sc.Engine, exp.Class),
					Detail:   fmt.Sprintf("destination %s received %s, which per the processor scripts is %s (record class %s)", e.Comp, l, why, exp.Class),
					Case:     ix.Sc, Witness: rig.Excerpt(ix.Evs, []int{i}, 8),
				})
			} else {
				j.ByHow["possible"]++
			}
			if len(vs) > 4 {
				return vs, j
			}
		}
	}
	return vs, j
}

// ---------------------------------------------------------------------------
// C02

// OracleC02: ack only after a successful commit holding that position (or a
// later one); stored positions only move forward; at every commit everything
// at or before the stored position has been handled.
func OracleC02(ix *Index) ([]vp.Violation, Judged) {
	j := Judged{ByHow: map[string]int64{}}
	var vs []vp.Violation
	durable := map[string]int{} // src -> highest committed position so far
	have := map[string]bool{}
	lastPos := map[string]int{}
	for i := range ix.Evs {
		e := &ix.Evs[i]
		switch e.Kind {
		case rig.KCommit:
			if e.Snap == nil {
				continue
			}
			for src, p := range e.Snap.Pos {
				prev, seen := lastPos[src]
				if seen && p < prev {
					j.Obligations++
					kind := "backwards"
					if p == -1 {
						kind = "became-empty"
					}
					vs = append(vs, vp.Violation{
						Property: "C02", Class: "stored-position-regressed",
						Identity: fmt.Sprintf("C02/stored-position-regressed/%s/%s", ix.Sc.Engine, kind),
						Detail:   fmt.Sprintf("stored position of %s went from %d to %d at commit event %d", src, prev, p, i),
						Case:     ix.Sc, Witness: rig.Excerpt(ix.Evs, []int{i}, 8),
					})
				}
				if seen && p > prev || !seen && p >= 0 {
					// (c) everything at or before p handled before this commit
					from := 0
					if seen {
						from = prev + 1
					}
					for k := from; k <= p; k++ {
						j.Obligations++
						j.ByHow["commit-covers-handled"]++
						if ok, _, missing := ix.HandledBefore(src, k, i); !ok {
							vs = append(vs, vp.Violation{
								Property: "C02", Class: "commit-past-unhandled",
								Identity: fmt.Sprintf("C02/commit-past-unhandled/%s", ix.Sc.Engine),
								Detail:   fmt.Sprintf("commit event %d stores position %d for %s but record %d: %s", i, p, src, k, missing),
								Case:     ix.Sc, Witness: rig.Excerpt(ix.Evs, []int{i}, 10),
							})
							break
						}
					}
				}
				lastPos[src] = p
				if !have[src] || p > durable[src] {
					durable[src] = p
					have[src] = true
				}
			}
			for src, raw := range e.Snap.RawPos {
				vs = append(vs, vp.Violation{
					Property: "C02", Class: "stored-position-foreign",
					Identity: fmt.Sprintf("C02/stored-position-foreign/%s", ix.Sc.Engine),
					Detail:   fmt.Sprintf("stored position of %s is %q, not a position the source produced", src, raw),
					Case:     ix.Sc, Witness: rig.Excerpt(ix.Evs, []int{i}, 6),
				})
			}
		case rig.KSrcAck:
			for _, idx := range e.Idx {
				if idx < 0 {
					continue
				}
				j.Obligations++
				j.ByHow["ack-covered-by-commit"]++
				if !have[e.Comp] || durable[e.Comp] < idx {
					d := -1
					if have[e.Comp] {
						d = durable[e.Comp]
					}
					vs = append(vs, vp.Violation{
						Property: "C02", Class: "ack-before-durable",
						Identity: fmt.Sprintf("C02/ack-before-durable/%s", ix.Sc.Engine),
						Detail:   fmt.Sprintf("source %s was acked position %d at event %d but the highest position in any successful commit so far is %d", e.Comp, idx, i, d),
						Case:     ix.Sc, Witness: rig.Excerpt(ix.Evs, []int{i}, 12),
					})
				}
			}
		}
		if len(vs) > 4 {
			break
		}
	}
	return vs, j
}

// ---------------------------------------------------------------------------
// C06

// FallbackWarned reports whether the engine logged one of its deliberate
// bounded-wait fallbacks (after which a final ack may legitimately be dropped).
func FallbackWarned(evs []rig.Ev) bool {
	for i := range evs {
		if evs[i].Kind == rig.KWarn {
			n := evs[i].Note
			if strings.Contains(n, "timed out waiting for the final flush") || strings.Contains(n, "gave up draining pending deferred acks") ||
				strings.Contains(n, "did not stop within") || strings.Contains(n, "timed out") {
				return true
			}
		}
	}
	return false
}

// OracleC06 judges the state at the return of every successful graceful
// stop-and-wait (StopAndWait, or Stop followed by WaitPipeline returning nil).
func OracleC06(ix *Index) ([]vp.Violation, Judged, string) {
	j := Judged{ByHow: map[string]int64{}}
	var vs []vp.Violation
	evs := ix.Evs
	for r := range evs {
		e := &evs[r]
		if e.Kind != rig.KCtlRet || e.Op != "StopAndWait" || e.Err != "" {
			continue
		}
		// premise: a HEALTHY pipeline. If a run failed before this stop (failure handler fired,
		// or the status went Recovering/Degraded) earlier acks may legitimately be missing.
		unhealthy := false
		for i := 0; i < r; i++ {
			if evs[i].Kind == rig.KFailure {
				unhealthy = true
			}
			if evs[i].Kind == rig.KCommit && evs[i].Snap != nil {
				if st := evs[i].Snap.Status[ix.Sc.Topo.Pipeline]; st == "Recovering" || st == "Degraded" {
					unhealthy = true
				}
			}
		}
		if unhealthy {
			j.ByHow["stops_skipped_pipeline_was_not_healthy"]++
			continue
		}
		j.ByHow["stopandwait-returns-judged"]++
		if FallbackWarned(evs[:r]) {
			return nil, j, "engine logged a bounded-wait fallback warning; drained-state clauses are not decidable for this run"
		}
		add := func(class, detail string, around ...int) {
			vs = append(vs, vp.Violation{
				Property: "C06", Class: class,
				Identity: fmt.Sprintf("C06/%s/%s", class, ix.Sc.Engine),
				Detail:   detail, Case: ix.Sc,
				Witness: rig.Excerpt(evs, append(around, r), 8),
			})
		}
		// state at return
		type sessKey struct {
			comp string
			sess int
		}
		open := map[sessKey]int{} // opened sessions -> open event
		torn := map[sessKey]int{}
		opens := map[sessKey]int{}
		written := map[rig.Lin]int{}   // origin -> first write event
		confirmed := map[string]bool{} // comp/lin -> final outcome sent
		writtenAt := map[string]int{}
		ackedAt := map[string]map[int]int{} // src -> idx -> ack event
		srcTear := map[string]int{}         // src -> last teardown event
		lastAck := map[string]int{}
		var lastCommit *rig.Snap
		for i := 0; i < r; i++ {
			x := &evs[i]
			k := sessKey{x.Comp, x.Sess}
			switch x.Kind {
			case rig.KSrcOpen, rig.KDstOpen, rig.KProcOpen:
				if x.Err == "" {
					open[k] = i
					opens[k]++
				}
			case rig.KSrcTeardown, rig.KDstTeardown, rig.KProcTeardown:
				torn[k]++
				if x.Kind == rig.KSrcTeardown {
					srcTear[x.Comp] = i
				}
			case rig.KDstWrite:
				for _, l := range x.Recs {
					if l.Idx < 0 {
						continue
					}
					if _, ok := written[l.Origin()]; !ok {
						written[l.Origin()] = i
					}
					writtenAt[x.Comp+"/"+l.String()] = i
				}
			case rig.KDstAck:
				for _, a := range x.Acks {
					confirmed[x.Comp+"/"+a.Lin.String()] = true
				}
			case rig.KSrcAck:
				m := ackedAt[x.Comp]
				if m == nil {
					m = map[int]int{}
					ackedAt[x.Comp] = m
				}
				for _, idx := range x.Idx {
					if idx >= 0 {
						m[idx] = i
						if cur, ok := lastAck[x.Comp]; !ok || idx > cur {
							lastAck[x.Comp] = idx
						}
					}
				}
			case rig.KCommit:
				lastCommit = x.Snap
			}
		}
		// 1. every written record has its final outcome
		for k, at := range writtenAt {
			j.Obligations++
			if !confirmed[k] {
				add("written-without-outcome", fmt.Sprintf("%s was written (event %d) but the plugin never produced its outcome before stop-and-wait returned", k, at), at)
				break
			}
		}
		// 2. every record that reached a destination/DLQ was acked to its source before that source's teardown
		origins := make([]rig.Lin, 0, len(written))
		for o := range written {
			origins = append(origins, o)
		}
		sort.Slice(origins, func(a, b int) bool {
			if origins[a].Src != origins[b].Src {
				return origins[a].Src < origins[b].Src
			}
			return origins[a].Idx < origins[b].Idx
		})
		for _, o := range origins {
			j.Obligations++
			at, ok := ackedAt[o.Src][o.Idx]
			td, tdok := srcTear[o.Src]
			if !ok {
				add("reached-destination-but-never-acked", fmt.Sprintf("record %s reached a destination/DLQ (event %d) but its source was never acked it before stop-and-wait returned", o, written[o]), written[o])
				break
			}
			if tdok && at > td {
				add("acked-after-teardown", fmt.Sprintf("record %s acked at event %d after source teardown at %d", o, at, td), at, td)
				break
			}
		}
		// 3. stored position is exactly the last acknowledged record
		for _, s := range ix.Sc.Topo.Sources {
			j.Obligations++
			la, ok := lastAck[s.ID]
			if !ok {
				la = -1
			}
			stored := -1
			if lastCommit != nil {
				if v, ok := lastCommit.Pos[s.ID]; ok {
					stored = v
				}
			}
			// acks from an earlier run of the pipeline count too: stored must equal the highest ack
			if stored != la {
				add("stored-position-not-last-ack", fmt.Sprintf("at stop-and-wait return the stored position of %s is %d but the last acknowledged record is %d", s.ID, stored, la))
			}
		}
		// 4. plugins torn down exactly once (a processor shared by N parallel
		// workers is opened and torn down once per worker: counts must match)
		for k, at := range open {
			j.Obligations++
			if torn[k] != opens[k] {
				add("teardown-count", fmt.Sprintf("plugin session %s#%d opened at event %d has %d teardowns at stop-and-wait return", k.comp, k.sess, at, torn[k]), at)
				break
			}
		}
		// 5. no plugin call after the return (until the next start)
		for i := r + 1; i < len(evs); i++ {
			x := &evs[i]
			if x.Kind == rig.KCtl && x.Op == "Start" {
				break
			}
			switch x.Kind {
			// only events the ENGINE produces (calls into plugins); what a fake plugin logs on
			// its own initiative (an emit it is about to attempt, an ack it is about to send) is not engine activity
			case rig.KSrcAck, rig.KDstWrite, rig.KProcCall, rig.KSrcTeardown, rig.KDstTeardown, rig.KProcTeardown, rig.KSrcStop, rig.KDstStop:
				j.Obligations++
				add("plugin-activity-after-return", fmt.Sprintf("plugin event %s on %s at event %d after stop-and-wait returned at %d", x.Kind, x.Comp, i, r), i)
			}
			if len(vs) > 4 {
				break
			}
		}
		if len(vs) > 4 {
			break
		}
	}
	return vs, j, ""
}
