// Package pipe holds what the pipeline properties (C01–C13, C16) share: the
// scenario grammar, the runner that drives a rig through a scenario, the
// reference model of documented plugin semantics and the offline oracles.
package pipe

import (
	"fmt"
	"math/rand"
	"time"

	"verif/internal/rig"
)

// Step is one control action, fired when the event log reaches AtEvent events
// (relative to the flow, not to the wall clock) or, with AtEvent < 0, when the
// flow has settled.
type Step struct {
	AtEvent int    `json:"at"`
	Op      string `json:"op"` // stop | stopandwait | forcestop | stopall | start | wait | unblock:<id> | block:<id> | allow:<src>:<n>
	// AfterPrevUs delays the op relative to the previous step (schedule noise only).
	AfterPrevUs int `json:"after_us,omitempty"`
}

// Fault is one scripted store fault/gate.
type Fault struct {
	Kind      string `json:"kind"` // faultdb op kind
	KeyPrefix string `json:"key,omitempty"`
	Nth       int64  `json:"nth,omitempty"`
	Every     int64  `json:"every,omitempty"`
	Action    string `json:"action"` // "fail" | "delay"
	DelayUs   int    `json:"delay_us,omitempty"`
}

type Scenario struct {
	Name   string   `json:"name"`
	Engine string   `json:"engine"`
	Topo   rig.Topo `json:"topo"`
	// Records per source (same order as Topo.Sources).
	Records []int `json:"records"`
	// CondMod/CondRem describe processor conditions for the model:
	// proc id -> (mod, rem): matches iff idx%mod==rem.
	Cond map[string][2]int `json:"cond,omitempty"`

	PersistDelayUs int `json:"persist_delay_us"`
	PersistBundle  int `json:"persist_bundle"`

	RecMinDelayUs int   `json:"rec_min_delay_us"`
	RecMaxDelayUs int   `json:"rec_max_delay_us"`
	RecMaxRetries int64 `json:"rec_max_retries"`
	RecWindowUs   int   `json:"rec_window_us"`

	Steps  []Step  `json:"steps,omitempty"`
	Faults []Fault `json:"faults,omitempty"`
	// Healthy: nothing in the scripts rejects, fails or blocks (C06 premise).
	Healthy bool `json:"healthy"`
	// FinalStop: how the runner ends a still-running pipeline: "stopandwait" (default) | "none"
	FinalStop string `json:"final_stop,omitempty"`
	// KeepSnaps keeps raw store snapshots (C03).
	KeepSnaps bool `json:"keep_snaps,omitempty"`
	// Points: scheduling points of the repository (-tags verif) -> upper bound
	// of the pseudo-random sleep injected at each hit, in microseconds ("*" =
	// every point not listed). PointSeed determines the amounts.
	// Store: "" = the in-memory store (its transactions conflict when they overlap),
	// "badger" = a real badger directory (blind writes to one key do not conflict:
	// the transaction that commits last wins).
	Store     string         `json:"store,omitempty"`
	Points    map[string]int `json:"points,omitempty"`
	PointSeed int64          `json:"point_seed,omitempty"`
}

func CondTemplate(mod, rem int) string {
	return fmt.Sprintf(`{{ eq (index .Metadata "vf.m%d") "%d" }}`, mod, rem)
}

// Gen is the scenario generator; all choices come from R.
type Gen struct {
	R *rand.Rand
}

func NewGen(seed int64, idx int) *Gen {
	return &Gen{R: rand.New(rand.NewSource(seed*1_000_003 + int64(idx)*7919 + 17))}
}

func (g *Gen) pick(xs ...int) int { return xs[g.R.Intn(len(xs))] }

// GenOpts bounds the grammar for a property.
type GenOpts struct {
	Engine       string // "" = random
	MaxSources   int
	MaxDests     int
	MaxProcs     int // per attachment point
	MaxRecords   int
	MinRecords   int
	AllowMulti   bool // v2 only
	AllowCut     bool // v2 only
	AllowFilter  bool
	AllowProcErr bool
	AllowDstNack bool
	AllowWorkers bool // v1 parallel workers
	AllowCond    bool
	DLQWindows   []int
	Healthy      bool
}

func (g *Gen) batches() []int {
	n := 1 + g.R.Intn(4)
	out := make([]int, n)
	for i := range out {
		out[i] = g.pick(1, 1, 2, 3, 5, 8, 16)
	}
	return out
}

func (g *Gen) latencies() []int {
	switch g.R.Intn(4) {
	case 0:
		return nil
	case 1:
		return []int{0, 50, 300}
	case 2:
		return []int{0, 0, 0, 1500}
	default:
		return []int{20, 200, 800, 0}
	}
}

func (g *Gen) procSpec(id string, o GenOpts, engine string, sc *Scenario) rig.ProcSpec {
	p := rig.ProcSpec{ID: id}
	p.Script.Seed = g.R.Uint64()
	p.Script.ModifyPm = g.pick(0, 300, 1000)
	if o.AllowFilter && g.R.Intn(2) == 0 {
		p.Script.FilterPm = g.pick(50, 150, 400)
	}
	if o.AllowProcErr && g.R.Intn(3) == 0 {
		p.Script.ErrorPm = g.pick(20, 60, 150)
	}
	if o.AllowMulti && engine == "v2" && g.R.Intn(3) == 0 {
		p.Script.MultiPm = g.pick(50, 200, 500)
		p.Script.MultiN = g.pick(2, 2, 3)
	}
	if o.AllowCut && engine == "v2" && g.R.Intn(3) == 0 {
		p.Script.CutPm = g.pick(50, 200)
	}
	if g.R.Intn(3) == 0 {
		p.Script.LatencyUs = g.latencies()
	}
	if o.AllowWorkers && engine == "v1" && g.R.Intn(3) == 0 {
		p.Workers = g.pick(2, 3, 4)
	}
	if o.AllowCond && g.R.Intn(3) == 0 {
		mod := g.pick(2, 3)
		rem := g.R.Intn(mod)
		p.Condition = CondTemplate(mod, rem)
		if sc.Cond == nil {
			sc.Cond = map[string][2]int{}
		}
		sc.Cond[id] = [2]int{mod, rem}
	}
	return p
}

// Scenario draws one scenario.
func (g *Gen) Scenario(o GenOpts) *Scenario {
	sc := &Scenario{}
	sc.Engine = o.Engine
	if sc.Engine == "" {
		sc.Engine = []string{"v1", "v2"}[g.R.Intn(2)]
	}
	sc.Healthy = o.Healthy
	sc.Topo.Pipeline = "pl"
	ns := 1 + g.R.Intn(max(1, o.MaxSources))
	nd := 1 + g.R.Intn(max(1, o.MaxDests))
	minR := o.MinRecords
	if minR <= 0 {
		minR = 5
	}
	maxR := o.MaxRecords
	if maxR < minR {
		maxR = minR
	}
	nprocs := func() int {
		if o.MaxProcs <= 0 {
			return 0
		}
		return g.R.Intn(o.MaxProcs + 1)
	}
	pid := 0
	for i := 0; i < ns; i++ {
		c := rig.ConnSpec{ID: fmt.Sprintf("s%d", i)}
		c.Src.Batches = g.batches()
		c.Src.PaceUs = g.pick(0, 0, 50, 400)
		for k := nprocs(); k > 0; k-- {
			pid++
			c.Procs = append(c.Procs, g.procSpec(fmt.Sprintf("p%d", pid), o, sc.Engine, sc))
		}
		sc.Topo.Sources = append(sc.Topo.Sources, c)
		sc.Records = append(sc.Records, minR+g.R.Intn(maxR-minR+1))
	}
	for k := nprocs(); k > 0; k-- {
		pid++
		sc.Topo.PipeProcs = append(sc.Topo.PipeProcs, g.procSpec(fmt.Sprintf("p%d", pid), o, sc.Engine, sc))
	}
	for i := 0; i < nd; i++ {
		c := rig.ConnSpec{ID: fmt.Sprintf("d%d", i)}
		c.Dst.Seed = g.R.Uint64()
		c.Dst.LatencyUs = g.latencies()
		c.Dst.PerRecordAcks = g.R.Intn(3) == 0
		if o.AllowDstNack && g.R.Intn(3) == 0 {
			c.Dst.NackPermille = g.pick(20, 60, 200)
		}
		for k := nprocs(); k > 0; k-- {
			pid++
			c.Procs = append(c.Procs, g.procSpec(fmt.Sprintf("p%d", pid), o, sc.Engine, sc))
		}
		sc.Topo.Dests = append(sc.Topo.Dests, c)
	}
	ws := o.DLQWindows
	if len(ws) == 0 {
		ws = []int{0}
	}
	sc.Topo.DLQWindow = ws[g.R.Intn(len(ws))]
	if sc.Topo.DLQWindow > 0 {
		sc.Topo.DLQThresh = g.R.Intn(sc.Topo.DLQWindow)
	}
	sc.Topo.DLQ.Seed = g.R.Uint64()
	sc.Topo.DLQ.LatencyUs = g.latencies()
	sc.PersistDelayUs = g.pick(200, 1000, 2000, 5000, 20000)
	sc.PersistBundle = g.pick(1, 2, 5, 10, 50)
	sc.RecMinDelayUs = 3000
	sc.RecMaxDelayUs = 12000
	sc.RecMaxRetries = 3
	sc.RecWindowUs = 300000
	return sc
}

func (sc *Scenario) persistDelay() time.Duration {
	return time.Duration(sc.PersistDelayUs) * time.Microsecond
}

func (sc *Scenario) TotalRecords() int {
	n := 0
	for _, r := range sc.Records {
		n += r
	}
	return n
}

// Shape is a coarse signature of the topology.
func (sc *Scenario) Shape() string {
	np := len(sc.Topo.PipeProcs)
	for _, s := range sc.Topo.Sources {
		np += len(s.Procs)
	}
	for _, d := range sc.Topo.Dests {
		np += len(d.Procs)
	}
	return fmt.Sprintf("%s/%dx%d/p%d/w%d-%d", sc.Engine, len(sc.Topo.Sources), len(sc.Topo.Dests), np, sc.Topo.DLQWindow, sc.Topo.DLQThresh)
}

// FanoutUnabsorbed rewrites sc into the family "fan-out where ONE branch rejects
// a record mid-batch (its attached processor errors) under a DLQ that cannot
// absorb it (no tolerance, or a failing DLQ write), while the same branch still
// has the records behind the rejected one in flight at a slow destination and
// the sibling branch votes the whole batch at once". After the failed
// dead-lettering nothing behind the rejected record may be acknowledged or
// stored.
func (g *Gen) FanoutUnabsorbed(sc *Scenario) {
	sc.Topo.Sources = sc.Topo.Sources[:1]
	sc.Records = sc.Records[:1]
	sc.Topo.Sources[0].Src.Batches = []int{g.pick(6, 8, 12)}
	sc.Topo.Sources[0].Procs = nil
	sc.Topo.PipeProcs = nil
	sc.Cond = nil
	for len(sc.Topo.Dests) < 2 {
		c := rig.ConnSpec{ID: fmt.Sprintf("d%d", len(sc.Topo.Dests))}
		c.Dst.Seed = g.R.Uint64()
		sc.Topo.Dests = append(sc.Topo.Dests, c)
	}
	sc.Topo.Dests = sc.Topo.Dests[:2]
	at := 1 + g.R.Intn(4)
	a := g.R.Intn(2) // the branch with the erroring processor
	b := 1 - a
	pe := rig.ProcSpec{ID: "pe"}
	pe.Script.Kind = map[string]string{rig.Lin{Src: "s0", Idx: at}.String(): rig.PKError}
	sc.Topo.Dests[a].Procs = []rig.ProcSpec{pe}
	sc.Topo.Dests[a].Dst = rig.DstScript{Seed: g.R.Uint64(), LatencyAt: map[int]int{at + 1: g.pick(4000, 9000)}}
	sc.Topo.Dests[b].Procs = nil
	sc.Topo.Dests[b].Dst = rig.DstScript{Seed: g.R.Uint64(), LatencyUs: []int{g.pick(800, 1500, 3000)}}
	if g.R.Intn(2) == 0 {
		sc.Topo.DLQWindow, sc.Topo.DLQThresh = 1, 0
	} else {
		// DLQ tolerates everything but its write fails
		sc.Topo.DLQWindow, sc.Topo.DLQThresh = 0, 0
		sc.Topo.DLQ.NackPermille = 0
		sc.Topo.DLQ.NackIdx = map[int]bool{at: true}
	}
	sc.RecMaxRetries = 1
	sc.Healthy = false
}

// PartialDLQFailure rewrites sc into the family "several consecutive rejections
// travel in ONE source batch (on arch-v2: one DLQ write) and the DLQ rejects one
// of them that is not the last", i.e. the DLQ replies like NACK,ack,ack or
// ack,NACK,ack. Only the dead-lettered prefix may be acknowledged or stored.
func (g *Gen) PartialDLQFailure(sc *Scenario) {
	s0 := &sc.Topo.Sources[0]
	s0.Src.Batches = []int{g.pick(8, 6, 12)}
	sc.Topo.Dests = sc.Topo.Dests[:1]
	d := &sc.Topo.Dests[0]
	d.Dst.NackPermille = 0
	d.Dst.NackIdx = map[int]bool{}
	at := 1 + g.R.Intn(4)
	n := 3 + g.R.Intn(3)
	for k := 0; k < n; k++ {
		d.Dst.NackIdx[at+k] = true
	}
	if g.R.Intn(2) == 0 {
		sc.Topo.DLQWindow, sc.Topo.DLQThresh = 0, 0 // no limit
	} else {
		sc.Topo.DLQWindow, sc.Topo.DLQThresh = 8, 6
	}
	sc.Topo.DLQ.NackPermille = 0
	sc.Topo.DLQ.NackIdx = map[int]bool{at + g.R.Intn(n-1): true}
	sc.Healthy = false
}
