package pipe

import (
	"sort"

	"verif/internal/rig"
)

// Reference model of DOCUMENTED plugin semantics, independent of engine
// internals: from the topology and the scripts it computes, for every source
// record, what its terminal outcome must be. Because every scripted result
// depends only on (component, record lineage), the expectation is independent
// of batching, sub-batching and scheduling.

const (
	ClDelivered = "delivered" // every expected piece is written to (and confirmed by) its destination
	ClFiltered  = "filtered"  // filtered as a whole before the fan-out: nothing is written anywhere
	ClRejected  = "rejected"  // some component rejects it (or a piece of it): DLQ once, or the pipeline stops
)

type Expect struct {
	Class string
	// Writes: destination id -> pieces (in order) that must be written and
	// confirmed there (class delivered). Empty list = filtered on that branch.
	Writes map[string][]rig.Lin
	// Possible: destination id -> set of pieces that MAY be written there
	// (superset of Writes; for rejected records the pieces that reach the
	// destination if the engine gets that far).
	Possible map[string]map[string]bool
	// RejectedBy: components that reject the record or a piece of it.
	RejectedBy []string
	// FatalV1: the default engine cannot handle this result (split) and must
	// stop the pipeline fatally.
	FatalV1 bool
}

type Model struct {
	sc *Scenario
}

func NewModel(sc *Scenario) *Model { return &Model{sc: sc} }

func (m *Model) matches(p rig.ProcSpec, l rig.Lin) bool {
	if p.Condition == "" {
		return true
	}
	c, ok := m.sc.Cond[p.ID]
	if !ok {
		return true
	}
	return l.Idx%c[0] == c[1]
}

// chain applies a processor chain to a set of pieces. It returns the pieces
// that survive, and the components that rejected something.
func (m *Model) chain(procs []rig.ProcSpec, pieces []rig.Lin, rejected *[]string, fatalV1 *bool) []rig.Lin {
	for _, p := range procs {
		var next []rig.Lin
		for _, l := range pieces {
			if !m.matches(p, l) {
				next = append(next, l)
				continue
			}
			switch p.Script.KindOf(p.ID, l) {
			case rig.PKFilter:
			case rig.PKError:
				*rejected = append(*rejected, p.ID)
				// the piece does not continue
			case rig.PKMulti:
				n := p.Script.MultiN
				if n < 2 {
					n = 2
				}
				*fatalV1 = true
				for i := 0; i < n; i++ {
					next = append(next, rig.Lin{Src: l.Src, Idx: l.Idx, Path: rig.ChildPath(l.Path, i)})
				}
			default:
				next = append(next, l)
			}
		}
		pieces = next
	}
	return pieces
}

func (m *Model) srcSpec(src string) *rig.ConnSpec {
	for i := range m.sc.Topo.Sources {
		if m.sc.Topo.Sources[i].ID == src {
			return &m.sc.Topo.Sources[i]
		}
	}
	return nil
}

// Expect computes the expectation for record idx of source src.
func (m *Model) Expect(src string, idx int) Expect {
	e := Expect{Writes: map[string][]rig.Lin{}, Possible: map[string]map[string]bool{}}
	s := m.srcSpec(src)
	if s == nil {
		return e
	}
	var rejected []string
	pieces := []rig.Lin{{Src: src, Idx: idx}}
	pieces = m.chain(s.Procs, pieces, &rejected, &e.FatalV1)
	pieces = m.chain(m.sc.Topo.PipeProcs, pieces, &rejected, &e.FatalV1)
	upstreamRejected := len(rejected) > 0
	anyWrite := false
	for _, d := range m.sc.Topo.Dests {
		dp := m.chain(d.Procs, append([]rig.Lin(nil), pieces...), &rejected, &e.FatalV1)
		poss := map[string]bool{}
		for _, l := range dp {
			poss[l.Path] = true
			if d.Dst.Rejects(d.ID, l) {
				rejected = append(rejected, d.ID)
			}
		}
		e.Possible[d.ID] = poss
		e.Writes[d.ID] = dp
		if len(dp) > 0 {
			anyWrite = true
		}
	}
	_ = upstreamRejected
	sort.Strings(rejected)
	e.RejectedBy = rejected
	switch {
	case len(rejected) > 0:
		e.Class = ClRejected
	case len(pieces) == 0:
		e.Class = ClFiltered
	case !anyWrite:
		// filtered on every branch by destination-attached processors
		e.Class = ClFiltered
	default:
		e.Class = ClDelivered
	}
	return e
}
