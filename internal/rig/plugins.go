package rig

import (
	"context"
	"errors"
	"fmt"
	"hash/fnv"
	"sort"
	"strings"
	"sync"
	"sync/atomic"
	"time"

	"github.com/conduitio/conduit-commons/opencdc"
	"github.com/conduitio/conduit-connector-protocol/pconnector"
	"github.com/conduitio/conduit/pkg/foundation/log"
	"github.com/conduitio/conduit/pkg/plugin"
	connectorPlugin "github.com/conduitio/conduit/pkg/plugin/connector"
	"github.com/conduitio/conduit/pkg/plugin/connector/builtin"
)

// Metadata keys carrying the lineage stamp.
const (
	MetaOrigin = "vf.origin" // "<src>|<idx>"
	MetaPath   = "vf.path"   // piece path of a split
)

const (
	SrcPluginName = "builtin:vf-source"
	DstPluginName = "builtin:vf-destination"
	DLQPluginName = "builtin:vf-dlq"
)

func H(parts ...any) uint64 {
	h := fnv.New64a()
	for _, p := range parts {
		fmt.Fprint(h, p)
		h.Write([]byte{0})
	}
	// final avalanche
	x := h.Sum64()
	x ^= x >> 33
	x *= 0xff51afd7ed558ccd
	x ^= x >> 33
	return x
}

// LinOf extracts the lineage stamp from a record.
func LinOf(r opencdc.Record) (Lin, bool) {
	o, ok := r.Metadata[MetaOrigin]
	if !ok {
		return Lin{}, false
	}
	src, idx, ok := ParsePos([]byte(o))
	if !ok {
		return Lin{}, false
	}
	return Lin{Src: src, Idx: idx, Path: r.Metadata[MetaPath]}, true
}

// ---------------------------------------------------------------------------

// SrcScript scripts one source connector (across all its sessions).
type SrcScript struct {
	// Batches is the cyclic list of batch sizes the source emits.
	Batches []int
	// PaceUs is slept between batches.
	PaceUs int
	// FailAt: when the emitter is about to emit record index k (and this
	// entry was not consumed yet) Run returns the error instead: a transient
	// source failure. Each entry fires once.
	FailAt map[int]string
	// CallErr: "<Call>#<session>" or "<Call>#*" -> error text for unary calls
	// (Configure, Open, Stop, Teardown, LifecycleOnCreated...). The text
	// "PANIC" makes the call panic (sandboxed by the built-in adapter).
	CallErr map[string]string
	// Hostile record shapes: emit index -> "emptypos" | "duppos" | "nilmeta".
	Shape map[int]string
}

// SrcState is the scripted upstream of one source connector.
type SrcState struct {
	ID     string
	Script SrcScript
	p      *Plugins

	mu       sync.Mutex
	cond     *sync.Cond
	limit    int // records [0,limit) may be emitted
	sessions int
	failed   map[int]bool
	// pruned: highest index the upstream was told to discard (acked).
	pruned int
}

// Allow raises the number of records the upstream has available.
func (s *SrcState) Allow(n int) {
	s.mu.Lock()
	if n > s.limit {
		s.limit = n
	}
	s.cond.Broadcast()
	s.mu.Unlock()
}

func (s *SrcState) Limit() int {
	s.mu.Lock()
	defer s.mu.Unlock()
	return s.limit
}

type srcSession struct {
	st       *SrcState
	sess     int
	next     int // next index to emit
	lastSent int // -1 none

	mu          sync.Mutex
	stopped     bool
	emitterDone chan struct{}
	stopCh      chan struct{}
	opened      bool
	ackDone     chan struct{}
}

func (p *Plugins) newSrcSession(st *SrcState) *srcSession {
	st.mu.Lock()
	st.sessions++
	n := st.sessions
	st.mu.Unlock()
	return &srcSession{st: st, sess: n, lastSent: -1, stopCh: make(chan struct{}), emitterDone: make(chan struct{})}
}

func (s *srcSession) callErr(call string) error {
	sc := s.st.Script.CallErr
	if sc == nil {
		return nil
	}
	msg, ok := sc[fmt.Sprintf("%s#%d", call, s.sess)]
	if !ok {
		msg, ok = sc[call+"#*"]
	}
	if !ok {
		return nil
	}
	if msg == "PANIC" {
		panic("vf: scripted plugin panic in " + call)
	}
	return errors.New(msg)
}

func (s *srcSession) logCall(call string, err error) {
	e := Ev{Kind: KPluginCall, Comp: s.st.ID, Role: "src", Sess: s.sess, Op: call}
	if err != nil {
		e.Err = err.Error()
	}
	s.st.p.Log.Append(e)
}

func (s *srcSession) Configure(ctx context.Context, _ pconnector.SourceConfigureRequest) (pconnector.SourceConfigureResponse, error) {
	s.st.p.enter()
	defer s.st.p.leave()
	err := s.callErr("Configure")
	s.logCall("Configure", err)
	return pconnector.SourceConfigureResponse{}, err
}

func (s *srcSession) Open(ctx context.Context, req pconnector.SourceOpenRequest) (pconnector.SourceOpenResponse, error) {
	s.st.p.enter()
	defer s.st.p.leave()
	if err := s.callErr("Open"); err != nil {
		s.st.p.Log.Append(Ev{Kind: KSrcOpen, Comp: s.st.ID, Role: "src", Sess: s.sess, Err: err.Error()})
		return pconnector.SourceOpenResponse{}, err
	}
	e := Ev{Kind: KSrcOpen, Comp: s.st.ID, Role: "src", Sess: s.sess}
	if len(req.Position) == 0 {
		s.next = 0
		e.Idx = []int{-1}
	} else if src, idx, ok := ParsePos(req.Position); ok && src == s.st.ID {
		s.next = idx + 1
		e.Idx = []int{idx}
	} else {
		e.Raw = []string{string(req.Position)}
		e.Note = "foreign position"
		s.next = 0
	}
	// like the SDK: the last position is the last record read in THIS session
	s.lastSent = -1
	s.mu.Lock()
	s.opened = true
	s.mu.Unlock()
	s.st.p.Log.Append(e)
	return pconnector.SourceOpenResponse{}, nil
}

func (s *srcSession) makeRecord(idx int) opencdc.Record {
	pos := Pos(s.st.ID, idx)
	r := opencdc.Record{
		Position:  pos,
		Operation: opencdc.OperationCreate,
		Metadata:  opencdc.Metadata{MetaOrigin: string(pos)},
		Key:       opencdc.RawData(fmt.Sprintf("k%d", idx)),
		Payload:   opencdc.Change{After: opencdc.RawData(fmt.Sprintf("payload-%s-%d", s.st.ID, idx))},
	}
	// classification keys used by processor conditions
	r.Metadata["vf.m3"] = fmt.Sprint(idx % 3)
	r.Metadata["vf.m2"] = fmt.Sprint(idx % 2)
	switch s.st.Script.Shape[idx] {
	case "emptypos":
		r.Position = nil
	case "duppos":
		if idx > 0 {
			r.Position = Pos(s.st.ID, idx-1)
		}
	}
	return r
}

func (s *srcSession) Run(ctx context.Context, stream pconnector.SourceRunStream) error {
	srv := stream.Server()
	st := s.st
	lg := st.p.Log
	// ack receiver
	ackDone := make(chan struct{})
	s.mu.Lock()
	s.ackDone = ackDone
	s.mu.Unlock()
	go func() {
		defer close(ackDone)
		for {
			req, err := srv.Recv()
			if err != nil {
				return
			}
			e := Ev{Kind: KSrcAck, Comp: st.ID, Role: "src", Sess: s.sess}
			for _, p := range req.AckPositions {
				if src, idx, ok := ParsePos(p); ok && src == st.ID {
					e.Idx = append(e.Idx, idx)
					st.mu.Lock()
					if idx > st.pruned {
						st.pruned = idx
					}
					st.mu.Unlock()
				} else {
					e.Idx = append(e.Idx, -2)
					e.Raw = append(e.Raw, string(p))
				}
			}
			lg.Append(e)
		}
	}()

	var runErr error
	func() {
		defer close(s.emitterDone)
		bi := 0
		for {
			// wait for records to be available
			st.mu.Lock()
			for s.next >= st.limit {
				s.mu.Lock()
				stopped := s.stopped
				s.mu.Unlock()
				if stopped || ctx.Err() != nil {
					st.mu.Unlock()
					return
				}
				// wake up periodically to observe ctx / stop
				t := time.AfterFunc(2*time.Millisecond, func() { st.mu.Lock(); st.cond.Broadcast(); st.mu.Unlock() })
				st.cond.Wait()
				t.Stop()
			}
			limit := st.limit
			st.mu.Unlock()
			s.mu.Lock()
			stopped := s.stopped
			s.mu.Unlock()
			if stopped || ctx.Err() != nil {
				return
			}
			n := 1
			if len(st.Script.Batches) > 0 {
				n = st.Script.Batches[bi%len(st.Script.Batches)]
				bi++
			}
			if n < 1 {
				n = 1
			}
			if s.next+n > limit {
				n = limit - s.next
			}
			// scripted transient failure: each FailAt entry fires once, when
			// its record would be the first of the next batch
			failNow := ""
			st.mu.Lock()
			for k := s.next; k < s.next+n; k++ {
				if msg, ok := st.Script.FailAt[k]; ok && !st.failed[k] {
					if k == s.next {
						st.failed[k] = true
						failNow = msg
					} else {
						n = k - s.next
					}
					break
				}
			}
			st.mu.Unlock()
			if failNow != "" {
				runErr = errors.New(failNow)
				lg.Append(Ev{Kind: KNote, Comp: st.ID, Role: "src", Sess: s.sess, Note: "source run fails", Err: failNow, Idx: []int{s.next}})
				return
			}
			recs := make([]opencdc.Record, n)
			idxs := make([]int, n)
			for i := 0; i < n; i++ {
				recs[i] = s.makeRecord(s.next + i)
				idxs[i] = s.next + i
			}
			// logged before it is released to the engine
			lg.Append(Ev{Kind: KSrcEmit, Comp: st.ID, Role: "src", Sess: s.sess, Idx: idxs})
			if err := srv.Send(pconnector.SourceRunResponse{Records: recs}); err != nil {
				lg.Append(Ev{Kind: KNote, Comp: st.ID, Role: "src", Sess: s.sess, Note: "emit not delivered", Idx: idxs, Err: err.Error()})
				return
			}
			s.mu.Lock()
			s.next += n
			s.lastSent = s.next - 1
			s.mu.Unlock()
			if st.Script.PaceUs > 0 {
				time.Sleep(time.Duration(st.Script.PaceUs) * time.Microsecond)
			}
		}
	}()
	if runErr != nil {
		return runErr
	}
	// keep the stream open (acks keep flowing) until the host cancels it
	select {
	case <-ctx.Done():
	case <-ackDone:
	}
	return nil
}

func (s *srcSession) Stop(ctx context.Context, _ pconnector.SourceStopRequest) (pconnector.SourceStopResponse, error) {
	s.st.p.enter()
	defer s.st.p.leave()
	if err := s.callErr("Stop"); err != nil {
		s.st.p.Log.Append(Ev{Kind: KSrcStop, Comp: s.st.ID, Role: "src", Sess: s.sess, Err: err.Error()})
		return pconnector.SourceStopResponse{}, err
	}
	s.mu.Lock()
	s.stopped = true
	s.mu.Unlock()
	s.st.mu.Lock()
	s.st.cond.Broadcast()
	s.st.mu.Unlock()
	// like the SDK: wait for the read loop to quiesce so the returned position
	// really is the last record handed to the host
	select {
	case <-s.emitterDone:
	case <-ctx.Done():
	case <-time.After(5 * time.Second):
	}
	s.mu.Lock()
	last := s.lastSent
	s.mu.Unlock()
	var pos opencdc.Position
	if last >= 0 {
		pos = Pos(s.st.ID, last)
	}
	s.st.p.Log.Append(Ev{Kind: KSrcStop, Comp: s.st.ID, Role: "src", Sess: s.sess, Idx: []int{last}})
	return pconnector.SourceStopResponse{LastPosition: pos}, nil
}

func (s *srcSession) Teardown(ctx context.Context, _ pconnector.SourceTeardownRequest) (pconnector.SourceTeardownResponse, error) {
	s.st.p.enter()
	defer s.st.p.leave()
	err := s.callErr("Teardown")
	// The host cancels the stream before it calls Teardown, so the ack receiver
	// is about to exit; wait for it so that every ack the plugin RECEIVED before
	// the teardown is also LOGGED before it (recording discipline, DESIGN 2.2).
	s.mu.Lock()
	ad := s.ackDone
	s.mu.Unlock()
	if ad != nil {
		select {
		case <-ad:
		case <-time.After(2 * time.Second):
		}
	}
	e := Ev{Kind: KSrcTeardown, Comp: s.st.ID, Role: "src", Sess: s.sess}
	s.mu.Lock()
	wasOpened := s.opened
	s.stopped = true
	s.mu.Unlock()
	if !wasOpened {
		e.Note = "never-opened"
	}
	if err != nil {
		e.Err = err.Error()
	}
	s.st.p.Log.Append(e)
	return pconnector.SourceTeardownResponse{}, err
}

func (s *srcSession) LifecycleOnCreated(ctx context.Context, _ pconnector.SourceLifecycleOnCreatedRequest) (pconnector.SourceLifecycleOnCreatedResponse, error) {
	err := s.callErr("LifecycleOnCreated")
	s.logCall("LifecycleOnCreated", err)
	return pconnector.SourceLifecycleOnCreatedResponse{}, err
}

func (s *srcSession) LifecycleOnUpdated(ctx context.Context, _ pconnector.SourceLifecycleOnUpdatedRequest) (pconnector.SourceLifecycleOnUpdatedResponse, error) {
	err := s.callErr("LifecycleOnUpdated")
	s.logCall("LifecycleOnUpdated", err)
	return pconnector.SourceLifecycleOnUpdatedResponse{}, err
}

func (s *srcSession) LifecycleOnDeleted(ctx context.Context, _ pconnector.SourceLifecycleOnDeletedRequest) (pconnector.SourceLifecycleOnDeletedResponse, error) {
	err := s.callErr("LifecycleOnDeleted")
	s.logCall("LifecycleOnDeleted", err)
	return pconnector.SourceLifecycleOnDeletedResponse{}, err
}

// ---------------------------------------------------------------------------

// DstScript scripts one destination (or DLQ) connector.
type DstScript struct {
	Seed uint64
	// NackPermille: a record is rejected when H(seed,dst,lineage)%1000 < NackPermille.
	NackPermille int
	// NackIdx: explicit origin indices (any source) whose records are rejected.
	NackIdx map[int]bool
	// LatencyUs: latency classes; the class of a response is chosen by hash.
	LatencyUs []int
	// LatencyAt: index of the first record of a write -> latency of that write (overrides LatencyUs).
	LatencyAt map[int]int `json:",omitempty"`
	// PerRecordAcks: one response per record instead of one per request.
	PerRecordAcks bool
	// CoalesceAcks: requests that are already waiting when a response is due are
	// answered together, in ONE response carrying the acks of all of them in write
	// order (what a batching destination does). Nothing is withheld.
	CoalesceAcks bool `json:",omitempty"`
	// Shape: write ordinal of the session (1-based, counted in records)
	// -> hostile reply: "wrongpos" | "extra" | "drop" | "swap" | "streamerr" | "emptyacks"
	Shape map[int]string
	// ShapeSess restricts Shape to one session number (0 = every session).
	ShapeSess int
	CallErr   map[string]string
	// OpenLatencyUs: time the plugin's Open takes (0 = none).
	OpenLatencyUs int `json:",omitempty"`
}

type DstState struct {
	ID     string
	Role   string // dst | dlq
	Script DstScript
	p      *Plugins

	mu       sync.Mutex
	sessions int
	// gate: when non-nil, acks are withheld until it is closed (unresponsive plugin).
	gate chan struct{}
}

// Block makes the destination withhold every ack until Unblock.
func (d *DstState) Block() {
	d.mu.Lock()
	if d.gate == nil {
		d.gate = make(chan struct{})
	}
	d.mu.Unlock()
}

func (d *DstState) Unblock() {
	d.mu.Lock()
	if d.gate != nil {
		close(d.gate)
		d.gate = nil
	}
	d.mu.Unlock()
}

func (d *DstState) curGate() chan struct{} {
	d.mu.Lock()
	defer d.mu.Unlock()
	return d.gate
}

// Rejects is the scripted outcome of a record at this destination; the
// reference model calls the same function.
func (sc *DstScript) Rejects(dstID string, l Lin) bool {
	if sc.NackIdx != nil && sc.NackIdx[l.Idx] {
		return true
	}
	if sc.NackPermille <= 0 {
		return false
	}
	return int(H(sc.Seed, dstID, l.Src, l.Idx, l.Path)%1000) < sc.NackPermille
}

type dstSession struct {
	st     *DstState
	sess   int
	opened atomic.Bool
}

func (s *dstSession) callErr(call string) error {
	sc := s.st.Script.CallErr
	if sc == nil {
		return nil
	}
	msg, ok := sc[fmt.Sprintf("%s#%d", call, s.sess)]
	if !ok {
		msg, ok = sc[call+"#*"]
	}
	if !ok {
		return nil
	}
	if msg == "PANIC" {
		panic("vf: scripted plugin panic in " + call)
	}
	return errors.New(msg)
}

func (s *dstSession) logCall(call string, err error) {
	e := Ev{Kind: KPluginCall, Comp: s.st.ID, Role: s.st.Role, Sess: s.sess, Op: call}
	if err != nil {
		e.Err = err.Error()
	}
	s.st.p.Log.Append(e)
}

func (s *dstSession) Configure(ctx context.Context, _ pconnector.DestinationConfigureRequest) (pconnector.DestinationConfigureResponse, error) {
	s.st.p.enter()
	defer s.st.p.leave()
	err := s.callErr("Configure")
	s.logCall("Configure", err)
	return pconnector.DestinationConfigureResponse{}, err
}

func (s *dstSession) Open(ctx context.Context, _ pconnector.DestinationOpenRequest) (pconnector.DestinationOpenResponse, error) {
	s.st.p.enter()
	defer s.st.p.leave()
	if us := s.st.Script.OpenLatencyUs; us > 0 {
		// a plugin that is slow to come up (it does not watch the context)
		time.Sleep(time.Duration(us) * time.Microsecond)
	}
	err := s.callErr("Open")
	e := Ev{Kind: KDstOpen, Comp: s.st.ID, Role: s.st.Role, Sess: s.sess}
	if err != nil {
		e.Err = err.Error()
	} else {
		s.opened.Store(true)
	}
	s.st.p.Log.Append(e)
	return pconnector.DestinationOpenResponse{}, err
}

// stampsOf lists the processor generation stamps a record carries.
func stampsOf(r opencdc.Record) string {
	var ks []string
	for k, v := range r.Metadata {
		if strings.HasPrefix(k, "vf.g.") {
			ks = append(ks, strings.TrimPrefix(k, "vf.g.")+"="+v)
		}
	}
	sort.Strings(ks)
	return strings.Join(ks, ",")
}

// dlqLineage recovers the lineage of the ORIGINAL record carried by a DLQ
// record (both engines store the failed record as structured data in
// Payload.After; its metadata holds our stamp).
func dlqLineage(r opencdc.Record) (Lin, string, string, bool) {
	nackErr, _ := r.Metadata.GetConduitDLQNackError()
	nackNode, _ := r.Metadata.GetConduitDLQNackNodeID()
	sd, ok := r.Payload.After.(opencdc.StructuredData)
	if !ok {
		return Lin{}, nackErr, nackNode, false
	}
	md, ok := sd["metadata"]
	if !ok {
		return Lin{}, nackErr, nackNode, false
	}
	get := func(k string) (string, bool) {
		switch m := md.(type) {
		case map[string]string:
			v, ok := m[k]
			return v, ok
		case opencdc.Metadata:
			v, ok := m[k]
			return v, ok
		case opencdc.StructuredData:
			v, ok := m[k]
			if !ok {
				return "", false
			}
			return fmt.Sprint(v), true
		case map[string]any:
			v, ok := m[k]
			if !ok {
				return "", false
			}
			return fmt.Sprint(v), true
		}
		return "", false
	}
	o, ok := get(MetaOrigin)
	if !ok {
		return Lin{}, nackErr, nackNode, false
	}
	src, idx, ok := ParsePos([]byte(o))
	if !ok {
		return Lin{}, nackErr, nackNode, false
	}
	path, _ := get(MetaPath)
	return Lin{Src: src, Idx: idx, Path: path}, nackErr, nackNode, true
}

func (s *dstSession) Run(ctx context.Context, stream pconnector.DestinationRunStream) error {
	srv := stream.Server()
	st := s.st
	lg := st.p.Log
	type item struct {
		rec opencdc.Record
		lin Lin
		ord int
	}
	queue := make(chan []item, 1024)
	errCh := make(chan error, 1)
	go func() {
		defer close(queue)
		ord := 0
		for {
			req, err := srv.Recv()
			if err != nil {
				return
			}
			items := make([]item, len(req.Records))
			e := Ev{Kind: KDstWrite, Comp: st.ID, Role: st.Role, Sess: s.sess}
			for i, r := range req.Records {
				ord++
				var l Lin
				var ok bool
				if st.Role == "dlq" {
					var ne, nn string
					l, ne, nn, ok = dlqLineage(r)
					e.Out = append(e.Out, nn+": "+ne)
				} else {
					l, ok = LinOf(r)
				}
				if !ok {
					l = Lin{Src: "?", Idx: -1}
					e.Raw = append(e.Raw, string(r.Position))
				}
				// the position the record carries when it reaches the plugin
				if _, pidx, pok := ParsePos(r.Position); pok {
					e.Idx = append(e.Idx, pidx)
				} else {
					e.Idx = append(e.Idx, -2)
				}
				items[i] = item{rec: r, lin: l, ord: ord}
				e.Recs = append(e.Recs, l)
				if st.Role != "dlq" {
					e.Stamps = append(e.Stamps, stampsOf(r))
				}
			}
			lg.Append(e)
			select {
			case queue <- items:
			case <-ctx.Done():
				return
			}
		}
	}()
	for {
		var items []item
		var ok bool
		select {
		case items, ok = <-queue:
			if !ok {
				return nil
			}
		case err := <-errCh:
			return err
		case <-ctx.Done():
			return nil
		}
		if len(items) == 0 {
			continue
		}
		// latency class
		if n := len(st.Script.LatencyUs); n > 0 || len(st.Script.LatencyAt) > 0 {
			us := 0
			if n > 0 {
				us = st.Script.LatencyUs[int(H(st.Script.Seed, st.ID, "lat", items[0].lin.String())%uint64(n))]
			}
			if at, ok := st.Script.LatencyAt[items[0].lin.Idx]; ok {
				us = at
			}
			if us > 0 {
				select {
				case <-time.After(time.Duration(us) * time.Microsecond):
				case <-ctx.Done():
					return nil
				}
			}
		}
		if g := st.curGate(); g != nil {
			st.p.blocked.Add(1)
			select {
			case <-g:
				st.p.blocked.Add(-1)
			case <-ctx.Done():
				st.p.blocked.Add(-1)
				return nil
			}
		}
		if st.Script.CoalesceAcks {
		drain:
			for {
				select {
				case more, ok := <-queue:
					if !ok {
						break drain
					}
					items = append(items, more...)
				default:
					break drain
				}
			}
		}
		var acks []pconnector.DestinationRunResponseAck
		var infos []AckInfo
		hostile := ""
		for _, it := range items {
			a := pconnector.DestinationRunResponseAck{Position: it.rec.Position}
			info := AckInfo{Lin: it.lin, Pos: string(it.rec.Position)}
			if st.Script.Rejects(st.ID, it.lin) {
				a.Error = fmt.Sprintf("vf-reject %s at %s", it.lin, st.ID)
				info.Err = a.Error
			}
			if sh, ok := st.Script.Shape[it.ord]; ok && (st.Script.ShapeSess == 0 || st.Script.ShapeSess == s.sess) {
				hostile = sh
				switch sh {
				case "wrongpos":
					a.Position = opencdc.Position("vf-bogus-position")
					info.Pos = "vf-bogus-position"
					info.Err = "HOSTILE:wrongpos"
				case "drop":
					infos = append(infos, AckInfo{Lin: it.lin, Err: "HOSTILE:drop"})
					continue
				case "extra":
					acks = append(acks, a)
					infos = append(infos, info)
					info.Err = "HOSTILE:extra"
				case "streamerr":
					lg.Append(Ev{Kind: KNote, Comp: st.ID, Role: st.Role, Sess: s.sess, Note: "destination run fails", Recs: []Lin{it.lin}})
					return errors.New("vf: scripted destination stream error")
				case "emptyacks":
					lg.Append(Ev{Kind: KDstAck, Comp: st.ID, Role: st.Role, Sess: s.sess, Note: "HOSTILE:emptyacks"})
					if err := srv.Send(pconnector.DestinationRunResponse{}); err != nil {
						return nil
					}
				}
			}
			acks = append(acks, a)
			infos = append(infos, info)
		}
		if hostile == "swap" && len(acks) >= 2 {
			acks[0], acks[1] = acks[1], acks[0]
			infos[0], infos[1] = infos[1], infos[0]
			infos[0].Err = "HOSTILE:swap"
		}
		if st.Script.PerRecordAcks {
			for i := range acks {
				lg.Append(Ev{Kind: KDstAck, Comp: st.ID, Role: st.Role, Sess: s.sess, Acks: infos[i : i+1], Note: hostile})
				if err := srv.Send(pconnector.DestinationRunResponse{Acks: acks[i : i+1]}); err != nil {
					lg.Append(Ev{Kind: KNote, Comp: st.ID, Role: st.Role, Sess: s.sess, Note: "ack not delivered", Acks: infos[i : i+1]})
					return nil
				}
			}
			continue
		}
		// logged before it is released to the engine
		lg.Append(Ev{Kind: KDstAck, Comp: st.ID, Role: st.Role, Sess: s.sess, Acks: infos, Note: hostile})
		if err := srv.Send(pconnector.DestinationRunResponse{Acks: acks}); err != nil {
			lg.Append(Ev{Kind: KNote, Comp: st.ID, Role: st.Role, Sess: s.sess, Note: "ack not delivered", Acks: infos})
			return nil
		}
	}
}

func (s *dstSession) Stop(ctx context.Context, req pconnector.DestinationStopRequest) (pconnector.DestinationStopResponse, error) {
	s.st.p.enter()
	defer s.st.p.leave()
	err := s.callErr("Stop")
	e := Ev{Kind: KDstStop, Comp: s.st.ID, Role: s.st.Role, Sess: s.sess}
	if _, idx, ok := ParsePos(req.LastPosition); ok {
		e.Idx = []int{idx}
	}
	if err != nil {
		e.Err = err.Error()
	}
	s.st.p.Log.Append(e)
	return pconnector.DestinationStopResponse{}, err
}

func (s *dstSession) Teardown(ctx context.Context, _ pconnector.DestinationTeardownRequest) (pconnector.DestinationTeardownResponse, error) {
	s.st.p.enter()
	defer s.st.p.leave()
	err := s.callErr("Teardown")
	e := Ev{Kind: KDstTeardown, Comp: s.st.ID, Role: s.st.Role, Sess: s.sess}
	if !s.opened.Load() {
		e.Note = "never-opened"
	}
	if err != nil {
		e.Err = err.Error()
	}
	s.st.p.Log.Append(e)
	return pconnector.DestinationTeardownResponse{}, err
}

func (s *dstSession) LifecycleOnCreated(ctx context.Context, _ pconnector.DestinationLifecycleOnCreatedRequest) (pconnector.DestinationLifecycleOnCreatedResponse, error) {
	err := s.callErr("LifecycleOnCreated")
	s.logCall("LifecycleOnCreated", err)
	return pconnector.DestinationLifecycleOnCreatedResponse{}, err
}

func (s *dstSession) LifecycleOnUpdated(ctx context.Context, _ pconnector.DestinationLifecycleOnUpdatedRequest) (pconnector.DestinationLifecycleOnUpdatedResponse, error) {
	err := s.callErr("LifecycleOnUpdated")
	s.logCall("LifecycleOnUpdated", err)
	return pconnector.DestinationLifecycleOnUpdatedResponse{}, err
}

func (s *dstSession) LifecycleOnDeleted(ctx context.Context, _ pconnector.DestinationLifecycleOnDeletedRequest) (pconnector.DestinationLifecycleOnDeletedResponse, error) {
	err := s.callErr("LifecycleOnDeleted")
	s.logCall("LifecycleOnDeleted", err)
	return pconnector.DestinationLifecycleOnDeletedResponse{}, err
}

// ---------------------------------------------------------------------------

// Plugins is the fake connector plugin service handed to the lifecycle
// services, the orchestrator and provisioning. Every dispenser it hands out
// is the REAL builtin.Dispenser wrapping scripted protocol-level plugins, so
// the real built-in adapters, in-memory streams and the panic sandbox are in
// the path.
type Plugins struct {
	Log *Log

	mu  sync.Mutex
	src map[string]*SrcState
	dst map[string]*DstState
	// DLQDefault is the script used for DLQ connectors not registered explicitly.
	DLQDefault DstScript
	// DispenseErr: connector id -> error returned by NewDispenser.
	DispenseErr map[string]string

	inflight atomic.Int64 // unary plugin calls in progress
	blocked  atomic.Int64 // plugin responses withheld by a harness gate
}

func NewPlugins(l *Log) *Plugins {
	return &Plugins{Log: l, src: map[string]*SrcState{}, dst: map[string]*DstState{}}
}

func (p *Plugins) enter() { p.inflight.Add(1) }
func (p *Plugins) leave() { p.inflight.Add(-1) }

// Blocked reports plugin replies currently withheld by the harness.
func (p *Plugins) Blocked() int64 { return p.blocked.Load() }

func (p *Plugins) Source(id string) *SrcState {
	p.mu.Lock()
	defer p.mu.Unlock()
	st, ok := p.src[id]
	if !ok {
		st = &SrcState{ID: id, p: p, failed: map[int]bool{}, pruned: -1}
		st.cond = sync.NewCond(&st.mu)
		p.src[id] = st
	}
	return st
}

func (p *Plugins) Destination(id string) *DstState {
	p.mu.Lock()
	defer p.mu.Unlock()
	st, ok := p.dst[id]
	if !ok {
		st = &DstState{ID: id, Role: "dst", p: p}
		p.dst[id] = st
	}
	return st
}

func (p *Plugins) DLQ(id string) *DstState {
	p.mu.Lock()
	defer p.mu.Unlock()
	st, ok := p.dst[id]
	if !ok {
		st = &DstState{ID: id, Role: "dlq", p: p, Script: p.DLQDefault}
		p.dst[id] = st
	}
	return st
}

// DLQs returns every DLQ connector state created so far.
func (p *Plugins) DLQs() []*DstState {
	p.mu.Lock()
	defer p.mu.Unlock()
	var out []*DstState
	for _, d := range p.dst {
		if d.Role == "dlq" {
			out = append(out, d)
		}
	}
	return out
}

func (p *Plugins) NewDispenser(logger log.CtxLogger, name string, connectorID string) (connectorPlugin.Dispenser, error) {
	if msg, ok := p.DispenseErr[connectorID]; ok {
		return nil, errors.New(msg)
	}
	switch name {
	case SrcPluginName, DstPluginName, DLQPluginName:
	default:
		return nil, plugin.ErrPluginNotFound
	}
	return builtin.NewDispenser(
		plugin.FullName(name), logger,
		func() pconnector.SpecifierPlugin { return specifier{} },
		func() pconnector.SourcePlugin { return p.newSrcSession(p.Source(connectorID)) },
		func() pconnector.DestinationPlugin {
			var st *DstState
			if name == DLQPluginName {
				st = p.DLQ(connectorID)
			} else {
				st = p.Destination(connectorID)
			}
			st.mu.Lock()
			st.sessions++
			n := st.sessions
			st.mu.Unlock()
			return &dstSession{st: st, sess: n}
		},
	), nil
}

func (p *Plugins) List(context.Context) (map[string]pconnector.Specification, error) {
	return map[string]pconnector.Specification{
		SrcPluginName: {Name: SrcPluginName, Version: "v0.0.0"},
		DstPluginName: {Name: DstPluginName, Version: "v0.0.0"},
		DLQPluginName: {Name: DLQPluginName, Version: "v0.0.0"},
	}, nil
}

func (p *Plugins) ValidateSourceConfig(_ context.Context, name string, settings map[string]string) error {
	if settings["vf.invalid"] != "" {
		return errors.New("vf: invalid source config")
	}
	return nil
}

func (p *Plugins) ValidateDestinationConfig(_ context.Context, name string, settings map[string]string) error {
	if settings["vf.invalid"] != "" {
		return errors.New("vf: invalid destination config")
	}
	return nil
}

type specifier struct{}

func (specifier) Specify(context.Context, pconnector.SpecifierSpecifyRequest) (pconnector.SpecifierSpecifyResponse, error) {
	return pconnector.SpecifierSpecifyResponse{Specification: pconnector.Specification{Name: "vf", Version: "v0.0.0"}}, nil
}
