package rig

import (
	"context"
	"encoding/json"
	"fmt"
	"io"
	"strings"
	"sync"
	"sync/atomic"
	"time"

	"github.com/conduitio/conduit-commons/database"
	"github.com/conduitio/conduit-commons/database/inmemory"
	"github.com/conduitio/conduit/pkg/connector"
	"github.com/conduitio/conduit/pkg/foundation/log"
	"github.com/conduitio/conduit/pkg/lifecycle"
	lifecyclev2 "github.com/conduitio/conduit/pkg/lifecycle-poc"
	"github.com/conduitio/conduit/pkg/orchestrator"
	"github.com/conduitio/conduit/pkg/pipeline"
	"github.com/conduitio/conduit/pkg/processor"
	"github.com/conduitio/conduit/pkg/provisioning"
	"github.com/conduitio/conduit/pkg/provisioning/config"
	"github.com/rs/zerolog"

	"verif/internal/faultdb"
)

// Lifecycle is the surface both engines share.
type Lifecycle interface {
	Init(ctx context.Context) error
	Start(ctx context.Context, pipelineID string) error
	Stop(ctx context.Context, pipelineID string, force bool) error
	StopAndWait(ctx context.Context, pipelineID string) error
	WaitPipeline(id string) error
	Wait(timeout time.Duration) error
}

type Config struct {
	Engine        string // "v1" | "v2"
	PersistDelay  time.Duration
	PersistBundle int
	Recovery      lifecycle.ErrRecoveryCfg
	// DB, if nil a fresh in-memory DB is used. Snapshot, if non-nil, is restored first.
	DB       database.DB
	Snapshot map[string][]byte
	// KeepSnaps keeps the raw snapshot of every commit (crash-point enumeration).
	KeepSnaps bool
	LogLevel  zerolog.Level
	// Journal receives every event as a JSON line (SIGKILL tier).
	Journal io.Writer
}

type Rig struct {
	Cfg     Config
	Log     *Log
	DB      *faultdb.DB
	Script  *faultdb.Script
	Plugins *Plugins
	Procs   *Procs
	// Points: the scheduling-point handler installed for this run (nil outside pipe.Run)
	Points *Points

	Logger    log.CtxLogger
	Persister *connector.Persister
	Conns     *connector.Service
	Pipes     *pipeline.Service
	ProcSvc   *processor.Service
	LC        Lifecycle
	V1        *lifecycle.Service
	V2        *lifecyclev2.Service
	Orc       *orchestrator.Orchestrator
	Prov      *provisioning.Service

	snapMu sync.Mutex
	Snaps  []map[string][]byte

	callSeq atomic.Int64
	warnMu  sync.Mutex
}

// logTap forwards engine log lines of interest (warnings about bounded-wait
// fallbacks, errors) into the event log.
type logTap struct{ r *Rig }

func (t logTap) Write(p []byte) (int, error) {
	s := string(p)
	if strings.Contains(s, `"level":"warn"`) || strings.Contains(s, `"level":"error"`) {
		if len(s) > 600 {
			s = s[:600]
		}
		t.r.Log.Append(Ev{Kind: KWarn, Note: strings.TrimSpace(s)})
	}
	return len(p), nil
}

func New(cfg Config) (*Rig, error) {
	r := &Rig{Cfg: cfg, Log: NewLog()}
	r.Log.Journal = cfg.Journal
	if cfg.PersistBundle <= 0 {
		cfg.PersistBundle = 5
	}
	if cfg.PersistDelay <= 0 {
		cfg.PersistDelay = 2 * time.Millisecond
	}
	var w io.Writer = logTap{r}
	zl := zerolog.New(w).Level(zerolog.WarnLevel)
	if cfg.LogLevel != 0 {
		zl = zerolog.New(w).Level(cfg.LogLevel)
	}
	r.Logger = log.New(zl)

	inner := cfg.DB
	if inner == nil {
		inner = &inmemory.DB{}
	}
	if cfg.Snapshot != nil {
		if err := faultdb.Restore(inner, cfg.Snapshot); err != nil {
			return nil, err
		}
	}
	r.DB = faultdb.New(inner)
	r.Script = faultdb.NewScript()
	r.Script.OnSnap = r.onSnap
	r.Script.OnFault = func(op faultdb.Op, err error) {
		r.Log.Append(Ev{Kind: KStoreFault, Op: op.Kind, Arg: op.Key, Err: err.Error(), Changed: op.TxKeys})
	}
	r.DB.SetController(r.Script)

	r.Plugins = NewPlugins(r.Log)
	r.Procs = NewProcs(r.Log)

	r.Persister = connector.NewPersister(r.Logger, r.DB, cfg.PersistDelay, cfg.PersistBundle)
	r.Conns = connector.NewService(r.Logger, r.DB, r.Persister)
	r.Pipes = pipeline.NewService(r.Logger, r.DB)
	r.ProcSvc = processor.NewService(r.Logger, r.DB, r.Procs)

	rec := cfg.Recovery
	if rec.BackoffFactor == 0 {
		rec = lifecycle.ErrRecoveryCfg{MinDelay: 5 * time.Millisecond, MaxDelay: 20 * time.Millisecond, BackoffFactor: 2, MaxRetries: 3, MaxRetriesWindow: 200 * time.Millisecond}
	}
	r.Cfg.Recovery = rec
	var lcForOthers interface {
		orchestrator.LifecycleService
	}
	switch cfg.Engine {
	case "v2":
		r.V2 = lifecyclev2.NewService(r.Logger, &rec, r.Conns, r.ProcSvc, r.Plugins, r.Pipes, true)
		r.V2.OnFailure(func(e lifecyclev2.FailureEvent) {
			r.Log.Append(Ev{Kind: KFailure, Comp: e.ID, Err: errString(e.Error)})
		})
		r.LC = r.V2
		lcForOthers = r.V2
	default:
		r.Cfg.Engine = "v1"
		r.V1 = lifecycle.NewService(r.Logger, &rec, r.Conns, r.ProcSvc, r.Plugins, r.Pipes)
		r.V1.OnFailure(func(e lifecycle.FailureEvent) {
			r.Log.Append(Ev{Kind: KFailure, Comp: e.ID, Err: errString(e.Error)})
		})
		r.LC = r.V1
		lcForOthers = r.V1
	}
	r.Orc = orchestrator.NewOrchestrator(r.DB, r.Logger, r.Pipes, r.Conns, r.ProcSvc, r.Plugins, r.Procs, lcForOthers)
	if r.V2 != nil {
		r.Prov = provisioning.NewService(r.DB, r.Logger, r.Pipes, r.Conns, r.ProcSvc, r.Plugins, r.V2, "")
	} else {
		r.Prov = provisioning.NewService(r.DB, r.Logger, r.Pipes, r.Conns, r.ProcSvc, r.Plugins, r.V1, "")
	}
	return r, nil
}

// InitServices loads the services from the store (as a restarted server does).
func (r *Rig) InitServices(ctx context.Context) error {
	if err := r.Pipes.Init(ctx); err != nil {
		return fmt.Errorf("pipeline init: %w", err)
	}
	if err := r.Conns.Init(ctx); err != nil {
		return fmt.Errorf("connector init: %w", err)
	}
	if err := r.ProcSvc.Init(ctx); err != nil {
		return fmt.Errorf("processor init: %w", err)
	}
	return nil
}

func errString(err error) string {
	if err == nil {
		return ""
	}
	s := err.Error()
	if len(s) > 800 {
		s = s[:800]
	}
	return s
}

// onSnap runs under faultdb's commit lock; the log append inside makes the
// commit and its log entry atomic with respect to every other logged event.
func (r *Rig) onSnap(op faultdb.Op, changed []string, snap map[string][]byte) {
	s := DecodeSnap(snap)
	if r.Cfg.KeepSnaps {
		r.snapMu.Lock()
		r.Snaps = append(r.Snaps, snap)
		s.ID = len(r.Snaps) - 1
		r.snapMu.Unlock()
	}
	r.Log.Append(Ev{Kind: KCommit, Op: op.Kind, Changed: changed, Snap: s})
}

// SnapsCopy returns the raw snapshots kept so far.
func (r *Rig) SnapsCopy() []map[string][]byte {
	r.snapMu.Lock()
	defer r.snapMu.Unlock()
	return append([]map[string][]byte(nil), r.Snaps...)
}

// DecodeSnap extracts source positions and pipeline statuses from raw store bytes.
func DecodeSnap(snap map[string][]byte) *Snap {
	s := &Snap{Pos: map[string]int{}, Status: map[string]string{}, NKeys: len(snap)}
	for k, v := range snap {
		switch {
		case strings.HasPrefix(k, "connector:instance:"):
			var c struct {
				ID    string
				Type  int
				State json.RawMessage
			}
			if json.Unmarshal(v, &c) != nil || c.Type != int(connector.TypeSource) {
				continue
			}
			var st struct{ Position []byte }
			if len(c.State) > 0 && string(c.State) != "null" {
				if err := json.Unmarshal(c.State, &st); err != nil {
					if s.RawPos == nil {
						s.RawPos = map[string]string{}
					}
					s.RawPos[c.ID] = "undecodable:" + string(c.State)
					continue
				}
			}
			if len(st.Position) == 0 {
				s.Pos[c.ID] = -1
			} else if _, idx, ok := ParsePos(st.Position); ok {
				s.Pos[c.ID] = idx
			} else {
				if s.RawPos == nil {
					s.RawPos = map[string]string{}
				}
				s.RawPos[c.ID] = string(st.Position)
			}
		case strings.HasPrefix(k, "pipeline:instance:"):
			var p struct {
				ID     string
				Status int
				Error  string
			}
			if json.Unmarshal(v, &p) != nil {
				continue
			}
			s.Status[p.ID] = pipeline.Status(p.Status).String()
			if p.Error != "" {
				if s.StatusErr == nil {
					s.StatusErr = map[string]string{}
				}
				e := p.Error
				if len(e) > 300 {
					e = e[:300]
				}
				s.StatusErr[p.ID] = e
			}
		}
	}
	return s
}

// ---------------------------------------------------------------------------
// topology

type ProcSpec struct {
	ID        string     `json:"id"`
	Workers   int        `json:"workers,omitempty"`
	Condition string     `json:"cond,omitempty"`
	Script    ProcScript `json:"script"`
}

type ConnSpec struct {
	ID    string     `json:"id"`
	Procs []ProcSpec `json:"procs,omitempty"`
	Src   SrcScript  `json:"src,omitempty"`
	Dst   DstScript  `json:"dst,omitempty"`
}

type Topo struct {
	Pipeline  string     `json:"pipeline"`
	Sources   []ConnSpec `json:"sources"`
	Dests     []ConnSpec `json:"dests"`
	PipeProcs []ProcSpec `json:"pipeprocs,omitempty"`
	DLQWindow int        `json:"dlq_window"`
	DLQThresh int        `json:"dlq_thresh"`
	DLQ       DstScript  `json:"dlq"`
}

// Build creates the pipeline, connectors and processors through the real services.
func (r *Rig) Build(ctx context.Context, t Topo) error {
	r.Plugins.DLQDefault = t.DLQ
	_, err := r.Pipes.Create(ctx, t.Pipeline, pipeline.Config{Name: t.Pipeline}, pipeline.ProvisionTypeAPI)
	if err != nil {
		return err
	}
	_, err = r.Pipes.UpdateDLQ(ctx, t.Pipeline, pipeline.DLQ{
		Plugin: DLQPluginName, Settings: map[string]string{}, WindowSize: t.DLQWindow, WindowNackThreshold: t.DLQThresh,
	})
	if err != nil {
		return err
	}
	addProcs := func(ps []ProcSpec, parent processor.Parent) error {
		for _, p := range ps {
			r.Procs.Proc(p.ID).Script = p.Script
			_, err := r.ProcSvc.Create(ctx, p.ID, ProcPluginName, parent,
				processor.Config{Settings: map[string]string{"vf.gen": "1"}, Workers: p.Workers}, processor.ProvisionTypeAPI, p.Condition)
			if err != nil {
				return err
			}
			if parent.Type == processor.ParentTypePipeline {
				_, err = r.Pipes.AddProcessor(ctx, parent.ID, p.ID)
			} else {
				_, err = r.Conns.AddProcessor(ctx, parent.ID, p.ID)
			}
			if err != nil {
				return err
			}
		}
		return nil
	}
	for _, s := range t.Sources {
		r.Plugins.Source(s.ID).Script = s.Src
		_, err := r.Conns.Create(ctx, s.ID, connector.TypeSource, SrcPluginName, t.Pipeline,
			connector.Config{Name: s.ID, Settings: map[string]string{"k": "v"}}, connector.ProvisionTypeAPI)
		if err != nil {
			return err
		}
		if _, err := r.Pipes.AddConnector(ctx, t.Pipeline, s.ID); err != nil {
			return err
		}
		if err := addProcs(s.Procs, processor.Parent{ID: s.ID, Type: processor.ParentTypeConnector}); err != nil {
			return err
		}
	}
	for _, d := range t.Dests {
		r.Plugins.Destination(d.ID).Script = d.Dst
		_, err := r.Conns.Create(ctx, d.ID, connector.TypeDestination, DstPluginName, t.Pipeline,
			connector.Config{Name: d.ID, Settings: map[string]string{"k": "v"}}, connector.ProvisionTypeAPI)
		if err != nil {
			return err
		}
		if _, err := r.Pipes.AddConnector(ctx, t.Pipeline, d.ID); err != nil {
			return err
		}
		if err := addProcs(d.Procs, processor.Parent{ID: d.ID, Type: processor.ParentTypeConnector}); err != nil {
			return err
		}
	}
	return addProcs(t.PipeProcs, processor.Parent{ID: t.Pipeline, Type: processor.ParentTypePipeline})
}

// ApplyScripts installs the plugin scripts of a topology on a rig whose
// entities already exist in the store (restart on a snapshot).
func (r *Rig) ApplyScripts(t Topo) {
	r.Plugins.DLQDefault = t.DLQ
	for _, s := range t.Sources {
		r.Plugins.Source(s.ID).Script = s.Src
		for _, p := range s.Procs {
			r.Procs.Proc(p.ID).Script = p.Script
		}
	}
	for _, d := range t.Dests {
		r.Plugins.Destination(d.ID).Script = d.Dst
		for _, p := range d.Procs {
			r.Procs.Proc(p.ID).Script = p.Script
		}
	}
	for _, p := range t.PipeProcs {
		r.Procs.Proc(p.ID).Script = p.Script
	}
}

// ---------------------------------------------------------------------------
// control calls, recorded at the client boundary

// Ctl records the call before invoking and the return after the reply.
func (r *Rig) Ctl(op, arg string, f func() error) error {
	id := int(r.callSeq.Add(1))
	// Note carries the status the API would REPORT (in-memory) at the call and at the return
	r.Log.Append(Ev{Kind: KCtl, Op: op, Arg: arg, Call: id, Note: r.reported(arg)})
	err := f()
	r.Log.Append(Ev{Kind: KCtlRet, Op: op, Arg: arg, Call: id, Err: errString(err), Note: r.reported(arg)})
	return err
}

// reported returns the in-memory status of pipeline id ("" if arg is not a pipeline id).
func (r *Rig) reported(id string) string {
	p, err := r.Pipes.Get(context.Background(), id)
	if err != nil {
		return ""
	}
	return p.GetStatus().String()
}

func (r *Rig) Start(ctx context.Context, id string) error {
	return r.Ctl("Start", id, func() error { return r.LC.Start(ctx, id) })
}

func (r *Rig) Stop(ctx context.Context, id string, force bool) error {
	op := "Stop"
	if force {
		op = "ForceStop"
	}
	return r.Ctl(op, id, func() error { return r.LC.Stop(ctx, id, force) })
}

func (r *Rig) StopAndWait(ctx context.Context, id string) error {
	return r.Ctl("StopAndWait", id, func() error { return r.LC.StopAndWait(ctx, id) })
}

func (r *Rig) WaitPipeline(id string) error {
	return r.Ctl("WaitPipeline", id, func() error { return r.LC.WaitPipeline(id) })
}

// StopAll is the server-shutdown stop of every pipeline.
func (r *Rig) StopAll(ctx context.Context) error {
	return r.Ctl("StopAll", "", func() error {
		if r.V2 != nil {
			return r.V2.StopAll(ctx, false)
		}
		r.V1.StopAll(ctx, pipeline.ErrGracefulShutdown)
		return nil
	})
}

// Status returns the in-memory status of a pipeline.
func (r *Rig) Status(id string) string {
	p, err := r.Pipes.Get(context.Background(), id)
	if err != nil {
		return "?"
	}
	return p.GetStatus().String()
}

// StoredPos reads the durable position of a source connector from the store.
func (r *Rig) StoredPos(src string) (int, bool) {
	s := DecodeSnap(r.DB.Snapshot())
	v, ok := s.Pos[src]
	return v, ok
}

// Shutdown waits for the persister (bounded) — harness cleanup only.
func (r *Rig) Shutdown() {
	done := make(chan struct{})
	go func() { r.Persister.Wait(); close(done) }()
	select {
	case <-done:
	case <-time.After(3 * time.Second):
	}
}

// ToConfig renders a topology as a provisioning config (processor generation
// numbers from gens, default 1).
func ToConfig(t Topo, gens map[string]int) config.Pipeline {
	procs := func(ps []ProcSpec) []config.Processor {
		var out []config.Processor
		for _, p := range ps {
			g := gens[p.ID]
			if g == 0 {
				g = 1
			}
			w := p.Workers
			if w == 0 {
				w = 1
			}
			out = append(out, config.Processor{ID: p.ID, Plugin: ProcPluginName, Settings: map[string]string{"vf.gen": fmt.Sprint(g)}, Workers: w, Condition: p.Condition})
		}
		return out
	}
	w, th := t.DLQWindow, t.DLQThresh
	c := config.Pipeline{ID: t.Pipeline, Status: config.StatusStopped, Name: t.Pipeline,
		DLQ: config.DLQ{Plugin: DLQPluginName, Settings: map[string]string{}, WindowSize: &w, WindowNackThreshold: &th}}
	for _, s := range t.Sources {
		c.Connectors = append(c.Connectors, config.Connector{ID: s.ID, Type: config.TypeSource, Plugin: SrcPluginName, Name: s.ID, Settings: map[string]string{"k": "v"}, Processors: procs(s.Procs)})
	}
	for _, d := range t.Dests {
		c.Connectors = append(c.Connectors, config.Connector{ID: d.ID, Type: config.TypeDestination, Plugin: DstPluginName, Name: d.ID, Settings: map[string]string{"k": "v"}, Processors: procs(d.Procs)})
	}
	c.Processors = procs(t.PipeProcs)
	return c
}
