// Package rig assembles the real conduit engine (both lifecycle
// implementations, connector/pipeline/processor services, persister,
// orchestrator, provisioning) between two fake boundaries — scripted connector
// and processor plugins on one side, faultdb on the other — and records every
// boundary event in one totally ordered log that offline oracles judge.
package rig

import (
	"encoding/json"
	"fmt"
	"io"
	"strconv"
	"strings"
	"sync"
	"time"
)

type Kind string

const (
	KSrcOpen      Kind = "SrcOpen"
	KSrcEmit      Kind = "SrcEmit"
	KSrcAck       Kind = "SrcAck" // ack message received by the source plugin
	KSrcStop      Kind = "SrcStop"
	KSrcTeardown  Kind = "SrcTeardown"
	KDstOpen      Kind = "DstOpen"
	KDstWrite     Kind = "DstWrite" // records received by a destination/DLQ plugin
	KDstAck       Kind = "DstAck"   // acks about to be sent by a destination/DLQ plugin
	KDstStop      Kind = "DstStop"
	KDstTeardown  Kind = "DstTeardown"
	KProcOpen     Kind = "ProcOpen"
	KProcCall     Kind = "ProcCall"
	KProcTeardown Kind = "ProcTeardown"
	KCommit       Kind = "Commit"
	KStoreFault   Kind = "StoreFault"
	KCtl          Kind = "Ctl"     // control call issued
	KCtlRet       Kind = "CtlRet"  // control call returned
	KFailure      Kind = "Failure" // lifecycle failure handler fired
	KWarn         Kind = "Warn"    // engine log line of interest (bounded-wait fallback etc.)
	KNote         Kind = "Note"
	KPluginCall   Kind = "PluginCall" // other unary plugin calls (Configure, Lifecycle*)
)

// Lin identifies a record by lineage: the source connector, the emit index
// and the piece path of a split ("" for the record itself, "1", "1.0", ...).
type Lin struct {
	Src  string `json:"s"`
	Idx  int    `json:"i"`
	Path string `json:"p,omitempty"`
}

func (l Lin) Origin() Lin { return Lin{Src: l.Src, Idx: l.Idx} }
func (l Lin) String() string {
	if l.Path == "" {
		return fmt.Sprintf("%s#%d", l.Src, l.Idx)
	}
	return fmt.Sprintf("%s#%d/%s", l.Src, l.Idx, l.Path)
}

// AckInfo is one ack inside a destination response.
type AckInfo struct {
	Lin Lin    `json:"l"`
	Pos string `json:"pos,omitempty"`
	Err string `json:"err,omitempty"`
}

// Snap is the decoded content of the store right after a commit.
type Snap struct {
	// Pos: source connector id -> index of the stored position (-1: none/empty).
	Pos map[string]int `json:"pos,omitempty"`
	// RawPos: stored positions that do not decode to an index.
	RawPos map[string]string `json:"rawpos,omitempty"`
	// Status: pipeline id -> stored status name.
	Status map[string]string `json:"status,omitempty"`
	// StatusErr: pipeline id -> stored error text (truncated).
	StatusErr map[string]string `json:"statuserr,omitempty"`
	NKeys     int               `json:"nkeys"`
	// ID of the raw snapshot kept by the rig (index into Rig.Snaps).
	ID int `json:"id"`
}

type Ev struct {
	Seq  int    `json:"n"`
	T    int64  `json:"t"` // ns since rig start, monotonic
	Kind Kind   `json:"k"`
	Comp string `json:"c,omitempty"` // connector / processor / pipeline id
	Role string `json:"r,omitempty"` // src | dst | dlq | proc
	Sess int    `json:"s,omitempty"` // session number of that component (1-based)
	Gen  int    `json:"g,omitempty"` // processor generation

	Idx  []int     `json:"idx,omitempty"`  // source-side: emit indices (positions decoded)
	Raw  []string  `json:"raw,omitempty"`  // positions that did not decode
	Recs []Lin     `json:"recs,omitempty"` // records written / processed
	Out  []string  `json:"out,omitempty"`  // processor result kinds, aligned or not with Recs
	Acks []AckInfo `json:"acks,omitempty"`
	// Stamps: per written record, the processor generations that handled it ("p1=1,p3=2").
	Stamps []string `json:"stamps,omitempty"`

	Op   string `json:"op,omitempty"`
	Arg  string `json:"arg,omitempty"`
	Err  string `json:"err,omitempty"`
	Note string `json:"note,omitempty"`
	Call int    `json:"call,omitempty"` // pairs Ctl with CtlRet

	Changed []string `json:"chg,omitempty"`
	Snap    *Snap    `json:"snap,omitempty"`
}

type Log struct {
	mu     sync.Mutex
	cond   *sync.Cond
	evs    []Ev
	start  time.Time
	closed bool
	// late counts events appended after Close (leftover goroutines).
	late int
	// Journal, if set, receives every event as one JSON line at append time
	// (SIGKILL tier: the parent reads what the child managed to write).
	Journal io.Writer
}

func NewLog() *Log {
	l := &Log{start: time.Now()}
	l.cond = sync.NewCond(&l.mu)
	return l
}

// Append adds an event; returns its sequence number (or -1 when closed).
func (l *Log) Append(e Ev) int {
	l.mu.Lock()
	defer l.mu.Unlock()
	return l.appendLocked(e)
}

func (l *Log) appendLocked(e Ev) int {
	if l.closed {
		l.late++
		return -1
	}
	e.Seq = len(l.evs)
	e.T = int64(time.Since(l.start))
	l.evs = append(l.evs, e)
	if l.Journal != nil {
		if b, err := json.Marshal(e); err == nil {
			l.Journal.Write(append(b, '\n'))
		}
	}
	l.cond.Broadcast()
	return e.Seq
}

// Do runs f while holding the log mutex (used to make a store commit and its
// log entry atomic with respect to every other logged event).
func (l *Log) Do(f func(app func(Ev) int)) {
	l.mu.Lock()
	defer l.mu.Unlock()
	f(l.appendLocked)
}

func (l *Log) Len() int {
	l.mu.Lock()
	defer l.mu.Unlock()
	return len(l.evs)
}

// WaitLen blocks until the log has at least n events or the timeout passes.
// The timeout is only a harness watchdog, never a verdict.
func (l *Log) WaitLen(n int, timeout time.Duration) bool {
	deadline := time.Now().Add(timeout)
	l.mu.Lock()
	defer l.mu.Unlock()
	for len(l.evs) < n {
		if l.closed {
			return false
		}
		rem := time.Until(deadline)
		if rem <= 0 {
			return false
		}
		t := time.AfterFunc(rem, func() { l.mu.Lock(); l.cond.Broadcast(); l.mu.Unlock() })
		l.cond.Wait()
		t.Stop()
	}
	return true
}

// WaitFor blocks until pred holds on the log (evaluated under the mutex on
// every append) or the timeout passes.
func (l *Log) WaitFor(pred func(evs []Ev) bool, timeout time.Duration) bool {
	deadline := time.Now().Add(timeout)
	l.mu.Lock()
	defer l.mu.Unlock()
	for !pred(l.evs) {
		if l.closed {
			return false
		}
		rem := time.Until(deadline)
		if rem <= 0 {
			return false
		}
		t := time.AfterFunc(rem, func() { l.mu.Lock(); l.cond.Broadcast(); l.mu.Unlock() })
		l.cond.Wait()
		t.Stop()
	}
	return true
}

// Quiet waits until no event was appended for d (harness pacing only).
func (l *Log) Quiet(d, max time.Duration) {
	deadline := time.Now().Add(max)
	last := l.Len()
	lastChange := time.Now()
	for time.Now().Before(deadline) {
		time.Sleep(d / 4)
		n := l.Len()
		if n != last {
			last = n
			lastChange = time.Now()
			continue
		}
		if time.Since(lastChange) >= d {
			return
		}
	}
}

func (l *Log) Close() []Ev {
	l.mu.Lock()
	defer l.mu.Unlock()
	l.closed = true
	l.cond.Broadcast()
	out := make([]Ev, len(l.evs))
	copy(out, l.evs)
	return out
}

func (l *Log) Snapshot() []Ev {
	l.mu.Lock()
	defer l.mu.Unlock()
	out := make([]Ev, len(l.evs))
	copy(out, l.evs)
	return out
}

// ---------------------------------------------------------------------------
// positions

// Pos encodes the position of record idx of source connector src. Unique,
// order-preserving per source, opaque to the engine.
func Pos(src string, idx int) []byte {
	return []byte(fmt.Sprintf("%s|%08d", src, idx))
}

// ParsePos decodes a position minted by Pos.
func ParsePos(p []byte) (src string, idx int, ok bool) {
	s := string(p)
	i := strings.LastIndexByte(s, '|')
	if i < 0 || len(s)-i-1 != 8 {
		return "", -1, false
	}
	n, err := strconv.Atoi(s[i+1:])
	if err != nil {
		return "", -1, false
	}
	return s[:i], n, true
}

// Excerpt renders a few events around the given indices (witness output).
func Excerpt(evs []Ev, around []int, radius int) []Ev {
	keep := map[int]bool{}
	for _, a := range around {
		for i := a - radius; i <= a+radius; i++ {
			if i >= 0 && i < len(evs) {
				keep[i] = true
			}
		}
	}
	var out []Ev
	for i := range evs {
		if keep[i] {
			e := evs[i]
			if e.Snap != nil {
				s := *e.Snap
				e.Snap = &s
			}
			out = append(out, e)
		}
	}
	if len(out) > 60 {
		out = out[:60]
	}
	return out
}
