package rig

import (
	"sort"
	"sync"
	"sync/atomic"
	"time"

	"github.com/conduitio/conduit/pkg/foundation/verifhook"
)

// Points drives the repository's named scheduling points (package verifhook,
// compiled in with -tags verif): at every hit of a configured point the calling
// goroutine sleeps for a pseudo-random time below the configured bound. The
// sleep happens BETWEEN critical sections of the real code (that is where the
// points were placed), so it only widens the set of interleavings the run
// explores; it never changes state. The amount is a function of (seed, point,
// hit number), so a case is reproducible up to the scheduler.
type Points struct {
	seed  int64
	maxUs map[string]int
	mu    sync.Mutex
	hits  map[string]*atomic.Int64
	slept atomic.Int64
	// on: harness actions run at a point (the harness acting as a concurrent
	// client of the services at exactly that instant, e.g. a Start that lands
	// between two reads of a live apply)
	on map[string]func()
}

// On registers (fn != nil) or removes the harness action for a point. The action
// runs on the goroutine that hit the point, before the sleep.
func (p *Points) On(name string, fn func()) {
	p.mu.Lock()
	if p.on == nil {
		p.on = map[string]func(){}
	}
	if fn == nil {
		delete(p.on, name)
	} else {
		p.on[name] = fn
	}
	p.mu.Unlock()
}

// PointNames lists every point the repository defines (kept in sync with the
// hooks commit; used by generators to pick subsets).
var PointNames = []string{
	"funnel.worker.ack", "funnel.worker.nack", "funnel.multiack.ack", "funnel.multiack.nack",
	"connector.source.ack", "connector.persister.before-commit", "connector.persister.after-commit",
	"connector.persister.callback",
	"stream.sourceacker.ack", "stream.sourceacker.nack", "stream.fanout.ack",
	"lifecycle.start.checked", "lifecycle.start.before-run", "lifecycle.stop.checked",
	"lifecycle.recover.backoff-elapsed", "lifecycle.run.ended",
	"pipeline.updatestatus.before-store",
	"provisioning.applylive.stopped", "provisioning.applylive.imported",
}

// ActionPoints are points used for harness actions (Points.On) only; they are not
// part of PointNames, so the pseudo-random choice of sleep points stays what it was.
var ActionPoints = []string{"provisioning.applylive.checked", "lifecycle.recover.checked"}

// InstallPoints installs the handler process-wide (cases run one at a time in a
// worker process). maxUs: point name -> upper bound of the sleep in
// microseconds; the key "*" applies to every point not listed.
func InstallPoints(seed int64, maxUs map[string]int) *Points {
	p := &Points{seed: seed, maxUs: maxUs, hits: map[string]*atomic.Int64{}}
	verifhook.Set(p.hit)
	return p
}

func (p *Points) Uninstall() { verifhook.Set(nil) }

func (p *Points) hit(name string) {
	p.mu.Lock()
	c := p.hits[name]
	if c == nil {
		c = &atomic.Int64{}
		p.hits[name] = c
	}
	fn := p.on[name]
	p.mu.Unlock()
	n := c.Add(1)
	if fn != nil {
		fn()
	}
	max, ok := p.maxUs[name]
	if !ok {
		max, ok = p.maxUs["*"]
	}
	if !ok || max <= 0 {
		return
	}
	h := H(p.seed, name, n)
	if h%3 == 0 {
		return // a third of the hits pass straight through
	}
	us := int((h >> 8) % uint64(max+1))
	if us == 0 {
		return
	}
	p.slept.Add(1)
	time.Sleep(time.Duration(us) * time.Microsecond)
}

// Stats: hits per point and the number of sleeps.
func (p *Points) Stats() (map[string]int64, int64) {
	out := map[string]int64{}
	p.mu.Lock()
	for k, c := range p.hits {
		out[k] = c.Load()
	}
	p.mu.Unlock()
	return out, p.slept.Load()
}

// PointsHit lists the names with at least one hit, sorted.
func (p *Points) PointsHit() []string {
	m, _ := p.Stats()
	var out []string
	for k, n := range m {
		if n > 0 {
			out = append(out, k)
		}
	}
	sort.Strings(out)
	return out
}
