package rig

import (
	"context"
	"errors"
	"fmt"
	"strconv"
	"sync"
	"time"

	"github.com/conduitio/conduit-commons/config"
	"github.com/conduitio/conduit-commons/opencdc"
	sdk "github.com/conduitio/conduit-processor-sdk"
	"github.com/conduitio/conduit/pkg/plugin/processor/egress"
)

const ProcPluginName = "builtin:vf-proc"

// Result kinds of the scripted processor.
const (
	PKPass   = "pass"
	PKModify = "modify"
	PKFilter = "filter"
	PKError  = "error"
	PKMulti  = "multi"
)

// ProcScript scripts one processor instance. The result for a record is a
// deterministic function of (processor id, record lineage) — independent of
// batching, scheduling and the engine — plus a convergent "cut short" rule
// that depends on the attempt number.
type ProcScript struct {
	Seed     uint64
	FilterPm int
	ErrorPm  int
	MultiPm  int
	ModifyPm int
	MultiN   int // pieces of a split (>=2)
	// NilErrPm: an "error" result carries a nil Error (sdk.ErrorRecord{Error: nil})
	// with this probability (decided per record lineage); it is a rejection like
	// any other error result.
	NilErrPm int `json:",omitempty"`
	// CutPm: on the first attempt for a record, with this probability the
	// processor cuts its output short right before that record (the rest of
	// the call's input gets no result and must be retried by the engine).
	CutPm int
	// Kind overrides by lineage string.
	Kind map[string]string
	// Hostile replies keyed by Process call ordinal (1-based, per session):
	// "more" | "zero" | "nilentry" | "changepos" | "errnil" | "multi0" | "multi1"
	Hostile map[int]string
	// OpenErr: generation -> error text of Open ("*" key -1 = always).
	OpenErr map[int]string
	// ConfigureErr likewise.
	ConfigureErr map[int]string
	// TeardownErr: error text every Teardown of the processor returns ("" = none).
	TeardownErr string `json:",omitempty"`
	LatencyUs   []int
	// OpenLatencyUs: generation -> time Open takes (logged as a note when it starts).
	OpenLatencyUs map[int]int `json:",omitempty"`
}

// KindOf is the scripted result kind for a record (ignoring cut-short).
func (sc *ProcScript) KindOf(procID string, l Lin) string {
	if k, ok := sc.Kind[l.String()]; ok {
		return k
	}
	x := int(H(sc.Seed, procID, l.Src, l.Idx, l.Path) % 1000)
	if x < sc.FilterPm {
		return PKFilter
	}
	x -= sc.FilterPm
	if x < sc.ErrorPm {
		return PKError
	}
	x -= sc.ErrorPm
	if x < sc.MultiPm {
		return PKMulti
	}
	x -= sc.MultiPm
	if x < sc.ModifyPm {
		return PKModify
	}
	return PKPass
}

func (sc *ProcScript) cuts(procID string, l Lin, attempt int) bool {
	if sc.CutPm <= 0 || attempt > 0 {
		return false
	}
	return int(H(sc.Seed, "cut", procID, l.Src, l.Idx, l.Path)%1000) < sc.CutPm
}

// ChildPath is the path of piece i of a record split at path p.
func ChildPath(p string, i int) string {
	if p == "" {
		return strconv.Itoa(i)
	}
	return p + "." + strconv.Itoa(i)
}

type ProcState struct {
	ID     string
	Script ProcScript
	p      *Procs

	mu       sync.Mutex
	sessions int
}

type procSession struct {
	sdk.UnimplementedProcessor
	st   *ProcState
	sess int
	gen  int

	mu               sync.Mutex
	attempts         map[string]int
	calls            int
	opened           bool
	torn             bool
	opens, teardowns int
}

func (s *procSession) Specification() (sdk.Specification, error) {
	return sdk.Specification{Name: ProcPluginName, Version: "v0.0.0"}, nil
}

// NOTE: with Workers > 1 the default engine shares ONE plugin instance between
// all parallel worker nodes and calls Configure/Open/Process/Teardown on it
// concurrently, once per worker; the session is therefore fully synchronised
// and counts opens/teardowns.
func (s *procSession) Configure(_ context.Context, cfg config.Config) error {
	gen := s.sess
	if g, ok := cfg["vf.gen"]; ok {
		if n, err := strconv.Atoi(g); err == nil {
			gen = n
		}
	}
	s.mu.Lock()
	s.gen = gen
	s.mu.Unlock()
	if msg, ok := s.st.Script.ConfigureErr[gen]; ok {
		return errors.New(msg)
	}
	return nil
}

func (s *procSession) getGen() int {
	s.mu.Lock()
	defer s.mu.Unlock()
	return s.gen
}

func (s *procSession) Open(context.Context) error {
	gen := s.getGen()
	if us := s.st.Script.OpenLatencyUs[gen]; us > 0 {
		s.st.p.Log.Append(Ev{Kind: KNote, Comp: s.st.ID, Role: "proc", Sess: s.sess, Gen: gen, Note: "open-start"})
		time.Sleep(time.Duration(us) * time.Microsecond)
	}
	if msg, ok := s.st.Script.OpenErr[gen]; ok {
		s.st.p.Log.Append(Ev{Kind: KProcOpen, Comp: s.st.ID, Role: "proc", Sess: s.sess, Gen: gen, Err: msg})
		return errors.New(msg)
	}
	s.mu.Lock()
	s.opened = true
	s.opens++
	s.mu.Unlock()
	s.st.p.Log.Append(Ev{Kind: KProcOpen, Comp: s.st.ID, Role: "proc", Sess: s.sess, Gen: gen})
	return nil
}

func (s *procSession) Teardown(context.Context) error {
	s.mu.Lock()
	s.teardowns++
	if s.teardowns >= s.opens {
		s.torn = true
	}
	s.mu.Unlock()
	e := Ev{Kind: KProcTeardown, Comp: s.st.ID, Role: "proc", Sess: s.sess, Gen: s.getGen()}
	if msg := s.st.Script.TeardownErr; msg != "" {
		e.Err = msg
		s.st.p.Log.Append(e)
		return errors.New(msg)
	}
	s.st.p.Log.Append(e)
	return nil
}

func (s *procSession) Process(ctx context.Context, recs []opencdc.Record) []sdk.ProcessedRecord {
	sc := &s.st.Script
	s.mu.Lock()
	s.calls++
	call := s.calls
	state := ""
	if !s.opened {
		state = "not-open"
	} else if s.torn {
		state = "after-teardown"
	}
	s.mu.Unlock()

	if n := len(sc.LatencyUs); n > 0 && len(recs) > 0 {
		if l, ok := LinOf(recs[0]); ok {
			us := sc.LatencyUs[int(H(sc.Seed, s.st.ID, "lat", l.String())%uint64(n))]
			if us > 0 {
				time.Sleep(time.Duration(us) * time.Microsecond)
			}
		}
	}

	gen := s.getGen()
	e := Ev{Kind: KProcCall, Comp: s.st.ID, Role: "proc", Sess: s.sess, Gen: gen, Note: state, Call: call}
	out := make([]sdk.ProcessedRecord, 0, len(recs))
	for _, r := range recs {
		l, ok := LinOf(r)
		if !ok {
			l = Lin{Src: "?", Idx: -1}
		}
		e.Recs = append(e.Recs, l)
		key := l.String()
		s.mu.Lock()
		att := s.attempts[key]
		s.attempts[key] = att + 1
		s.mu.Unlock()
		if len(out) > 0 && sc.cuts(s.st.ID, l, att) {
			// cut short before this record: it and the rest get no result
			e.Out = append(e.Out, "CUT")
			// the records after the cut were not attempted
			break
		}
		kind := sc.KindOf(s.st.ID, l)
		e.Out = append(e.Out, kind)
		switch kind {
		case PKFilter:
			out = append(out, sdk.FilterRecord{})
		case PKError:
			if sc.NilErrPm > 0 && int(H(sc.Seed, s.st.ID, "nilerr", l.String())%1000) < sc.NilErrPm {
				e.Note += " NILERR:" + l.String()
				out = append(out, sdk.ErrorRecord{Error: nil})
			} else {
				out = append(out, sdk.ErrorRecord{Error: fmt.Errorf("vf-proc-error %s at %s", l, s.st.ID)})
			}
		case PKMulti:
			n := sc.MultiN
			if n < 2 {
				n = 2
			}
			pieces := make(sdk.MultiRecord, n)
			for i := 0; i < n; i++ {
				c := r.Clone()
				c.Metadata[MetaPath] = ChildPath(l.Path, i)
				c.Metadata["vf.g."+s.st.ID] = strconv.Itoa(gen)
				pieces[i] = c
			}
			out = append(out, pieces)
		case PKModify:
			c := r.Clone()
			c.Payload.After = opencdc.RawData(fmt.Sprintf("%s+%s", string(c.Payload.After.Bytes()), s.st.ID))
			c.Metadata["vf.g."+s.st.ID] = strconv.Itoa(gen)
			out = append(out, sdk.SingleRecord(c))
		default:
			c := r.Clone()
			c.Metadata["vf.g."+s.st.ID] = strconv.Itoa(gen)
			out = append(out, sdk.SingleRecord(c))
		}
	}
	if h, ok := sc.Hostile[call]; ok && len(recs) > 0 {
		e.Note += " HOSTILE:" + h
		switch h {
		case "more":
			out = append(out, sdk.SingleRecord(recs[len(recs)-1].Clone()), sdk.FilterRecord{})
		case "moreerr":
			out = append(out, sdk.ErrorRecord{Error: errors.New("vf extra error")})
		case "moremulti":
			out = append(out, sdk.MultiRecord{recs[0].Clone(), recs[0].Clone()})
		case "zero":
			out = nil
		case "nilentry":
			out[len(out)/2] = nil
		case "changepos":
			if sr, ok := out[0].(sdk.SingleRecord); ok {
				sr.Position = opencdc.Position("vf-changed-position")
				out[0] = sr
			}
		case "emptypos":
			if sr, ok := out[0].(sdk.SingleRecord); ok {
				sr.Position = nil
				out[0] = sr
			}
		case "errnil":
			out[0] = sdk.ErrorRecord{Error: nil}
		case "multi0":
			out[0] = sdk.MultiRecord{}
		case "multi1":
			out[0] = sdk.MultiRecord{recs[0].Clone()}
		case "short":
			// drop a pseudo-random, non-empty tail of the reply (at least one
			// result stays): the first unresolved record may be followed by any
			// number of further records
			if len(out) > 1 {
				keep := 1 + int(H(s.st.Script.Seed, "short", len(out), recs[0].Position)%uint64(len(out)-1))
				out = out[:keep]
			}
		}
	}
	s.st.p.Log.Append(e)
	return out
}

// Procs is the fake processor plugin service behind the real processor.Service.
type Procs struct {
	Log *Log
	mu  sync.Mutex
	st  map[string]*ProcState
	// NewErr: processor id -> error from NewProcessor.
	NewErr map[string]string
}

// SetNewErr makes NewProcessor fail for the processor (msg == "" clears it).
func (p *Procs) SetNewErr(id, msg string) {
	p.mu.Lock()
	defer p.mu.Unlock()
	if p.NewErr == nil {
		p.NewErr = map[string]string{}
	}
	if msg == "" {
		delete(p.NewErr, id)
	} else {
		p.NewErr[id] = msg
	}
}

func NewProcs(l *Log) *Procs { return &Procs{Log: l, st: map[string]*ProcState{}} }

func (p *Procs) Proc(id string) *ProcState {
	p.mu.Lock()
	defer p.mu.Unlock()
	st, ok := p.st[id]
	if !ok {
		st = &ProcState{ID: id, p: p}
		p.st[id] = st
	}
	return st
}

func (p *Procs) NewProcessor(_ context.Context, pluginName string, id string, _ egress.Policy) (sdk.Processor, error) {
	p.mu.Lock()
	msg, bad := p.NewErr[id]
	p.mu.Unlock()
	if bad {
		p.Log.Append(Ev{Kind: KNote, Comp: id, Role: "proc", Note: "NewProcessor fails", Err: msg})
		return nil, errors.New(msg)
	}
	st := p.Proc(id)
	st.mu.Lock()
	st.sessions++
	n := st.sessions
	st.mu.Unlock()
	return &procSession{st: st, sess: n, attempts: map[string]int{}}, nil
}

func (p *Procs) List(context.Context) (map[string]sdk.Specification, error) {
	return map[string]sdk.Specification{ProcPluginName: {Name: ProcPluginName, Version: "v0.0.0"}}, nil
}

func (p *Procs) RegisterStandalonePlugin(context.Context, string) (string, error) {
	return "", errors.New("not supported")
}
