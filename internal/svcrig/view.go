package svcrig

import (
	"context"
	"encoding/json"
	"fmt"
	"sort"
	"strings"
	"time"

	"github.com/conduitio/conduit/pkg/connector"
	"github.com/conduitio/conduit/pkg/pipeline"
	"github.com/conduitio/conduit/pkg/processor"
)

// State is a deep, comparable copy of everything the three services expose
// through List: all exported fields of every instance plus the pipeline status.
type State struct {
	Pipelines  map[string]PipelineView  `json:"pipelines"`
	Connectors map[string]ConnectorView `json:"connectors"`
	Processors map[string]ProcessorView `json:"processors"`
}

type PipelineView struct {
	ID            string            `json:"id"`
	Name          string            `json:"name"`
	Description   string            `json:"description,omitempty"`
	Error         string            `json:"error,omitempty"`
	Status        string            `json:"status"`
	ProvisionedBy int               `json:"provisioned_by"`
	DLQPlugin     string            `json:"dlq_plugin"`
	DLQSettings   map[string]string `json:"dlq_settings,omitempty"`
	DLQWindow     int               `json:"dlq_window"`
	DLQNack       int               `json:"dlq_nack"`
	ConnectorIDs  []string          `json:"connector_ids,omitempty"`
	ProcessorIDs  []string          `json:"processor_ids,omitempty"`
	CreatedAt     time.Time         `json:"created_at"`
	UpdatedAt     time.Time         `json:"updated_at"`
}

type ConnectorView struct {
	ID                 string            `json:"id"`
	Type               int               `json:"type"`
	Name               string            `json:"name"`
	Settings           map[string]string `json:"settings,omitempty"`
	PipelineID         string            `json:"pipeline_id"`
	Plugin             string            `json:"plugin"`
	ProcessorIDs       []string          `json:"processor_ids,omitempty"`
	State              string            `json:"state,omitempty"` // canonical JSON of Instance.State, "" for nil
	ProvisionedBy      int               `json:"provisioned_by"`
	LastActiveName     string            `json:"last_active_name,omitempty"`
	LastActiveSettings map[string]string `json:"last_active_settings,omitempty"`
	CreatedAt          time.Time         `json:"created_at"`
	UpdatedAt          time.Time         `json:"updated_at"`
}

type ProcessorView struct {
	ID            string            `json:"id"`
	Plugin        string            `json:"plugin"`
	Condition     string            `json:"condition,omitempty"`
	ParentID      string            `json:"parent_id"`
	ParentType    int               `json:"parent_type"`
	Settings      map[string]string `json:"settings,omitempty"`
	Workers       int               `json:"workers"`
	ProvisionedBy int               `json:"provisioned_by"`
	CreatedAt     time.Time         `json:"created_at"`
	UpdatedAt     time.Time         `json:"updated_at"`
}

func copyMap(m map[string]string) map[string]string {
	if len(m) == 0 {
		return nil
	}
	out := make(map[string]string, len(m))
	for k, v := range m {
		out[k] = v
	}
	return out
}

func copyStrs(s []string) []string {
	if len(s) == 0 {
		return nil
	}
	return append([]string(nil), s...)
}

// Lister is what Observe needs; both the services and the orchestrator's
// sub-orchestrators satisfy the respective parts.
type (
	PipelineLister interface {
		List(context.Context) map[string]*pipeline.Instance
	}
	ConnectorLister interface {
		List(context.Context) map[string]*connector.Instance
	}
	ProcessorLister interface {
		List(context.Context) map[string]*processor.Instance
	}
)

// Observe lists everything through the management API (the orchestrator's List
// methods) and deep-copies it.
func (r *Rig) Observe(ctx context.Context) State {
	return ObserveFrom(ctx, r.Orc.Pipelines, r.Orc.Connectors, r.Orc.Processors)
}

func ObserveFrom(ctx context.Context, pls PipelineLister, conns ConnectorLister, procs ProcessorLister) State {
	st := State{
		Pipelines:  map[string]PipelineView{},
		Connectors: map[string]ConnectorView{},
		Processors: map[string]ProcessorView{},
	}
	for key, p := range pls.List(ctx) {
		v := ViewPipeline(p)
		st.Pipelines[key] = v
	}
	for key, c := range conns.List(ctx) {
		st.Connectors[key] = ViewConnector(c)
	}
	for key, p := range procs.List(ctx) {
		st.Processors[key] = ViewProcessor(p)
	}
	return st
}

func ViewPipeline(p *pipeline.Instance) PipelineView {
	return PipelineView{
		ID: p.ID, Name: p.Config.Name, Description: p.Config.Description, Error: p.Error,
		Status: p.GetStatus().String(), ProvisionedBy: int(p.ProvisionedBy),
		DLQPlugin: p.DLQ.Plugin, DLQSettings: copyMap(p.DLQ.Settings),
		DLQWindow: p.DLQ.WindowSize, DLQNack: p.DLQ.WindowNackThreshold,
		ConnectorIDs: copyStrs(p.ConnectorIDs), ProcessorIDs: copyStrs(p.ProcessorIDs),
		CreatedAt: p.CreatedAt, UpdatedAt: p.UpdatedAt,
	}
}

func ViewConnector(c *connector.Instance) ConnectorView {
	c.RLock()
	defer c.RUnlock()
	state := ""
	if c.State != nil {
		b, err := json.Marshal(c.State)
		if err != nil {
			state = "unmarshalable:" + err.Error()
		} else {
			state = string(b)
		}
	}
	return ConnectorView{
		ID: c.ID, Type: int(c.Type), Name: c.Config.Name, Settings: copyMap(c.Config.Settings),
		PipelineID: c.PipelineID, Plugin: c.Plugin, ProcessorIDs: copyStrs(c.ProcessorIDs),
		State: state, ProvisionedBy: int(c.ProvisionedBy),
		LastActiveName: c.LastActiveConfig.Name, LastActiveSettings: copyMap(c.LastActiveConfig.Settings),
		CreatedAt: c.CreatedAt, UpdatedAt: c.UpdatedAt,
	}
}

func ViewProcessor(p *processor.Instance) ProcessorView {
	return ProcessorView{
		ID: p.ID, Plugin: p.Plugin, Condition: p.Condition,
		ParentID: p.Parent.ID, ParentType: int(p.Parent.Type),
		Settings: copyMap(p.Config.Settings), Workers: p.Config.Workers,
		ProvisionedBy: int(p.ProvisionedBy), CreatedAt: p.CreatedAt, UpdatedAt: p.UpdatedAt,
	}
}

// Clone returns a deep copy.
func (s State) Clone() State {
	out := State{
		Pipelines:  make(map[string]PipelineView, len(s.Pipelines)),
		Connectors: make(map[string]ConnectorView, len(s.Connectors)),
		Processors: make(map[string]ProcessorView, len(s.Processors)),
	}
	for k, v := range s.Pipelines {
		v.DLQSettings = copyMap(v.DLQSettings)
		v.ConnectorIDs = copyStrs(v.ConnectorIDs)
		v.ProcessorIDs = copyStrs(v.ProcessorIDs)
		out.Pipelines[k] = v
	}
	for k, v := range s.Connectors {
		v.Settings = copyMap(v.Settings)
		v.LastActiveSettings = copyMap(v.LastActiveSettings)
		v.ProcessorIDs = copyStrs(v.ProcessorIDs)
		out.Connectors[k] = v
	}
	for k, v := range s.Processors {
		v.Settings = copyMap(v.Settings)
		out.Processors[k] = v
	}
	return out
}

// AsRestarted returns the state a restarted server is documented to show for
// this live state: pipeline.Service.Init turns a persisted Running status into
// SystemStopped; everything else is loaded as stored.
func (s State) AsRestarted() State {
	out := s.Clone()
	for k, v := range out.Pipelines {
		if v.Status == pipeline.StatusRunning.String() {
			v.Status = pipeline.StatusSystemStopped.String()
			out.Pipelines[k] = v
		}
	}
	return out
}

// Difference is one field-level (or existence-level) difference between two
// states. Kind never contains ids, e.g. "pipeline.ConnectorIDs:extra-id",
// "connector:missing", "connector.State".
type Difference struct {
	Kind   string `json:"kind"`
	ID     string `json:"id"`
	Want   string `json:"want,omitempty"`
	Got    string `json:"got,omitempty"`
	IsTime bool   `json:"is_time,omitempty"`
}

func (d Difference) String() string {
	return fmt.Sprintf("%s[%s]: want %s, got %s", d.Kind, d.ID, d.Want, d.Got)
}

func mapsEqual(a, b map[string]string) bool {
	if len(a) != len(b) {
		return false
	}
	for k, v := range a {
		if w, ok := b[k]; !ok || v != w {
			return false
		}
	}
	return true
}

func fmtMap(m map[string]string) string {
	keys := make([]string, 0, len(m))
	for k := range m {
		keys = append(keys, k)
	}
	sort.Strings(keys)
	var b strings.Builder
	b.WriteByte('{')
	for i, k := range keys {
		if i > 0 {
			b.WriteByte(',')
		}
		fmt.Fprintf(&b, "%s:%s", k, m[k])
	}
	b.WriteByte('}')
	return b.String()
}

// diffIDs classifies the difference of two id lists.
func diffIDs(kind, id string, want, got []string) []Difference {
	if len(want) == len(got) {
		same := true
		for i := range want {
			if want[i] != got[i] {
				same = false
				break
			}
		}
		if same {
			return nil
		}
	}
	count := func(s []string) map[string]int {
		m := map[string]int{}
		for _, x := range s {
			m[x]++
		}
		return m
	}
	wc, gc := count(want), count(got)
	var out []Difference
	extra, missing := false, false
	for x, n := range gc {
		if n > wc[x] {
			extra = true
		}
	}
	for x, n := range wc {
		if n > gc[x] {
			missing = true
		}
	}
	ws, gs := fmt.Sprint(want), fmt.Sprint(got)
	if extra {
		out = append(out, Difference{Kind: kind + ":extra-id", ID: id, Want: ws, Got: gs})
	}
	if missing {
		out = append(out, Difference{Kind: kind + ":missing-id", ID: id, Want: ws, Got: gs})
	}
	if !extra && !missing {
		out = append(out, Difference{Kind: kind + ":reordered", ID: id, Want: ws, Got: gs})
	}
	return out
}

// Diff reports how got differs from want. nil and empty slices/maps are
// equal. Times are compared as instants; time differences are marked IsTime so
// that callers can exclude them.
func Diff(want, got State) []Difference {
	var out []Difference
	str := func(kind, id, w, g string) {
		if w != g {
			out = append(out, Difference{Kind: kind, ID: id, Want: w, Got: g})
		}
	}
	num := func(kind, id string, w, g int) {
		if w != g {
			out = append(out, Difference{Kind: kind, ID: id, Want: fmt.Sprint(w), Got: fmt.Sprint(g)})
		}
	}
	tm := func(kind, id string, w, g time.Time) {
		if !w.Equal(g) {
			out = append(out, Difference{Kind: kind, ID: id, Want: w.Format(time.RFC3339Nano), Got: g.Format(time.RFC3339Nano), IsTime: true})
		}
	}

	for _, id := range sortedKeys(want.Pipelines) {
		w := want.Pipelines[id]
		g, ok := got.Pipelines[id]
		if !ok {
			out = append(out, Difference{Kind: "pipeline:missing", ID: id, Want: "present", Got: "absent"})
			continue
		}
		str("pipeline.ID", id, w.ID, g.ID)
		if w.Name != g.Name || w.Description != g.Description {
			out = append(out, Difference{Kind: "pipeline.Config", ID: id, Want: w.Name + "/" + w.Description, Got: g.Name + "/" + g.Description})
		}
		str("pipeline.Error", id, w.Error, g.Error)
		str("pipeline.Status", id, w.Status, g.Status)
		num("pipeline.ProvisionedBy", id, w.ProvisionedBy, g.ProvisionedBy)
		if w.DLQPlugin != g.DLQPlugin || w.DLQWindow != g.DLQWindow || w.DLQNack != g.DLQNack || !mapsEqual(w.DLQSettings, g.DLQSettings) {
			out = append(out, Difference{Kind: "pipeline.DLQ", ID: id,
				Want: fmt.Sprintf("%s %s %d/%d", w.DLQPlugin, fmtMap(w.DLQSettings), w.DLQWindow, w.DLQNack),
				Got:  fmt.Sprintf("%s %s %d/%d", g.DLQPlugin, fmtMap(g.DLQSettings), g.DLQWindow, g.DLQNack)})
		}
		out = append(out, diffIDs("pipeline.ConnectorIDs", id, w.ConnectorIDs, g.ConnectorIDs)...)
		out = append(out, diffIDs("pipeline.ProcessorIDs", id, w.ProcessorIDs, g.ProcessorIDs)...)
		tm("pipeline.CreatedAt", id, w.CreatedAt, g.CreatedAt)
		tm("pipeline.UpdatedAt", id, w.UpdatedAt, g.UpdatedAt)
	}
	for _, id := range sortedKeys(got.Pipelines) {
		if _, ok := want.Pipelines[id]; !ok {
			out = append(out, Difference{Kind: "pipeline:extra", ID: id, Want: "absent", Got: "present"})
		}
	}

	for _, id := range sortedKeys(want.Connectors) {
		w := want.Connectors[id]
		g, ok := got.Connectors[id]
		if !ok {
			out = append(out, Difference{Kind: "connector:missing", ID: id, Want: "present", Got: "absent"})
			continue
		}
		str("connector.ID", id, w.ID, g.ID)
		num("connector.Type", id, w.Type, g.Type)
		if w.Name != g.Name || !mapsEqual(w.Settings, g.Settings) {
			out = append(out, Difference{Kind: "connector.Config", ID: id, Want: w.Name + " " + fmtMap(w.Settings), Got: g.Name + " " + fmtMap(g.Settings)})
		}
		str("connector.PipelineID", id, w.PipelineID, g.PipelineID)
		str("connector.Plugin", id, w.Plugin, g.Plugin)
		out = append(out, diffIDs("connector.ProcessorIDs", id, w.ProcessorIDs, g.ProcessorIDs)...)
		str("connector.State", id, w.State, g.State)
		num("connector.ProvisionedBy", id, w.ProvisionedBy, g.ProvisionedBy)
		if w.LastActiveName != g.LastActiveName || !mapsEqual(w.LastActiveSettings, g.LastActiveSettings) {
			out = append(out, Difference{Kind: "connector.LastActiveConfig", ID: id,
				Want: w.LastActiveName + " " + fmtMap(w.LastActiveSettings), Got: g.LastActiveName + " " + fmtMap(g.LastActiveSettings)})
		}
		tm("connector.CreatedAt", id, w.CreatedAt, g.CreatedAt)
		tm("connector.UpdatedAt", id, w.UpdatedAt, g.UpdatedAt)
	}
	for _, id := range sortedKeys(got.Connectors) {
		if _, ok := want.Connectors[id]; !ok {
			out = append(out, Difference{Kind: "connector:extra", ID: id, Want: "absent", Got: "present"})
		}
	}

	for _, id := range sortedKeys(want.Processors) {
		w := want.Processors[id]
		g, ok := got.Processors[id]
		if !ok {
			out = append(out, Difference{Kind: "processor:missing", ID: id, Want: "present", Got: "absent"})
			continue
		}
		str("processor.ID", id, w.ID, g.ID)
		str("processor.Plugin", id, w.Plugin, g.Plugin)
		str("processor.Condition", id, w.Condition, g.Condition)
		if w.ParentID != g.ParentID || w.ParentType != g.ParentType {
			out = append(out, Difference{Kind: "processor.Parent", ID: id, Want: fmt.Sprintf("%d:%s", w.ParentType, w.ParentID), Got: fmt.Sprintf("%d:%s", g.ParentType, g.ParentID)})
		}
		if w.Workers != g.Workers || !mapsEqual(w.Settings, g.Settings) {
			out = append(out, Difference{Kind: "processor.Config", ID: id, Want: fmt.Sprintf("%d %s", w.Workers, fmtMap(w.Settings)), Got: fmt.Sprintf("%d %s", g.Workers, fmtMap(g.Settings))})
		}
		num("processor.ProvisionedBy", id, w.ProvisionedBy, g.ProvisionedBy)
		tm("processor.CreatedAt", id, w.CreatedAt, g.CreatedAt)
		tm("processor.UpdatedAt", id, w.UpdatedAt, g.UpdatedAt)
	}
	for _, id := range sortedKeys(got.Processors) {
		if _, ok := want.Processors[id]; !ok {
			out = append(out, Difference{Kind: "processor:extra", ID: id, Want: "absent", Got: "present"})
		}
	}
	return out
}

// Closure checks that cross references are closed both ways: every id in a
// pipeline's ConnectorIDs/ProcessorIDs exists with that pipeline as parent and
// every connector/processor is listed exactly once by the parent it names; the
// same for a connector's ProcessorIDs. The returned kinds contain no ids.
func Closure(s State) []Difference {
	var out []Difference
	add := func(kind, id, detail string) {
		out = append(out, Difference{Kind: kind, ID: id, Got: detail})
	}
	for _, pid := range sortedKeys(s.Pipelines) {
		p := s.Pipelines[pid]
		seen := map[string]bool{}
		for _, cid := range p.ConnectorIDs {
			if seen[cid] {
				add("pipeline.ConnectorIDs->duplicate-id", pid, cid)
			}
			seen[cid] = true
			c, ok := s.Connectors[cid]
			if !ok {
				add("pipeline.ConnectorIDs->connector-does-not-exist", pid, cid)
			} else if c.PipelineID != pid {
				add("pipeline.ConnectorIDs->connector-has-other-pipeline", pid, cid)
			}
		}
		seen = map[string]bool{}
		for _, prid := range p.ProcessorIDs {
			if seen[prid] {
				add("pipeline.ProcessorIDs->duplicate-id", pid, prid)
			}
			seen[prid] = true
			pr, ok := s.Processors[prid]
			if !ok {
				add("pipeline.ProcessorIDs->processor-does-not-exist", pid, prid)
			} else if pr.ParentType != int(processor.ParentTypePipeline) || pr.ParentID != pid {
				add("pipeline.ProcessorIDs->processor-has-other-parent", pid, prid)
			}
		}
	}
	for _, cid := range sortedKeys(s.Connectors) {
		c := s.Connectors[cid]
		p, ok := s.Pipelines[c.PipelineID]
		if !ok {
			add("connector.PipelineID->pipeline-does-not-exist", cid, c.PipelineID)
		} else if !contains(p.ConnectorIDs, cid) {
			add("connector.PipelineID->pipeline-does-not-list-connector", cid, c.PipelineID)
		}
		seen := map[string]bool{}
		for _, prid := range c.ProcessorIDs {
			if seen[prid] {
				add("connector.ProcessorIDs->duplicate-id", cid, prid)
			}
			seen[prid] = true
			pr, ok := s.Processors[prid]
			if !ok {
				add("connector.ProcessorIDs->processor-does-not-exist", cid, prid)
			} else if pr.ParentType != int(processor.ParentTypeConnector) || pr.ParentID != cid {
				add("connector.ProcessorIDs->processor-has-other-parent", cid, prid)
			}
		}
	}
	for _, prid := range sortedKeys(s.Processors) {
		pr := s.Processors[prid]
		switch pr.ParentType {
		case int(processor.ParentTypePipeline):
			p, ok := s.Pipelines[pr.ParentID]
			if !ok {
				add("processor.Parent->pipeline-does-not-exist", prid, pr.ParentID)
			} else if !contains(p.ProcessorIDs, prid) {
				add("processor.Parent->pipeline-does-not-list-processor", prid, pr.ParentID)
			}
		case int(processor.ParentTypeConnector):
			c, ok := s.Connectors[pr.ParentID]
			if !ok {
				add("processor.Parent->connector-does-not-exist", prid, pr.ParentID)
			} else if !contains(c.ProcessorIDs, prid) {
				add("processor.Parent->connector-does-not-list-processor", prid, pr.ParentID)
			}
		default:
			add("processor.Parent->invalid-parent-type", prid, fmt.Sprint(pr.ParentType))
		}
	}
	return out
}

func contains(s []string, x string) bool {
	for _, y := range s {
		if y == x {
			return true
		}
	}
	return false
}

func sortedKeys[V any](m map[string]V) []string {
	out := make([]string, 0, len(m))
	for k := range m {
		out = append(out, k)
	}
	sort.Strings(out)
	return out
}

// SortedKeys is exported for deterministic choice among map keys.
func SortedKeys[V any](m map[string]V) []string { return sortedKeys(m) }
