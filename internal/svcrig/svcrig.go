// Package svcrig is a small service-level rig: it wires the REAL
// pipeline.Service, connector.Service (+ connector.Persister),
// processor.Service and orchestrator.Orchestrator over a caller-supplied
// database.DB exactly the way pkg/conduit/runtime.go createServices does, with
// fakes only at the process boundary (connector plugins, processor plugins,
// pipeline lifecycle).
//
// Nothing in here judges anything; it is shared plumbing for the control-plane
// checks (C14, and reusable by C15/C17).
//
//	db  := faultdb.New(&inmemory.DB{})
//	rig := svcrig.New(db, svcrig.Options{})
//	_ = rig.Init(ctx)                     // processor -> connector -> pipeline, as the runtime does
//	rig.Orc.Pipelines.Create(ctx, ...)    // the management API
//	rig.Pipelines / rig.Connectors / ...  // the services, for direct (file-provisioning style) calls
//	fresh := svcrig.New(otherDB, ...)     // "restarted server": Init on a copy of the store
package svcrig

import (
	"context"
	"fmt"
	"sort"
	"sync"
	"time"

	"github.com/conduitio/conduit-commons/database"
	"github.com/conduitio/conduit-commons/opencdc"
	"github.com/conduitio/conduit-connector-protocol/pconnector"
	sdk "github.com/conduitio/conduit-processor-sdk"
	"github.com/conduitio/conduit/pkg/connector"
	"github.com/conduitio/conduit/pkg/foundation/log"
	"github.com/conduitio/conduit/pkg/orchestrator"
	"github.com/conduitio/conduit/pkg/pipeline"
	connectorPlugin "github.com/conduitio/conduit/pkg/plugin/connector"
	"github.com/conduitio/conduit/pkg/plugin/processor/egress"
	"github.com/conduitio/conduit/pkg/processor"
)

// Plugin names the fakes know. Anything else is "unknown plugin".
const (
	ConnPluginA = "builtin:fake-a"
	ConnPluginB = "builtin:fake-b"
	ProcPluginA = "builtin:fakeproc-a"
	ProcPluginB = "builtin:fakeproc-b"

	// InvalidSettingKey makes the fake connector plugin's config validation
	// fail when present in the settings.
	InvalidSettingKey = "invalid"
)

type Options struct {
	// Logger defaults to log.Nop().
	Logger *log.CtxLogger
	// PersisterDelay / PersisterBundle default to 1ms / 1 (flush on every
	// Persist call; callers still have to WaitPersisted before reading the store).
	PersisterDelay  time.Duration
	PersisterBundle int
}

// Rig holds the real services and the fakes they were built with.
type Rig struct {
	DB     database.DB
	Logger log.CtxLogger

	Pipelines  *pipeline.Service
	Persister  *connector.Persister
	Connectors *connector.Service
	Processors *processor.Service
	Orc        *orchestrator.Orchestrator

	ConnPlugins *FakeConnectorPlugins
	ProcPlugins *FakeProcessorPlugins
	Lifecycle   *FakeLifecycle
}

// New constructs the services over db. Init is NOT called.
func New(db database.DB, opt Options) *Rig {
	logger := log.Nop()
	if opt.Logger != nil {
		logger = *opt.Logger
	}
	if opt.PersisterDelay == 0 {
		opt.PersisterDelay = time.Millisecond
	}
	if opt.PersisterBundle == 0 {
		opt.PersisterBundle = 1
	}
	r := &Rig{DB: db, Logger: logger}
	r.ConnPlugins = NewFakeConnectorPlugins()
	r.ProcPlugins = NewFakeProcessorPlugins()

	r.Persister = connector.NewPersister(logger, db, opt.PersisterDelay, opt.PersisterBundle)
	r.Pipelines = pipeline.NewService(logger, db)
	r.Connectors = connector.NewService(logger, db, r.Persister)
	r.Processors = processor.NewService(logger, db, r.ProcPlugins)
	r.Lifecycle = &FakeLifecycle{rig: r}
	r.Orc = orchestrator.NewOrchestrator(db, logger, r.Pipelines, r.Connectors, r.Processors, r.ConnPlugins, r.ProcPlugins, r.Lifecycle)
	return r
}

// Init initialises the services from the store in the runtime's order
// (processors, connectors, pipelines).
func (r *Rig) Init(ctx context.Context) error {
	if err := r.Processors.Init(ctx); err != nil {
		return fmt.Errorf("processor service init: %w", err)
	}
	if err := r.Connectors.Init(ctx); err != nil {
		return fmt.Errorf("connector service init: %w", err)
	}
	if err := r.Pipelines.Init(ctx); err != nil {
		return fmt.Errorf("pipeline service init: %w", err)
	}
	return nil
}

// PersistConnector does what a running connector does when its position or
// active config changes: hand the instance to the shared Persister, then wait
// until the flush (and its callback) has completed. It returns the error the
// persist callback received.
func (r *Rig) PersistConnector(ctx context.Context, conn *connector.Instance) error {
	done := make(chan error, 1)
	if err := r.Persister.Persist(ctx, conn, func(err error) { done <- err }); err != nil {
		return err
	}
	r.Persister.Flush(ctx)
	r.Persister.WaitPendingWrites()
	select {
	case err := <-done:
		return err
	case <-time.After(30 * time.Second):
		return fmt.Errorf("svcrig: persist callback of connector %s never ran", conn.ID)
	}
}

// ---------------------------------------------------------------------------
// fake lifecycle service

// FakeLifecycle implements orchestrator.LifecycleService without running
// anything: Start marks the pipeline running (pipeline.Service.UpdateStatus) and
// lets every connector of the pipeline record an active config and a position
// through the real Persister, as a started connector would; Stop marks it
// user-stopped. Both fail for unknown pipelines / wrong current status like the
// real services do.
type FakeLifecycle struct {
	rig *Rig
	seq int
	// Progress, if false, makes Start only flip the status.
	NoProgress bool
}

func (l *FakeLifecycle) Start(ctx context.Context, pipelineID string) error {
	pl, err := l.rig.Pipelines.Get(ctx, pipelineID)
	if err != nil {
		return err
	}
	if pl.GetStatus() == pipeline.StatusRunning {
		return pipeline.ErrPipelineRunning
	}
	if err := l.rig.Pipelines.UpdateStatus(ctx, pipelineID, pipeline.StatusRunning, ""); err != nil {
		return err
	}
	if l.NoProgress {
		return nil
	}
	var firstSource string
	for _, id := range pl.ConnectorIDs {
		conn, err := l.rig.Connectors.Get(ctx, id)
		if err != nil {
			continue
		}
		if conn.Type == connector.TypeSource && firstSource == "" {
			firstSource = conn.ID
		}
	}
	for _, id := range pl.ConnectorIDs {
		conn, err := l.rig.Connectors.Get(ctx, id)
		if err != nil {
			continue
		}
		l.seq++
		pos := opencdc.Position(fmt.Sprintf("pos-%d", l.seq))
		conn.Lock()
		conn.LastActiveConfig = conn.Config
		switch conn.Type {
		case connector.TypeSource:
			conn.State = connector.SourceState{Position: pos}
		case connector.TypeDestination:
			src := firstSource
			if src == "" {
				src = "unknown-source"
			}
			conn.State = connector.DestinationState{Positions: map[string]opencdc.Position{src: pos}}
		}
		conn.Unlock()
		if err := l.rig.PersistConnector(ctx, conn); err != nil {
			return err
		}
	}
	return nil
}

func (l *FakeLifecycle) Stop(ctx context.Context, pipelineID string, _ bool) error {
	pl, err := l.rig.Pipelines.Get(ctx, pipelineID)
	if err != nil {
		return err
	}
	if pl.GetStatus() != pipeline.StatusRunning {
		return pipeline.ErrPipelineNotRunning
	}
	return l.rig.Pipelines.UpdateStatus(ctx, pipelineID, pipeline.StatusUserStopped, "")
}

// ---------------------------------------------------------------------------
// fake connector plugin service

// FakeConnectorPlugins implements orchestrator.ConnectorPluginService (and
// connector.PluginDispenserFetcher). Known plugins: ConnPluginA, ConnPluginB.
// Validation fails for unknown plugins and for settings containing
// InvalidSettingKey. Dispensed plugins only support what connector deletion
// needs (LifecycleOnDeleted, Teardown) and record those calls.
type FakeConnectorPlugins struct {
	mu sync.Mutex
	// OnDeleted counts LifecycleOnDeleted calls per connector id.
	OnDeleted map[string]int
}

func NewFakeConnectorPlugins() *FakeConnectorPlugins {
	return &FakeConnectorPlugins{OnDeleted: map[string]int{}}
}

func knownConnPlugin(name string) bool { return name == ConnPluginA || name == ConnPluginB }

func (f *FakeConnectorPlugins) List(context.Context) (map[string]pconnector.Specification, error) {
	return map[string]pconnector.Specification{
		ConnPluginA: {Name: ConnPluginA, Version: "v0.0.1"},
		ConnPluginB: {Name: ConnPluginB, Version: "v0.0.1"},
	}, nil
}

func (f *FakeConnectorPlugins) validate(name string, settings map[string]string) error {
	if !knownConnPlugin(name) {
		return fmt.Errorf("fake connector plugin %q not found", name)
	}
	if _, bad := settings[InvalidSettingKey]; bad {
		return fmt.Errorf("fake connector plugin %q: setting %q is not allowed", name, InvalidSettingKey)
	}
	return nil
}

func (f *FakeConnectorPlugins) ValidateSourceConfig(_ context.Context, name string, settings map[string]string) error {
	return f.validate(name, settings)
}

func (f *FakeConnectorPlugins) ValidateDestinationConfig(_ context.Context, name string, settings map[string]string) error {
	return f.validate(name, settings)
}

func (f *FakeConnectorPlugins) NewDispenser(_ log.CtxLogger, name string, connectorID string) (connectorPlugin.Dispenser, error) {
	if !knownConnPlugin(name) {
		return nil, fmt.Errorf("fake connector plugin %q not found", name)
	}
	return &fakeDispenser{f: f, connID: connectorID}, nil
}

// DeletedEvents returns a sorted copy of the connector ids that received
// LifecycleOnDeleted.
func (f *FakeConnectorPlugins) DeletedEvents() []string {
	f.mu.Lock()
	defer f.mu.Unlock()
	var out []string
	for id, n := range f.OnDeleted {
		for i := 0; i < n; i++ {
			out = append(out, id)
		}
	}
	sort.Strings(out)
	return out
}

type fakeDispenser struct {
	f      *FakeConnectorPlugins
	connID string
}

func (d *fakeDispenser) DispenseSpecifier() (connectorPlugin.SpecifierPlugin, error) {
	return nil, fmt.Errorf("svcrig: specifier plugin not supported by the fake")
}

func (d *fakeDispenser) DispenseSource() (connectorPlugin.SourcePlugin, error) {
	return &fakeSource{d: d}, nil
}

func (d *fakeDispenser) DispenseDestination() (connectorPlugin.DestinationPlugin, error) {
	return &fakeDestination{d: d}, nil
}

func (d *fakeDispenser) deleted() {
	d.f.mu.Lock()
	d.f.OnDeleted[d.connID]++
	d.f.mu.Unlock()
}

// fakeSource implements only the calls connector deletion makes; anything else
// panics on the nil embedded interface (it must not be reached by the rig).
type fakeSource struct {
	connectorPlugin.SourcePlugin
	d *fakeDispenser
}

func (s *fakeSource) LifecycleOnDeleted(context.Context, pconnector.SourceLifecycleOnDeletedRequest) (pconnector.SourceLifecycleOnDeletedResponse, error) {
	s.d.deleted()
	return pconnector.SourceLifecycleOnDeletedResponse{}, nil
}

func (s *fakeSource) Teardown(context.Context, pconnector.SourceTeardownRequest) (pconnector.SourceTeardownResponse, error) {
	return pconnector.SourceTeardownResponse{}, nil
}

type fakeDestination struct {
	connectorPlugin.DestinationPlugin
	d *fakeDispenser
}

func (s *fakeDestination) LifecycleOnDeleted(context.Context, pconnector.DestinationLifecycleOnDeletedRequest) (pconnector.DestinationLifecycleOnDeletedResponse, error) {
	s.d.deleted()
	return pconnector.DestinationLifecycleOnDeletedResponse{}, nil
}

func (s *fakeDestination) Teardown(context.Context, pconnector.DestinationTeardownRequest) (pconnector.DestinationTeardownResponse, error) {
	return pconnector.DestinationTeardownResponse{}, nil
}

// ---------------------------------------------------------------------------
// fake processor plugin service

// FakeProcessorPlugins implements processor.PluginService and
// orchestrator.ProcessorPluginService. Known plugins: ProcPluginA, ProcPluginB;
// they pass records through unchanged.
type FakeProcessorPlugins struct{}

func NewFakeProcessorPlugins() *FakeProcessorPlugins { return &FakeProcessorPlugins{} }

func knownProcPlugin(name string) bool { return name == ProcPluginA || name == ProcPluginB }

func (f *FakeProcessorPlugins) NewProcessor(_ context.Context, pluginName string, _ string, _ egress.Policy) (sdk.Processor, error) {
	if !knownProcPlugin(pluginName) {
		return nil, fmt.Errorf("fake processor plugin %q not found", pluginName)
	}
	return &passthroughProcessor{name: pluginName}, nil
}

func (f *FakeProcessorPlugins) List(context.Context) (map[string]sdk.Specification, error) {
	return map[string]sdk.Specification{
		ProcPluginA: {Name: ProcPluginA, Version: "v0.0.1"},
		ProcPluginB: {Name: ProcPluginB, Version: "v0.0.1"},
	}, nil
}

func (f *FakeProcessorPlugins) RegisterStandalonePlugin(context.Context, string) (string, error) {
	return "", fmt.Errorf("svcrig: standalone processor plugins not supported by the fake")
}

type passthroughProcessor struct {
	sdk.UnimplementedProcessor
	name string
}

func (p *passthroughProcessor) Specification() (sdk.Specification, error) {
	return sdk.Specification{Name: p.name, Version: "v0.0.1"}, nil
}

func (p *passthroughProcessor) Process(_ context.Context, recs []opencdc.Record) []sdk.ProcessedRecord {
	out := make([]sdk.ProcessedRecord, len(recs))
	for i, r := range recs {
		out[i] = sdk.SingleRecord(r)
	}
	return out
}
