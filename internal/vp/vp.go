// Package vp is the shared driver discipline of every check in /verif:
// fixed case lists derived from VERIF_SEED, child processes per batch of
// cases, a journal that attributes a dying child to its in-flight case,
// three-valued verdicts, known-findings matching, evidence and replay files.
package vp

import (
	"bufio"
	"crypto/sha256"
	"encoding/hex"
	"encoding/json"
	"fmt"
	"os"
	"os/exec"
	"path/filepath"
	"sort"
	"strconv"
	"strings"
	"sync"
	"time"
)

// Violation is one refuting observation.
type Violation struct {
	Property string `json:"property"`
	// Class is the kind of refutation (e.g. "ack-before-confirm").
	Class string `json:"class"`
	// Identity is the stable, specific identity used to match the committed
	// known-findings file: property/class/engine/site-or-input-shape. Two
	// different defects must never share an identity.
	Identity string `json:"identity"`
	Detail   string `json:"detail"`
	Case     any    `json:"case,omitempty"`
	Witness  any    `json:"witness,omitempty"`
}

// CaseResult is what one executed case reports back to the driver.
type CaseResult struct {
	Index int `json:"index"`
	// Sig is the signature used for distinct_nontrivial counting.
	Sig string `json:"sig"`
	// Nontrivial: the property's deciding path was actually exercised.
	Nontrivial   bool                `json:"nontrivial"`
	Violations   []Violation         `json:"violations,omitempty"`
	Inconclusive string              `json:"inconclusive,omitempty"`
	Stats        map[string]int64    `json:"stats,omitempty"`
	Sets         map[string][]string `json:"sets,omitempty"` // distinct-value sets merged across cases
	Sample       any                 `json:"sample,omitempty"`
}

// Prop is one property's check.
type Prop interface {
	ID() string
	Level() string // exploration | fault_enumeration
	Rule() string
	Assumptions() []string
	NumCases(tier string) int
	// RunCase executes case idx (deterministic in (seed, idx) as far as the
	// workload is concerned) in a worker child.
	RunCase(seed int64, tier string, idx int) CaseResult
	// CaseTimeout is the generous wall-clock watchdog of one case; firing is
	// inconclusive (or, for hang properties, a wedge candidate re-run alone).
	CaseTimeout() time.Duration
}

// AnchoredProp names the repo files whose frames attribute a race report to
// this property.
type AnchoredProp interface {
	AnchorFiles() []string
}

// DeathProp is implemented by properties for which a reproduced death of the
// worker process (panic, fatal error) while running a case is a violation of
// THAT property (C09: nothing a plugin returns may crash the engine). For every
// other property a dead worker only means the case could not be judged.
type DeathProp interface {
	DeathIsViolation() bool
}

// WedgeProp is implemented by properties for which a confirmed hang (case
// exceeds its watchdog twice, the second time alone in a fresh process) is a
// violation rather than inconclusive.
type WedgeProp interface {
	HangIsViolation() bool
}

// Finding is an entry of /verif/known-findings.json.
type Finding struct {
	Property string `json:"property"`
	Identity string `json:"identity"`
	Status   string `json:"status"` // "known" | "fixed"
	Commit   string `json:"commit,omitempty"`
	What     string `json:"what"`
}

type knownFile struct {
	Findings []Finding `json:"findings"`
}

func Root() string {
	if r := os.Getenv("VERIF_ROOT"); r != "" {
		return r
	}
	return "/verif"
}

func LoadKnown() []Finding {
	b, err := os.ReadFile(filepath.Join(Root(), "known-findings.json"))
	if err != nil {
		return nil
	}
	var k knownFile
	if err := json.Unmarshal(b, &k); err != nil {
		fmt.Fprintf(os.Stderr, "known-findings.json unreadable: %v\n", err)
		os.Exit(2)
	}
	return k.Findings
}

func Seed() int64 {
	s := os.Getenv("VERIF_SEED")
	if s == "" {
		return 1
	}
	n, err := strconv.ParseInt(s, 10, 64)
	if err != nil {
		return 1
	}
	return n
}

// ---------------------------------------------------------------------------
// worker side

type journalLine struct {
	Kind   string      `json:"kind"` // START | END
	Index  int         `json:"index"`
	Result *CaseResult `json:"result,omitempty"`
}

// Work runs cases [from,to) in this process and journals them.
func Work(p Prop, seed int64, tier string, indices []int, journal string) {
	f, err := os.OpenFile(journal, os.O_CREATE|os.O_WRONLY|os.O_APPEND, 0o644)
	if err != nil {
		fmt.Fprintln(os.Stderr, err)
		os.Exit(2)
	}
	w := bufio.NewWriter(f)
	emit := func(l journalLine) {
		b, _ := json.Marshal(l)
		w.Write(b)
		w.WriteByte('\n')
		w.Flush()
	}
	for _, i := range indices {
		emit(journalLine{Kind: "START", Index: i})
		done := make(chan CaseResult, 1)
		go func() {
			r := p.RunCase(seed, tier, i)
			r.Index = i
			done <- r
		}()
		select {
		case r := <-done:
			emit(journalLine{Kind: "END", Index: i, Result: &r})
		case <-time.After(p.CaseTimeout()):
			// Watchdog: dump goroutines to stderr and die; the driver
			// attributes it to the in-flight case.
			fmt.Fprintf(os.Stderr, "WATCHDOG case=%d timeout=%s\n", i, p.CaseTimeout())
			DumpGoroutines(os.Stderr)
			f.Close()
			os.Exit(97)
		}
	}
	f.Close()
}

// ---------------------------------------------------------------------------
// driver side

type Options struct {
	Parallel int
	Batch    int
	Race     bool
}

type agg struct {
	evals        int
	sigs         map[string]struct{}
	samples      []any
	stats        map[string]int64
	sets         map[string]map[string]struct{}
	violations   []Violation
	inconclusive []string
	crashed      []int
	hung         []int
	raceReports  []RaceReport
}

func (a *agg) add(r CaseResult) {
	a.evals++
	if r.Nontrivial && r.Sig != "" {
		a.sigs[r.Sig] = struct{}{}
	}
	if r.Sample != nil && len(a.samples) < 6 {
		a.samples = append(a.samples, r.Sample)
	}
	for k, v := range r.Stats {
		a.stats[k] += v
	}
	for k, vs := range r.Sets {
		m := a.sets[k]
		if m == nil {
			m = map[string]struct{}{}
			a.sets[k] = m
		}
		for _, v := range vs {
			m[v] = struct{}{}
		}
	}
	a.violations = append(a.violations, r.Violations...)
	if r.Inconclusive != "" {
		a.inconclusive = append(a.inconclusive, fmt.Sprintf("case %d: %s", r.Index, r.Inconclusive))
	}
}

// Drive runs the whole check and returns the process exit code.
func Drive(p Prop, tier string, opt Options) int {
	start := time.Now()
	seed := Seed()
	n := p.NumCases(tier)
	work := filepath.Join(Root(), ".work", p.ID()+"-"+tier)
	os.RemoveAll(work)
	os.MkdirAll(work, 0o755)
	// full histories of violating cases of the previous run of this check
	if old, _ := filepath.Glob(filepath.Join(Root(), "replays", "events", p.ID()+"-"+tier+"-*")); len(old) > 0 {
		for _, f := range old {
			os.Remove(f)
		}
	}
	if opt.Parallel <= 0 {
		opt.Parallel = 16
	}
	if opt.Batch <= 0 {
		opt.Batch = (n + opt.Parallel*4 - 1) / (opt.Parallel * 4)
		if opt.Batch < 1 {
			opt.Batch = 1
		}
	}
	a := &agg{sigs: map[string]struct{}{}, stats: map[string]int64{}, sets: map[string]map[string]struct{}{}}
	var mu sync.Mutex

	type batch struct{ idx []int }
	var batches []batch
	for i := 0; i < n; i += opt.Batch {
		var b batch
		for j := i; j < i+opt.Batch && j < n; j++ {
			b.idx = append(b.idx, j)
		}
		batches = append(batches, b)
	}
	self, _ := os.Executable()
	runChild := func(bi int, idx []int, alone bool) (results []CaseResult, inflight int, died bool, hung bool, stderrTail string) {
		tag := fmt.Sprintf("b%05d", bi)
		if alone {
			tag = fmt.Sprintf("alone%05d", idx[0])
		}
		journal := filepath.Join(work, tag+".journal")
		errFile := filepath.Join(work, tag+".stderr")
		os.Remove(journal)
		strs := make([]string, len(idx))
		for i, x := range idx {
			strs[i] = strconv.Itoa(x)
		}
		cmd := exec.Command(self, "work", p.ID(), tier, strconv.FormatInt(seed, 10), strings.Join(strs, ","), journal)
		ef, _ := os.Create(errFile)
		cmd.Stderr = ef
		cmd.Stdout = ef
		cmd.Env = append(os.Environ(),
			"GORACE=halt_on_error=0 exitcode=0 log_path="+filepath.Join(work, tag+".race"),
			"VERIF_WORKDIR="+work,
		)
		err := cmd.Run()
		ef.Close()
		inflight = -1
		started := map[int]bool{}
		ended := map[int]bool{}
		if jf, e := os.Open(journal); e == nil {
			sc := bufio.NewScanner(jf)
			sc.Buffer(make([]byte, 1<<20), 1<<28)
			for sc.Scan() {
				var l journalLine
				if json.Unmarshal(sc.Bytes(), &l) != nil {
					continue
				}
				if l.Kind == "START" {
					started[l.Index] = true
				} else if l.Kind == "END" && l.Result != nil {
					ended[l.Index] = true
					results = append(results, *l.Result)
				}
			}
			jf.Close()
		}
		for _, i := range idx {
			if started[i] && !ended[i] {
				inflight = i
			}
		}
		if err != nil {
			died = true
			if ee, ok := err.(*exec.ExitError); ok && ee.ExitCode() == 97 {
				hung = true
			}
			stderrTail = tail(errFile, 6000)
			if hung {
				// the watchdog's goroutine dump: the wedge identity is read from it
				stderrTail = tail(errFile, 400000)
			}
		}
		return
	}
	// simple work queue
	var qmu sync.Mutex
	next := 0
	var wg2 sync.WaitGroup
	for w := 0; w < opt.Parallel; w++ {
		wg2.Add(1)
		go func() {
			defer wg2.Done()
			for {
				qmu.Lock()
				bi := next
				next++
				qmu.Unlock()
				if bi >= len(batches) {
					return
				}
				idx := batches[bi].idx
				for len(idx) > 0 {
					results, inflight, died, hung, _ := runChild(bi, idx, false)
					mu.Lock()
					for _, r := range results {
						a.add(r)
					}
					mu.Unlock()
					if !died {
						break
					}
					// child died: attribute to the in-flight case, rerun it
					// alone later, continue with the rest of the batch.
					pos := -1
					for k, x := range idx {
						if x == inflight {
							pos = k
						}
					}
					mu.Lock()
					if inflight >= 0 {
						if hung {
							a.hung = append(a.hung, inflight)
						} else {
							a.crashed = append(a.crashed, inflight)
						}
					} else {
						a.inconclusive = append(a.inconclusive, fmt.Sprintf("batch %d: worker died outside any case", bi))
					}
					mu.Unlock()
					if pos < 0 {
						break
					}
					idx = idx[pos+1:]
					bi += 100000 // fresh journal name for the remainder
				}
			}
		}()
	}
	wg2.Wait()

	// Re-run crashed / hung cases alone, sequentially, in fresh processes.
	sort.Ints(a.crashed)
	sort.Ints(a.hung)
	hangIsViolation := false
	if wp, ok := p.(WedgeProp); ok {
		hangIsViolation = wp.HangIsViolation()
	}
	deathIsViolation := false
	if dp, ok := p.(DeathProp); ok {
		deathIsViolation = dp.DeathIsViolation()
	}
	for _, i := range a.crashed {
		results, _, died, hung, tailS := runChild(0, []int{i}, true)
		if died && !hung && !deathIsViolation {
			a.inconclusive = append(a.inconclusive, fmt.Sprintf("case %d: worker process died (reproduced alone): %s — a crash of the engine is judged by C09, this case is not judged here", i, crashSite(tailS)))
		} else if died && !hung {
			a.evals++
			a.violations = append(a.violations, Violation{
				Property: p.ID(), Class: "process-death",
				Identity: p.ID() + "/process-death/" + crashSite(tailS),
				Detail:   fmt.Sprintf("worker process died while running case %d (reproduced alone)", i),
				Case:     map[string]any{"seed": seed, "tier": tier, "index": i},
				Witness:  capStr(tailS, 60000),
			})
		} else if died && hung {
			a.inconclusive = append(a.inconclusive, fmt.Sprintf("case %d: crashed in batch, hung alone", i))
		} else {
			for _, r := range results {
				a.add(r)
			}
			a.inconclusive = append(a.inconclusive, fmt.Sprintf("case %d: worker died in batch but the case passed alone (not reproduced)", i))
		}
	}
	// Hung cases are re-run alone (own fresh process), a few of them at a time; once
	// three wedges are confirmed the remaining candidates are not re-run (every
	// one costs a full watchdog period) and are listed as inconclusive.
	{
		const par, enough = 4, 3
		var mu sync.Mutex
		confirmed := 0
		sem := make(chan struct{}, par)
		var wgH sync.WaitGroup
		for _, i := range a.hung {
			mu.Lock()
			skip := confirmed >= enough
			mu.Unlock()
			if skip {
				mu.Lock()
				a.inconclusive = append(a.inconclusive, fmt.Sprintf("case %d: exceeded its watchdog in its batch; not re-run alone because %d wedges were already confirmed in this run", i, enough))
				mu.Unlock()
				continue
			}
			sem <- struct{}{}
			wgH.Add(1)
			go func(i int) {
				defer wgH.Done()
				defer func() { <-sem }()
				results, _, died, hung, tailS := runChild(0, []int{i}, true)
				mu.Lock()
				defer mu.Unlock()
				if died && hung && hangIsViolation {
					confirmed++
					a.evals++
					a.violations = append(a.violations, Violation{
						Property: p.ID(), Class: "wedge",
						Identity: p.ID() + "/wedge/" + wedgeSite(tailS),
						Detail:   fmt.Sprintf("case %d exceeded its watchdog twice (second time alone in a fresh process); stuck in %s", i, wedgeSite(tailS)),
						Case:     map[string]any{"seed": seed, "tier": tier, "index": i},
						Witness:  capStr(tailS, 60000),
					})
				} else if died {
					a.inconclusive = append(a.inconclusive, fmt.Sprintf("case %d: watchdog/crash on re-run alone", i))
				} else {
					for _, r := range results {
						a.add(r)
					}
				}
			}(i)
		}
		wgH.Wait()
	}
	if opt.Race {
		var anchors []string
		if ap, ok := p.(AnchoredProp); ok {
			anchors = ap.AnchorFiles()
		}
		a.raceReports = CollectRaceReports(work, anchors)
	}
	return finish(p, tier, seed, a, start, work)
}

func tail(path string, n int) string {
	b, err := os.ReadFile(path)
	if err != nil {
		return ""
	}
	// prefer the part starting at the panic / fatal error line
	s := string(b)
	for _, key := range []string{"panic: ", "fatal error: ", "WATCHDOG "} {
		if i := strings.Index(s, key); i >= 0 {
			s = s[i:]
			break
		}
	}
	if len(s) > n {
		s = s[:n]
	}
	return s
}

// crashSite extracts "panic message @ first conduit frame" from a goroutine
// dump so that two different crashes get two different identities.
func crashSite(t string) string {
	lines := strings.Split(t, "\n")
	msg := ""
	if len(lines) > 0 {
		msg = lines[0]
	}
	msg = normalizeMsg(msg)
	site := ""
	for _, l := range lines {
		l = strings.TrimSpace(l)
		if strings.HasPrefix(l, "github.com/conduitio/conduit/pkg/") && strings.Contains(l, "(") {
			fn := l[:strings.LastIndex(l, "(")]
			fn = strings.TrimPrefix(fn, "github.com/conduitio/conduit/")
			site = fn
			break
		}
	}
	return msg + "@" + site
}

// wedgeSite names where the case was stuck: the innermost function of the
// repository on the stack of the goroutine that runs the case (from the
// watchdog's goroutine dump), or "watchdog" when the dump does not tell.
func wedgeSite(t string) string {
	blocks := strings.Split(t, "\n\n")
	for _, b := range blocks {
		if !strings.Contains(b, "RunCase") && !strings.Contains(b, "vp.Work") {
			continue
		}
		for _, line := range strings.Split(b, "\n") {
			if i := strings.Index(line, "github.com/conduitio/conduit/pkg/"); i == 0 {
				fn := strings.TrimPrefix(line, "github.com/conduitio/conduit/")
				if j := strings.Index(fn, "("); j > 0 {
					// keep "pkg/x/y.(*T).Method", drop the argument list
					if k := strings.LastIndex(fn, "("); k > 0 && !strings.HasPrefix(fn[k:], "(*") {
						fn = fn[:k]
					}
				}
				return "watchdog@" + fn
			}
		}
	}
	return "watchdog"
}

func normalizeMsg(m string) string {
	// strip numbers (indices, lengths, addresses) so the identity is stable
	var b strings.Builder
	prevDigit := false
	for _, r := range m {
		if r >= '0' && r <= '9' {
			if !prevDigit {
				b.WriteByte('N')
			}
			prevDigit = true
			continue
		}
		prevDigit = false
		b.WriteRune(r)
	}
	s := b.String()
	if i := strings.Index(s, " [recovered]"); i >= 0 {
		s = s[:i]
	}
	if len(s) > 120 {
		s = s[:120]
	}
	return s
}

func finish(p Prop, tier string, seed int64, a *agg, start time.Time, work string) int {
	known := LoadKnown()
	knownByID := map[string]Finding{}
	for _, f := range known {
		if f.Property == p.ID() && f.Status == "known" {
			knownByID[f.Identity] = f
		}
	}
	// race reports attributed to anchor files are violations
	for _, rr := range a.raceReports {
		if rr.Attributed {
			a.violations = append(a.violations, Violation{
				Property: p.ID(), Class: "data-race",
				Identity: p.ID() + "/data-race/" + rr.Key,
				Detail:   "Go race detector report with a frame in this property's anchor files",
				Witness:  rr.Text,
			})
		}
	}
	observedKnown := map[string]int{}
	knownCases := map[string][]any{}
	type unl struct {
		v    Violation
		path string
	}
	var unlisted []unl
	seen := map[string]bool{}
	for _, v := range a.violations {
		if _, ok := knownByID[v.Identity]; ok {
			observedKnown[v.Identity]++
			if len(knownCases[v.Identity]) < 5 {
				if m, ok := v.Case.(map[string]any); ok {
					knownCases[v.Identity] = append(knownCases[v.Identity], m["index"])
				}
			}
			continue
		}
		if seen[v.Identity] {
			continue
		}
		seen[v.Identity] = true
		unlisted = append(unlisted, unl{v: v})
	}
	// replay files
	if len(unlisted) > 0 {
		os.MkdirAll(filepath.Join(Root(), "replays"), 0o755)
	}
	for i := range unlisted {
		v := unlisted[i].v
		h := sha256.Sum256([]byte(v.Identity + fmt.Sprint(v.Case)))
		path := filepath.Join(Root(), "replays", p.ID()+"-"+hex.EncodeToString(h[:6])+".json")
		b, _ := json.MarshalIndent(map[string]any{
			"property": p.ID(), "tier": tier, "seed": seed, "violation": v,
		}, "", " ")
		os.WriteFile(path, b, 0o644)
		unlisted[i].path = path
	}

	totalInconclusive := len(a.inconclusive)
	nontrivial := len(a.sigs)
	ev := map[string]any{
		"property_id": p.ID(),
		"tier":        tier,
		"seed":        seed,
		"level":       p.Level(),
		"wall_s":      time.Since(start).Seconds(),
		"violations":  len(unlisted),
		"assumptions": p.Assumptions(),
	}
	cov := map[string]any{
		"evaluations":             a.evals,
		"distinct_nontrivial":     nontrivial,
		"rule":                    p.Rule(),
		"samples":                 a.samples,
		"observed":                a.stats,
		"inconclusive_cases":      totalInconclusive,
		"known_findings_observed": observedKnown,
		"known_findings_cases":    knownCases,
	}
	if len(a.inconclusive) > 0 {
		lim := a.inconclusive
		if len(lim) > 20 {
			lim = lim[:20]
		}
		cov["inconclusive_detail"] = lim
	}
	sets := map[string]int{}
	for k, m := range a.sets {
		sets[k] = len(m)
	}
	cov["distinct_observed"] = sets
	if a.raceReports != nil || true {
		attributed, other := 0, 0
		var otherKeys []string
		for _, rr := range a.raceReports {
			if rr.Attributed {
				attributed++
			} else {
				other++
				if len(otherKeys) < 10 {
					otherKeys = append(otherKeys, rr.Key)
				}
			}
		}
		cov["race_reports_attributed"] = attributed
		cov["race_reports_unattributed"] = other
		if len(otherKeys) > 0 {
			cov["race_reports_unattributed_keys"] = otherKeys
		}
	}
	if len(cov["samples"].([]any)) == 0 {
		cov["samples"] = []any{"(no sample recorded)"}
	}
	ev["coverage"] = cov
	os.MkdirAll(filepath.Join(Root(), "evidence"), 0o755)
	b, _ := json.MarshalIndent(ev, "", " ")
	os.WriteFile(filepath.Join(Root(), "evidence", p.ID()+".json"), b, 0o644)

	// report
	fmt.Printf("property=%s tier=%s seed=%d evaluations=%d distinct_nontrivial=%d inconclusive=%d wall=%.1fs\n",
		p.ID(), tier, seed, a.evals, nontrivial, totalInconclusive, time.Since(start).Seconds())
	keys := make([]string, 0, len(a.stats))
	for k := range a.stats {
		keys = append(keys, k)
	}
	sort.Strings(keys)
	for _, k := range keys {
		fmt.Printf("  observed %-40s %d\n", k, a.stats[k])
	}
	for k, n := range sets {
		fmt.Printf("  distinct %-40s %d\n", k, n)
	}
	for _, f := range known {
		if f.Property != p.ID() || f.Status != "known" {
			continue
		}
		fmt.Printf("KNOWN-FINDING: property=%s %s [identity=%s observed=%d]\n", p.ID(), f.What, f.Identity, observedKnown[f.Identity])
	}
	for _, s := range a.inconclusive {
		fmt.Printf("INCONCLUSIVE-CASE property=%s %s\n", p.ID(), s)
	}
	if len(unlisted) > 0 {
		for _, u := range unlisted {
			fmt.Printf("VIOLATION property=%s replay=%s\n", p.ID(), u.path)
			caseIdx := any("-")
			if m, ok := u.v.Case.(map[string]any); ok {
				caseIdx = m["index"]
			}
			fmt.Printf("  class=%s identity=%s case=%v\n  %s\n", u.v.Class, u.v.Identity, caseIdx, u.v.Detail)
		}
		return 1
	}
	if a.evals == 0 || nontrivial < 2 {
		fmt.Printf("INCONCLUSIVE property=%s the monitors observed too little (evaluations=%d distinct_nontrivial=%d)\n", p.ID(), a.evals, nontrivial)
		return 3
	}
	if totalInconclusive*5 > a.evals {
		fmt.Printf("INCONCLUSIVE property=%s more than 20%% of the cases were inconclusive\n", p.ID())
		return 3
	}
	// work dir is scratch
	os.RemoveAll(work)
	return 0
}

// ---------------------------------------------------------------------------
// registry + entry point

var registry = map[string]Prop{}

func Register(p Prop) { registry[p.ID()] = p }

// Main is the entry point of cmd/vcheck:
//
//	vcheck drive <id> <tier>
//	vcheck work <id> <tier> <seed> <i,j,k> <journal>
//	vcheck one <id> <tier> <seed> <index>      (run one case in-process, print result)
//
// ChildModes lets a check re-execute the harness binary in a special role
// (selected by the VERIF_CHILD environment variable) before normal dispatch.
var ChildModes = map[string]func(){}

func Main(race bool) {
	if m := os.Getenv("VERIF_CHILD"); m != "" {
		if f, ok := ChildModes[m]; ok {
			f()
			os.Exit(0)
		}
	}
	if len(os.Args) < 3 {
		fmt.Fprintln(os.Stderr, "usage: vcheck drive|work|one <id> ...")
		os.Exit(2)
	}
	p, ok := registry[os.Args[2]]
	if !ok {
		fmt.Fprintf(os.Stderr, "unknown property %q\n", os.Args[2])
		os.Exit(2)
	}
	switch os.Args[1] {
	case "drive":
		tier := "quick"
		if len(os.Args) > 3 {
			tier = os.Args[3]
		}
		par := 16
		if v := os.Getenv("VERIF_PARALLEL"); v != "" {
			if n, err := strconv.Atoi(v); err == nil && n > 0 {
				par = n
			}
		}
		os.Exit(Drive(p, tier, Options{Parallel: par, Race: race}))
	case "work":
		seed, _ := strconv.ParseInt(os.Args[4], 10, 64)
		var idx []int
		for _, s := range strings.Split(os.Args[5], ",") {
			n, _ := strconv.Atoi(s)
			idx = append(idx, n)
		}
		Work(p, seed, os.Args[3], idx, os.Args[6])
	case "one":
		seed, _ := strconv.ParseInt(os.Args[4], 10, 64)
		i, _ := strconv.Atoi(os.Args[5])
		r := p.RunCase(seed, os.Args[3], i)
		r.Index = i
		b, _ := json.MarshalIndent(r, "", " ")
		fmt.Println(string(b))
		if len(r.Violations) > 0 {
			os.Exit(1)
		}
	default:
		os.Exit(2)
	}
}

func capStr(s string, n int) string {
	if len(s) > n {
		return s[:n]
	}
	return s
}
