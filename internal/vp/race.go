package vp

import (
	"io"
	"os"
	"path/filepath"
	"regexp"
	"runtime/pprof"
	"sort"
	"strings"
)

// RaceReport is one de-duplicated Go race detector report.
type RaceReport struct {
	Key        string // normalised stack pair (line numbers stripped)
	Text       string
	Attributed bool
	Count      int
}

var frameRe = regexp.MustCompile(`^\s+(/\S+\.go):\d+`)
var funcRe = regexp.MustCompile(`^  (\S+)\(`)

// CollectRaceReports parses every <work>/*.race.<pid> file written through
// GORACE=log_path, de-duplicates reports by the pair of stacks with line
// numbers stripped, and attributes a report to the property when either
// racing stack has a frame in one of the anchor files.
func CollectRaceReports(work string, anchors []string) []RaceReport {
	files, _ := filepath.Glob(filepath.Join(work, "*.race.*"))
	byKey := map[string]*RaceReport{}
	for _, f := range files {
		b, err := os.ReadFile(f)
		if err != nil {
			continue
		}
		for _, block := range strings.Split(string(b), "==================") {
			if !strings.Contains(block, "WARNING: DATA RACE") {
				continue
			}
			// only the two access stacks (before "Goroutine N (running) created at")
			acc := block
			if i := strings.Index(acc, "\nGoroutine "); i >= 0 {
				acc = acc[:i]
			}
			var fns []string
			attributed := false
			// owner of an access = its innermost frame that is repo or harness code
			// (library frames such as a JSON encoder reading a repo struct are skipped)
			harness := false
			ownerSeen := false
			for _, l := range strings.Split(acc, "\n") {
				if strings.Contains(l, "by goroutine") || strings.HasPrefix(strings.TrimSpace(l), "Previous ") || strings.HasPrefix(strings.TrimSpace(l), "Read at") || strings.HasPrefix(strings.TrimSpace(l), "Write at") {
					ownerSeen = false
				}
				if m := funcRe.FindStringSubmatch(l); m != nil {
					fns = append(fns, m[1])
				}
				if m := frameRe.FindStringSubmatch(l); m != nil {
					inRepo := strings.Contains(m[1], "/pkg/") && !strings.Contains(m[1], "/go/pkg/mod/") && !strings.HasPrefix(m[1], "/verif/")
					inHarness := strings.HasPrefix(m[1], "/verif/")
					if !ownerSeen && (inRepo || inHarness) {
						ownerSeen = true
						if inHarness {
							harness = true
						}
					}
					for _, a := range anchors {
						if strings.HasSuffix(m[1], a) {
							attributed = true
						}
					}
				}
			}
			if harness {
				// one of the racing accesses is the harness's own: a harness bug, not the repo's
				attributed = false
			}
			// key: first 4 functions of each stack is enough and stable
			if len(fns) > 10 {
				fns = fns[:10]
			}
			key := strings.Join(fns, "<")
			key = strings.ReplaceAll(key, "github.com/conduitio/conduit/", "")
			if r, ok := byKey[key]; ok {
				r.Count++
				r.Attributed = r.Attributed || attributed
				continue
			}
			t := block
			if len(t) > 5000 {
				t = t[:5000]
			}
			if harness {
				key = "HARNESS:" + key
			}
			byKey[key] = &RaceReport{Key: key, Text: t, Attributed: attributed, Count: 1}
		}
	}
	var out []RaceReport
	for _, r := range byKey {
		out = append(out, *r)
	}
	sort.Slice(out, func(i, j int) bool { return out[i].Key < out[j].Key })
	return out
}

func DumpGoroutines(w io.Writer) {
	pprof.Lookup("goroutine").WriteTo(w, 2)
}
