package vp

import (
	"io"
	"os"
	"path/filepath"
	"regexp"
	"runtime/pprof"
	"sort"
	"strings"
)

// RaceReport is one de-duplicated Go race detector report.
type RaceReport struct {
	Key        string // normalised stack pair (line numbers stripped)
	Text       string
	Attributed bool
	Count      int
}

var frameRe = regexp.MustCompile(`^\s+(/\S+\.go):\d+`)
var funcRe = regexp.MustCompile(`^  (\S+)\(`)

// CollectRaceReports parses every <work>/*.race.<pid> file written through
// GORACE=log_path, de-duplicates reports by the pair of stacks with line
// numbers stripped, and attributes a report to the property when either
// racing stack has a frame in one of the anchor files.
func CollectRaceReports(work string, anchors []string) []RaceReport {
	files, _ := filepath.Glob(filepath.Join(work, "*.race.*"))
	byKey := map[string]*RaceReport{}
	for _, f := range files {
		b, err := os.ReadFile(f)
		if err != nil {
			continue
		}
		for _, block := range strings.Split(string(b), "==================") {
			if !strings.Contains(block, "WARNING: DATA RACE") {
				continue
			}
			// only the two access stacks (before "Goroutine N (running) created at")
			acc := block
			if i := strings.Index(acc, "\nGoroutine "); i >= 0 {
				acc = acc[:i]
			}
			var fns []string
			attributed := false
			for _, l := range strings.Split(acc, "\n") {
				if m := funcRe.FindStringSubmatch(l); m != nil {
					fns = append(fns, m[1])
				}
				if m := frameRe.FindStringSubmatch(l); m != nil {
					for _, a := range anchors {
						if strings.HasSuffix(m[1], a) {
							attributed = true
						}
					}
				}
			}
			// key: first 4 functions of each stack is enough and stable
			if len(fns) > 10 {
				fns = fns[:10]
			}
			key := strings.Join(fns, "<")
			key = strings.ReplaceAll(key, "github.com/conduitio/conduit/", "")
			if r, ok := byKey[key]; ok {
				r.Count++
				r.Attributed = r.Attributed || attributed
				continue
			}
			t := block
			if len(t) > 5000 {
				t = t[:5000]
			}
			byKey[key] = &RaceReport{Key: key, Text: t, Attributed: attributed, Count: 1}
		}
	}
	var out []RaceReport
	for _, r := range byKey {
		out = append(out, *r)
	}
	sort.Slice(out, func(i, j int) bool { return out[i].Key < out[j].Key })
	return out
}

func DumpGoroutines(w io.Writer) {
	pprof.Lookup("goroutine").WriteTo(w, 2)
}
