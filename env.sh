# Sourced by every script in /verif. Makes the build independent of the caller's Go env.
VERIF_ROOT="$(cd "$(dirname "${BASH_SOURCE[0]}")" && pwd)"
export VERIF_ROOT
GO1258="/root/go/pkg/mod/golang.org/toolchain@v0.0.1-go1.25.8.linux-amd64"
if [ -x "$GO1258/bin/go" ]; then
  export PATH="$GO1258/bin:$PATH"
  export GOTOOLCHAIN=local
fi
export GOFLAGS=-mod=mod
export GOPROXY=off
export GONOSUMDB='*' GONOSUMCHECK=1 GONOSUMDB='*' GOFLAGS=-mod=mod
export GOSUMDB=off
export CGO_ENABLED=1
export VERIF_REPO="${VERIF_REPO:-/repo}"
