#!/usr/bin/env python3
"""Generates MANIFEST.json from the table below (kept in one place so it stays valid)."""
import json, subprocess, os
os.chdir(os.path.dirname(os.path.abspath(__file__)))

PIPE_NOTE = ("Trusted base: the harness itself (fake protocol-level connector plugins behind the real builtin.Dispenser, fake sdk.Processor behind the real "
             "processor.Service, faultdb wrapper over the in-memory store, the event-log recording discipline of DESIGN.md 2.2) and, where used, the reference model "
             "of documented plugin semantics (internal/pipe/model.go). Says nothing about executions the workload did not produce.")
checks = {
 "C01": dict(cat="exploration", ref="4/C01", tech="runtime monitoring: offline ordering oracle over a recorded boundary event log + Go race detector",
   text="Runs the real engines (default and arch-v2) between scripted plugins and judges every source ack the plugins observe: it must be preceded in the log by a positive confirmation of every expected piece at every destination, or by a positive DLQ confirmation, or the record is filtered per script. Held = held on the executions produced (count and classes in the evidence).", note=PIPE_NOTE),
 "C02": dict(cat="exploration", ref="4/C02", tech="runtime monitoring: store-commit snapshot monitor + ordering oracle, store fault injection, Go race detector",
   text="Every source ack must be covered by an earlier successful commit whose snapshot holds that position or a later one; snapshots never move a position backwards or to empty; every commit covers only handled records. Store faults (failed transactional Set/Commit on connector keys) and commit delays are injected by the store wrapper.", note=PIPE_NOTE),
 "C04": dict(cat="exploration", ref="4/C04", tech="runtime monitoring: per-session sequence oracle over the recorded event log + Go race detector",
   text="Per source plugin session, the flattened ack sequence must be a prefix of the emit sequence; workloads permute destination/worker/DLQ completion order through scripted latency classes.", note=PIPE_NOTE),
 "C05": dict(cat="exploration", ref="4/C05", tech="runtime monitoring: per-destination order/duplicate/absence oracle over the recorded event log + reference model + Go race detector",
   text="Per destination session and source: writes in read order (pieces in piece order), nothing twice, nothing the scripts filter or reject upstream of that destination.", note=PIPE_NOTE),
 "C06": dict(cat="exploration", ref="4/C06", tech="runtime monitoring: state-at-return assertion over the recorded event log and store snapshots + Go race detector",
   text="On healthy pipelines, at every StopAndWait that returns nil: written records have outcomes and source acks before source teardown, stored position == last ack, plugins torn down as often as opened, no plugin activity after the return. 'Always completes' only as bounded progress (watchdog twice, second time alone = wedge).", note=PIPE_NOTE),
}
ALL = ["C%02d" % i for i in range(1, 21)]
na_reason = "check under construction in this round (see DESIGN.md section 4 for the planned monitor); not claimed until it runs silent on the unchanged tree and catches seeded mutants"
m = {
 "version": 1,
 "setup_cmd": "./setup.sh",
 "hooks": {
   "guard": "verif",
   "enable": "go build -tags verif (vcheck.sh builds ./cmd/vcheck against /repo with -tags verif, plus -race for the concurrency properties)",
   "baseline_off_cmd": "cd /repo && export PATH=/root/go/pkg/mod/golang.org/toolchain@v0.0.1-go1.25.8.linux-amd64/bin:$PATH GOTOOLCHAIN=local GOFLAGS=-mod=mod GOPROXY=off && go test -mod=mod -json -vet=off -count=1 -timeout 25m ./...",
   "source_commits": [],
   "add_only": True,
 },
 "engines": [
   {"name": "vcheck", "path": "cmd/vcheck", "serves_properties": sorted(checks), "kind_free_text": "single driver/worker Go binary rebuilt from /repo on every check; fixed case lists from VERIF_SEED; child process per batch; offline oracles over recorded boundary event logs"},
 ],
 "checks": [],
 "not_applicable": [],
 "notes": "Technique family: runtime monitoring and sanitizers (DESIGN.md). Exit 0 = held on everything explored, 1 = VIOLATION line, 3 = inconclusive (monitors observed too little).",
}
for pid in ALL:
    if pid in checks:
        c = checks[pid]
        m["checks"].append({
          "property_id": pid,
          "quick_cmd": f"./vcheck.sh {pid} quick",
          "thorough_cmd": f"./vcheck.sh {pid} thorough",
          "evidence_file": f"/verif/evidence/{pid}.json",
          "replay_cmd_template": "./vcheck.sh replay {path}",
          "engine": "vcheck",
          "level_claimed": {"category": c["cat"], "text": c["text"], "design_ref": c["ref"]},
          "level_note": c["note"],
          "technique": c["tech"],
        })
    else:
        m["not_applicable"].append({"property_id": pid, "reason": na_reason})
json.dump(m, open("MANIFEST.json", "w"), indent=1)
print("checks:", len(m["checks"]), "not_applicable:", len(m["not_applicable"]))
