#!/usr/bin/env python3
"""Generates MANIFEST.json from the table below (kept in one place so it stays valid)."""
import json, subprocess, os
os.chdir(os.path.dirname(os.path.abspath(__file__)))

PIPE_NOTE = ("Trusted base: the harness itself (fake protocol-level connector plugins behind the real builtin.Dispenser, fake sdk.Processor behind the real "
             "processor.Service, faultdb wrapper over the in-memory store, the event-log recording discipline of DESIGN.md 2.2) and, where used, the reference model "
             "of documented plugin semantics (internal/pipe/model.go). Says nothing about executions the workload did not produce.")
checks = {
 "C01": dict(cat="exploration", ref="4/C01", tech="runtime monitoring: offline ordering oracle over a recorded boundary event log + Go race detector",
   text="Runs the real engines (default and arch-v2) between scripted plugins and judges every source ack the plugins observe: it must be preceded in the log by a positive confirmation of every expected piece at every destination, or by a positive DLQ confirmation, or the record is filtered per script; the stored position (the durable form of the ack) is judged the same way, including a DLQ write confirmed only in part. Held = held on the executions produced (count and classes in the evidence).", note=PIPE_NOTE),
 "C02": dict(cat="exploration", ref="4/C02", tech="runtime monitoring: store-commit snapshot monitor + ordering oracle, store fault injection, Go race detector",
   text="Every source ack must be covered by an earlier successful commit whose snapshot holds that position or a later one; snapshots never move a position backwards or to empty; every commit covers only handled records. Store faults (failed transactional Set/Commit on connector keys) and commit delays are injected by the store wrapper.", note=PIPE_NOTE),
 "C04": dict(cat="exploration", ref="4/C04", tech="runtime monitoring: per-session sequence oracle over the recorded event log + Go race detector",
   text="Per source plugin session, the flattened ack sequence must be a prefix of the emit sequence and the stored position must not skip a record without outcome; workloads permute destination/worker/DLQ completion order through scripted latency classes.", note=PIPE_NOTE),
 "C05": dict(cat="exploration", ref="4/C05", tech="runtime monitoring: per-destination order/duplicate/absence oracle over the recorded event log + reference model + Go race detector",
   text="Per destination session and source: writes in read order (pieces in piece order), nothing twice, nothing the scripts filter or reject upstream of that destination.", note=PIPE_NOTE),
 "C06": dict(cat="exploration", ref="4/C06", tech="runtime monitoring: state-at-return assertion over the recorded event log and store snapshots + Go race detector",
   text="On healthy pipelines (incl. a first stop request abandoned by its caller's deadline before the judged one), at every StopAndWait that returns nil: written records have outcomes and source acks before source teardown, stored position == last ack, plugins torn down as often as opened, no plugin activity after the return. 'Always completes' only as bounded progress (watchdog twice, second time alone = wedge).", note=PIPE_NOTE),
}

SVC_NOTE = ("Trusted base: the harness (real services wired as pkg/conduit/runtime.go createServices does, over faultdb(in-memory) with fake plugin and lifecycle boundaries). "
            "Single fault per call/import; sequential calls; says nothing about executions the workload did not produce.")
checks.update({
 "C03": dict(cat="fault_enumeration", ref="4/C03", tech="runtime monitoring: crash-point enumeration over recorded store snapshots (every history prefix judged; fresh engine restarted on sampled snapshots) + Go race detector",
   text="Every prefix of every recorded history is a crash instant: no source ack beyond the position held by the last commit of the prefix, no commit past an unhandled record; a fresh engine is restarted on up to 6 distinct snapshots per run and the position handed to the source plugin's Open must not be past a record without terminal outcome in that prefix.", note=PIPE_NOTE + " A crash is modelled as 'store = last successful commit'; torn writes inside the store engine are out of scope."),
 "C14": dict(cat="fault_enumeration", ref="4/C14", tech="runtime monitoring with exhaustive single-store-fault enumeration per API call (deterministic replay), small executable effect model as oracle",
   text="Random sequences (32 ops quick, 40 thorough) of the orchestrator's Create/Update/Delete/UpdateDLQ calls on pipelines, connectors and processors with valid and invalid arguments over the real services; for every call every single store operation it performs (newtx, set, delete, commit) is failed once on a fresh rig after replaying the history; after every call: before/after equality for failed calls, a reference effect model for successful calls, freshly initialised services on a copy of the store, two-way reference closure, guard refusal for running and file-provisioned targets, and a fault-free retry probe for hidden state.", note=SVC_NOTE + " Get/GetKeys never occur inside API calls; CreatedAt/UpdatedAt divergence after a failed call is tolerated and counted."),
 "C15": dict(cat="fault_enumeration", ref="4/C15", tech="runtime monitoring: grammar-generated config pairs and chains through the real provisioning service; per-operation store-fault and plugin-refusal enumeration by deterministic replay; oracle = the config itself plus before/after equality of three views",
   text="Every ordered pair of a 40-config pool of one pipeline (6 pools thorough, 400 sampled pairs quick) plus chains of 3-6 imports is imported via Import and Plan+ApplyPlan and judged for nil error, convergence (live services and fresh-Init view equal the config incl. order, workers, conditions, DLQ), idempotence (empty Plan, byte-identical store apart from timestamps) and kept connector State; each import is replayed once per failing point (each k-th Set/NewTransaction/Commit and each k-th plugin NewProcessor/NewDispenser): after an error services, fresh-Init view and raw store must equal the state before.", note=SVC_NOTE + " Faults landing inside the rollback of an already failed import are not judged; pipelines never ran."),
 "C17": dict(cat="exploration", ref="4/C17", tech="runtime monitoring: restart round-trip monitor over the real stores/services (in-memory and badger) with per-field value generators and an independent reader for older-format documents",
   text="Exhaustive over all 256 one-byte and all 65,536 two-byte positions through three write paths (thorough), every Unicode scalar value in string fields and map keys, every pipeline status, removal of each optional field from the golden documents; sampled long/random values, timestamps, integer extremes, long reference lists, pre-v0.4.1 documents and random API workloads with restarts. Every entity listed after restart is compared field by field with what was stored; a running pipeline must come back as to-be-resumed and be started by lifecycle Init (both engines).", note="Restart = fresh service objects on the same database.DB (badger really closed and reopened); nil == empty; times compared as instants; invalid UTF-8 Go strings and sub-minute zone offsets are exercised but only recorded (outside 'any Unicode text')."),
 "C18": dict(cat="exploration", ref="4/C18", tech="runtime monitoring: differential oracle (independent classifier) with exhaustive/boundary/random address sweeps; canary listeners + strace connect(2) log around the real request path under a scripted resolver; randomized policy pairs",
   text="Real egress.Refuse compared with an independent integer classifier of the documented refused floor over all 2^32 IPv4 addresses in raw and v4-mapped form (thorough), strided sweeps of the other embedding forms, all range edges +-1 in 9 forms and random structured IPv6: no floor address accepted. Real egress.Service.Do under 22 hostile scenario kinds observed by loopback canary listeners and a strace connect(2) log: no connection to a refused address that is not an exact carved-out (IP,port). Random (per-processor, ceiling) pairs through ResolvePolicy and processor.Service: effective hosts, secret refs, timeout and size never exceed the ceiling.", note="Only the documented floor is demanded; wider refusals, followed redirects and honoured proxy settings whose every hop passes the dial gate are counted as observations. No real network; DNS is a scripted resolver; TLS success paths and host-side timeout/size enforcement are not exercised."),
 "C20": dict(cat="exploration", ref="4/C20", tech="runtime monitoring: generator-labelled error trees built with the real constructors, real classifiers called on the real values, smallest-failing-subtree identities",
   text="Exhaustive up to depth 3 (core constructor alphabet; full 17-constructor alphabet to depth 2; every registered code x 9 coded forms x plain-wrapper contexts) plus random trees of depth <= 12: for every generated error tree IsFatalError, conduiterr.Get, errors.Is for 20 sentinels, ToStatus->FromStatus, exitcode.ExitCode and the http/api/status functions must agree with ground-truth labels computed from the constructors' documented semantics.", note="Not a proof beyond the enumerated depth; codes registered under /repo/cmd internal packages are not importable; WithUnknownReason on a coded error and FromStatus of the synthetic internal.unknown code are recorded as observations."),
})

PIPE2 = PIPE_NOTE
checks.update({
 "C07": dict(cat="exploration", ref="4/C07", tech="runtime monitoring: DLQ record/ordering/content oracle + reference nack window written from the property wording + cross-engine differential run of the same scripts + Go race detector",
   text="Every DLQ record observed is judged (at most once per run after a confirmed write, source order, carries the original record, a scripted error of THAT record and the component that raised it), every failed DLQ write (never followed by an unjustified ack), per source session the tolerate-vs-stop decision against a reference window, a DLQ write confirmed only in part (the unconfirmed rest is not acknowledged, nor stored as handled); single-source scenarios are re-run on the other engine and the dead-lettered sets must agree when both runs were uninterrupted.", note=PIPE_NOTE + " Engine-induced nacks (teardown, fan-out sibling) are observations; exact window decisions are only judged where the outcome sequence the window saw is the scripted one."),
 "C08": dict(cat="exploration", ref="4/C08", tech="runtime monitoring: per-record outcome comparison against a reference model of processor result semantics; small result-kind vectors enumerated + Go race detector",
   text="Every acknowledged source record's observed outcome (pieces delivered per destination / nothing written / the original dead-lettered once) must equal the reference outcome derived from the processor and destination scripts; all 780 result-kind vectors of batches <=4 are enumerated in thorough on both engines, larger chained shapes are sampled.", note=PIPE_NOTE),
 "C09": dict(cat="exploration", ref="4/C09", tech="runtime monitoring: hostile plugin reply injection with child-process crash attribution, wedge watchdog, ack-justification and conditional-alignment oracles + Go race detector",
   text="One hostile reply per scenario (11 processor reply shapes with/without condition, 6 destination ack shapes, 2 source record shapes, errors and panics from 5 unary plugin calls of source/destination/DLQ) in both engines; the worker process must survive (reproduced death = violation), the run must settle (watchdog twice = wedge), every source ack must stay justified, conditional processors must stay aligned and pass-through records in place.", note=PIPE_NOTE + " A plugin that never answers or panics in its own Run goroutine is outside the premise."),
 "C10": dict(cat="exploration", ref="4/C10", tech="runtime monitoring: cause-injection with status-history / restart / back-off oracle over store snapshots and monotonic event stamps + Go race detector",
   text="One failure cause per scenario (17 causes: fatal ones incl. an unabsorbed processor error on a branch and a fatal error during shutdown, transient ones incl. failures spaced across the retry window, 1 undetermined by the wording, stop kinds incl. a user stop or StopAll whose drain fails) with retry limits 0-3/infinite and back-off 2-60 ms; judged from the stored status history and plugin Open events: fatal => Degraded with cause and no automatic restart, transient => restart from the stored position no sooner than MinDelay and at most MaxRetries times, accepted stop => no new run, matching stopped status.", note=PIPE_NOTE + " Only the lower back-off bound is a verdict (lateness is load)."),
 "C12": dict(cat="exploration", ref="4/C12", tech="runtime monitoring: force-stop injection at six classes of instant (incl. plugins withholding acks), termination watchdog, status/restart/resume-position oracle + Go race detector",
   text="Force stop at start-up, mid-flow, with a destination or the DLQ withholding acks, right after a graceful stop, during a graceful shutdown that a destination blocks, during the recovery back-off, idle; then WaitPipeline and a user Start: the run terminates, status Degraded with cause, never Recovering/Running again before the user start, every ack in the history justified, Start succeeds and reopens each source at the stored position with nothing unhandled behind it.", note=PIPE_NOTE),
 "C13": dict(cat="exploration", ref="4/C13", tech="runtime monitoring: generation-stamping fake processor + call-log oracle around live reconfigure requests fired at event-log positions + Go race detector",
   text="Default engine: 1-4 live reconfigure requests (mid-stream, idle, racing a stop; unopenable new processor, concurrent and cancelled requests); each record handed to the processor once per run, no configuration reappears after a switch, an unopenable configuration never processes a record and its request fails, an exclusive successful request is in effect for the following calls, no call outside Open..Teardown, C01/C04/C05 oracles hold, guarded Update still refuses.", note=PIPE_NOTE + " arch-v2 has no in-place reconfigure path."),
 "C19": dict(cat="fault_enumeration", ref="4/C19", tech="runtime monitoring: file-tree snapshot oracle + verifier call log over real Install/ExtractBinary/VerifyIndex; strace per-(thread, syscall) SIGKILL injection on a re-executed harness child; porcupine register model for the index high-water mark",
   text="Every file-system syscall of a registry install (72-116 per install, 6 prestate scenarios) is a kill point: the child is SIGKILLed right before it, the directory is judged (manifest/index-state old-or-new, artifact absent-or-verified bytes) and a second install must complete. The install gate is enumerated over digest{10} x verifier{4} x fetch failure{20} x unsigned-policy context{9} x prestate{4} (full product in thorough). Extraction containment and the index high-water mark are explored with generated hostile archives (27 name x 31 type classes) and concurrent signed-index histories checked with porcupine.", note="Kill = SIGKILL at syscall entry via strace injection (no power-loss model; fsync ordering not judged). Sigstore cryptography is the trusted base (scripted ArtifactVerifier). Bundle install path not covered. An index-digest path traversal into the cache directory (RemoveAll outside the install dir) is recorded as an observation, not charged to C19 (DESIGN.md)."),
})

checks.update({
 "C11": dict(cat="exploration", ref="4/C11", tech="runtime monitoring: plugin-session interval / call-return / stored-status oracle over control-call histories with slow store acknowledgements of status writes; porcupine linearizability check of healthy control histories against a 3-state lifecycle register + Go race detector",
   text="One sequential client per pipeline issues 5-14 control calls (Start, Stop, Stop+Wait, StopAndWait, force stop, overlapping background waits) in healthy, failure-interleaved and gated-status histories, histories with a teardown error, a start whose build fails (every status write acknowledged 2-22 ms late; Stop, Start as soon as the stopped status is visible, StopAndWait on the new run). Judged: plugin sessions of one connector never overlap; every processor opened by a failed start is torn down; a stop on a Running pipeline with a live run is neither refused nor misses that run; StopAndWait/WaitPipeline return only after the run that was live at the call is torn down and report its result; Start after an ended run is not refused as 'already running'; final status agrees with whether a run is live; healthy call results are linearizable (porcupine); wedge = watchdog twice; a reproduced process death is a violation.", note=PIPE_NOTE + " Calls are issued one at a time per pipeline as the property's quantifier says."),
})

checks.update({
 "C16": dict(cat="exploration", ref="4/C16", tech="runtime monitoring: plan/apply history monitor over the real provisioning + lifecycle services under record flow (stale, concurrent, unauthorised, store-fault and restart-failure variants), drain-before-write and resume-position oracles over the recorded event log and store snapshots + Go race detector",
   text="One configuration change applied with ApplyPlanLive under record flow in 9 variants (incl. two processors of which the second fails to come up); judged: stale/concurrent plans never both succeed, no touch of a running pipeline without authorisation, in restart mode the configuration is written only after the old run's plugin sessions are torn down and positions are durable, the configuration generation a live plugin session runs with equals the stored one, every source resumes at the stored position with nothing unhandled behind it, failed/refused applies leave a fully-old-or-fully-new configuration that a restarted server would load identically, every ack in the history justified.", note=PIPE_NOTE + " The HTTP handler's handling of the operator flag is not exercised (service level only)."),
})
ALL = ["C%02d" % i for i in range(1, 21)]
na_reason = "check under construction in this round (see DESIGN.md section 4 for the planned monitor); not claimed until it runs silent on the unchanged tree and catches seeded mutants"
m = {
 "version": 1,
 "setup_cmd": "./setup.sh",
 "hooks": {
   "guard": "verif",
   "enable": "go build -tags verif (vcheck.sh builds ./cmd/vcheck against /repo with -tags verif, plus -race for the concurrency properties)",
   "baseline_off_cmd": "cd /repo && export PATH=/root/go/pkg/mod/golang.org/toolchain@v0.0.1-go1.25.8.linux-amd64/bin:$PATH GOTOOLCHAIN=local GOFLAGS=-mod=mod GOPROXY=off && go test -mod=mod -json -vet=off -count=1 -timeout 25m ./...",
   "source_commits": ["b631a9c", "f3a2c9f", "9c76935"],
   "add_only": True,
 },
 "engines": [
   {"name": "vcheck", "path": "cmd/vcheck", "serves_properties": sorted(checks), "kind_free_text": "single driver/worker Go binary rebuilt from /repo on every check; fixed case lists from VERIF_SEED; child process per batch; offline oracles over recorded boundary event logs"},
 ],
 "checks": [],
 "not_applicable": [],
 "notes": "Technique family: runtime monitoring and sanitizers (DESIGN.md). Exit 0 = held on everything explored, 1 = VIOLATION line, 3 = inconclusive (monitors observed too little).",
}
for pid in ALL:
    if pid in checks:
        c = checks[pid]
        m["checks"].append({
          "property_id": pid,
          "quick_cmd": f"./vcheck.sh {pid} quick",
          "thorough_cmd": f"./vcheck.sh {pid} thorough",
          "evidence_file": f"/verif/evidence/{pid}.json",
          "replay_cmd_template": "./vcheck.sh replay {path}",
          "engine": "vcheck",
          "level_claimed": {"category": c["cat"], "text": c["text"], "design_ref": c["ref"]},
          "level_note": c["note"],
          "technique": c["tech"],
        })
    else:
        m["not_applicable"].append({"property_id": pid, "reason": na_reason})
json.dump(m, open("MANIFEST.json", "w"), indent=1)
print("checks:", len(m["checks"]), "not_applicable:", len(m["not_applicable"]))
