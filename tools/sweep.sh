#!/bin/bash
# usage: tools/sweep.sh <seed> <tier> ID...   (runs the checks one after the other from the
# directory this script lives in; evidence, replays and the summary stay in that directory,
# so it can run from a snapshot: vp run -- tools/sweep.sh 3 quick C01 C02 ...)
cd "$(dirname "$0")/.."
export VERIF_ROOT="$PWD"
S=$1; T=$2; shift 2
mkdir -p .work/sweep
for id in "$@"; do
  START=$(date +%s)
  VERIF_SEED=$S ./vcheck.sh $id $T > .work/sweep/$id-$S-$T.out 2>&1
  RC=$?
  echo "$id seed=$S tier=$T exit=$RC $(( $(date +%s) - START ))s $(grep '^property' .work/sweep/$id-$S-$T.out | cut -c1-150)" | tee -a .work/sweep/summary-$S-$T.txt
  grep -A2 '^VIOLATION' .work/sweep/$id-$S-$T.out | cut -c1-400
  grep '^INCONCLUSIVE ' .work/sweep/$id-$S-$T.out | cut -c1-200
done
