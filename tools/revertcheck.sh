#!/bin/bash
# usage: tools/revertcheck.sh <tier> <property id> <fix commit>...
# Re-introduces a repaired defect (reverts the given fix: commits in a scratch
# worktree of /repo) and runs one check against it: the check must fire again.
set -u
cd "$(dirname "$0")/.."
TIER="$1"; ID="$2"; shift 2
NAME="revert-$(echo "$@" | tr ' ' '-')"
WT=/tmp/seedwt/$NAME
mkdir -p /tmp/seedwt .work/seedruns
git -C /repo worktree remove --force "$WT" >/dev/null 2>&1
git -C /repo worktree add -q --detach "$WT" HEAD || exit 2
for c in "$@"; do
  git -C "$WT" revert --no-commit "$c" >/dev/null 2>&1 || { echo "REVERT OF $c DOES NOT APPLY"; git -C "$WT" revert --abort 2>/dev/null; git -C /repo worktree remove --force "$WT"; exit 2; }
done
OUT=.work/seedruns/$NAME-$ID-$TIER.out
VERIF_REPO="$WT" ./vcheck.sh "$ID" "$TIER" > "$OUT" 2>&1
RC=$?
echo "== $NAME vs $ID ($TIER): exit=$RC $(grep '^property=' "$OUT" | cut -c1-110)"
grep -A1 '^VIOLATION' "$OUT" | grep 'identity=' | sed 's/.*identity=/   fires: /' | cut -c1-200 | sort | uniq -c | head -8
git -C /repo worktree remove --force "$WT"
git checkout -- evidence 2>/dev/null
rm -f replays/*.json 2>/dev/null
