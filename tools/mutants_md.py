#!/usr/bin/env python3
"""Builds MUTANTS.md from seeded/*/meta.json and the seedcheck logs under seeded/logs/
(later logs override earlier ones for the same (change, check) pair)."""
import json, re, glob, os, sys
root = os.path.dirname(os.path.dirname(os.path.abspath(__file__)))
res = {}      # (name, check) -> (exit, [identities], logfile)
order = sorted(glob.glob(os.path.join(root, 'seeded/logs/*.log')))
for lf in order:
    cur = None
    for line in open(lf, errors='replace'):
        m = re.match(r'== (\S+) vs (\S+) \((\w+)\): exit=(\d+)', line)
        if m:
            cur = (m.group(1), m.group(2))
            res[cur] = [int(m.group(4)), [], os.path.basename(lf)]
            continue
        m = re.match(r'\s+\d+\s+fires: (\S+)', line)
        if m and cur:
            res[cur][1].append(m.group(1))
names = sorted({os.path.basename(os.path.dirname(p)) for p in glob.glob(os.path.join(root, 'seeded/*/meta.json'))},
               key=lambda n: (n.split('-')[0], int(n.split('-')[1])))
out = []
out.append('# Seeded changes and which checks catch them\n')
out.append('Every change below was written by an independent sub-agent that saw only the text of one property and its own scratch\n'
           'worktree of the repository (nothing from /verif). Each was confirmed here before it was kept: it compiles, the existing\n'
           'tests of the touched packages pass with it, its demonstration fails with it and passes without it (`tools/seedverify.sh`).\n'
           'The checks were then run against a scratch worktree holding the change (`tools/seedcheck.sh`, quick tier, seed 1, `VERIF_REPO`);\n'
           'no change was ever applied to /repo. "caught by" lists the check and the first violation identities it printed; a row marked\n'
           '*(after strengthening)* was missed by the first version of the check and is caught since the change named in the last column.\n')
out.append('| change | property | what it does (author\'s summary) | needs to manifest | caught by (quick tier) | not caught by | note |')
out.append('| --- | --- | --- | --- | --- | --- | --- |')
notes = json.load(open(os.path.join(root, 'seeded/notes.json'))) if os.path.exists(os.path.join(root, 'seeded/notes.json')) else {}
caught_n = 0
for n in names:
    m = json.load(open(os.path.join(root, 'seeded', n, 'meta.json')))
    summ = re.sub(r'\s+', ' ', m.get('summary', '')).replace('|', '/')
    need = re.sub(r'\s+', ' ', m.get('needs_to_manifest', '')).replace('|', '/')
    if len(summ) > 330: summ = summ[:327] + '...'
    if len(need) > 260: need = need[:257] + '...'
    c, nc = [], []
    for (nm, chk), (rc, ids, lf) in sorted(res.items()):
        if nm != n: continue
        if rc == 1 and ids:
            c.append('**%s**: %s' % (chk, ', '.join('`%s`' % i for i in ids[:3]) + (' ...' if len(ids) > 3 else '')))
        elif rc == 0:
            nc.append(chk)
        else:
            nc.append('%s (exit %d)' % (chk, rc))
    if c: caught_n += 1
    out.append('| %s | %s | %s | %s | %s | %s | %s |' % (n, m.get('property', n.split('-')[0]), summ, need, '<br>'.join(c) or '-', ', '.join(nc) or '-', notes.get(n, '')))
out.append('')
out.append('%d of %d changes are caught by at least one check at the quick tier.' % (caught_n, len(names)))
open(os.path.join(root, 'MUTANTS.md'), 'w').write('\n'.join(out) + '\n')
print('written', caught_n, len(names))
