#!/bin/bash
# usage: tools/seedverify.sh <seed out dir>   (contains patch.diff, meta.json, demo file(s))
# Confirms, in a scratch worktree of /repo: demo passes without the change, fails with
# it, and the existing tests of the touched packages still pass with it.
set -u
SD="$(cd "$1" && pwd)"
. "$(dirname "$0")/../env.sh"
NAME=verify-$(basename "$(dirname "$(dirname "$SD")")")-$(basename "$SD")
WT=/tmp/seedwt/$NAME
mkdir -p /tmp/seedwt
git -C /repo worktree remove --force "$WT" >/dev/null 2>&1
git -C /repo worktree add -q --detach "$WT" HEAD || exit 2
cd "$WT"
python3 - "$SD" "$WT" <<'PY'
import json,sys,shutil,os
sd,wt=sys.argv[1],sys.argv[2]
m=json.load(open(sd+'/meta.json'))
for df in m.get('demo_files',[]):
    a,b=[x.strip() for x in df.split('->')]
    os.makedirs(os.path.dirname(os.path.join(wt,b)),exist_ok=True)
    shutil.copy(os.path.join(sd,a), os.path.join(wt,b))
open(wt+'/_demo_cmd','w').write(m['demo_cmd'])
open(wt+'/_demo_files','w').write('\n'.join(df.split('->')[1].strip() for df in m.get('demo_files',[])))
pk=sorted(set('./'+os.path.dirname(f)+'/...' for f in m['files']))
open(wt+'/_pkgs','w').write(' '.join(pk))
PY
DEMO=$(cat _demo_cmd); PKGS=$(cat _pkgs)
echo "demo: $DEMO"; echo "pkgs: $PKGS"
eval "$DEMO" > _demo_clean.out 2>&1; echo "demo on clean tree: exit=$? (expect 0)"
PATCH="$SD/patch.diff"; [ -f "$SD/patch-current.diff" ] && PATCH="$SD/patch-current.diff"
git apply "$PATCH" 2>/dev/null || patch -p1 -s -F3 --no-backup-if-mismatch < "$PATCH" || { echo PATCH FAILED; exit 2; }
go build ./... > _build.out 2>&1; echo "build with change: exit=$?"
eval "$DEMO" > _demo_mut.out 2>&1; echo "demo with change: exit=$? (expect non-zero)"
xargs -r rm -f < _demo_files   # the existing suite, without the demonstration itself
go test -count=1 $PKGS > _pk.out 2>&1; echo "existing tests of touched packages with change: exit=$? (expect 0)"; grep -v "^ok\|no test files" _pk.out | tail -5
cd /; git -C /repo worktree remove --force "$WT"
