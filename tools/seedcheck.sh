#!/bin/bash
# usage: tools/seedcheck.sh <seeded dir (contains patch.diff)> <tier> <property id>...
# Applies the seeded change to a scratch worktree of /repo (never to /repo itself),
# runs the given checks against it (VERIF_REPO) and prints which identities fire.
set -u
cd "$(dirname "$0")/.."
SD="$(cd "$1" && pwd)"; TIER="$2"; shift 2
NAME=$(basename "$SD")
WT=/tmp/seedwt/$NAME
mkdir -p /tmp/seedwt
git -C /repo worktree remove --force "$WT" >/dev/null 2>&1
git -C /repo worktree add -q --detach "$WT" HEAD || exit 2
# patch-current.diff: the same change ported to the current HEAD (where a later commit touched its context)
PATCH="$SD/patch.diff"; [ -f "$SD/patch-current.diff" ] && PATCH="$SD/patch-current.diff"
if ! git -C "$WT" apply "$PATCH" 2>/dev/null && ! (cd "$WT" && patch -p1 -s -F3 --no-backup-if-mismatch < "$PATCH"); then echo "PATCH DOES NOT APPLY"; git -C /repo worktree remove --force "$WT"; exit 2; fi
mkdir -p .work/seedruns/replays-$NAME replays
ls replays > .work/seedruns/.before-$NAME 2>/dev/null
for id in "$@"; do
  OUT=.work/seedruns/$NAME-$id-$TIER.out
  VERIF_REPO="$WT" ./vcheck.sh "$id" "$TIER" > "$OUT" 2>&1
  RC=$?
  echo "== $NAME vs $id ($TIER): exit=$RC $(grep '^property=' "$OUT" | cut -c1-120)"
  grep -A1 '^VIOLATION' "$OUT" | grep 'identity=' | sed 's/.*identity=/   fires: /' | sort | uniq -c | head -12
  grep '^BUILD FAILED' "$OUT"
done
git -C /repo worktree remove --force "$WT"
# the evidence files were rewritten by these runs against a mutant: restore them
git checkout -- evidence 2>/dev/null
# replay files written by these runs belong to the mutant: move them out of the way
for f in $(ls replays 2>/dev/null); do [ -f "replays/$f" ] || continue; grep -qx "$f" .work/seedruns/.before-$NAME || mv replays/$f .work/seedruns/replays-$NAME/; done
rm -f .work/seedruns/.before-$NAME
